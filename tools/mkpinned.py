#!/usr/bin/env python3
"""Regenerate fv/pinned_locals.json: for every function of /repo/forml the names of its own locals in binding order.
Run after every change of /repo that the rules are (re)written against (i.e. after each fix commit)."""
import json, os, sys

os.environ['FV_NO_NORMALISE'] = '1'
V = os.path.dirname(os.path.dirname(os.path.abspath(__file__)))
sys.path.insert(0, V)
from fv import core  # noqa: E402

prog = core.Program('/repo')
out = {}
for name, mod in sorted(prog.modules.items()):
    for qual, node in mod.defs.items():
        if isinstance(node, core.FUNC):
            out[f'{name}:{qual}'] = core.own_locals(node)
json.dump(out, open(os.path.join(V, 'fv', 'pinned_locals.json'), 'w'), indent=0, sort_keys=True)
import gzip
srcs = {name: mod.source for name, mod in sorted(prog.modules.items())}
with gzip.open(os.path.join(V, 'fv', 'pinned_src.json.gz'), 'wt', encoding='utf-8', compresslevel=9) as fh:
    json.dump(srcs, fh, sort_keys=True)
print(len(out), 'functions', len(srcs), 'modules')
