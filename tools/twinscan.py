#!/usr/bin/env python3
"""Brittleness scan (development aid): apply *behaviour-preserving* edits to every function some check analyses and list the
checks that raise an alarm on them.  Each alarm is a would-be false alarm on a harmless refactoring.

Edits: (R) rename one local variable consistently; (P) insert a no-op statement; (T) return through a temporary;
(S) swap the arms of an if/else under a negated condition.
usage: python3-vt tools/twinscan.py [module-substring] [max_per_function]
"""
import ast, copy, json, multiprocessing, os, shutil, sys, tempfile

V = os.path.dirname(os.path.dirname(os.path.abspath(__file__)))
sys.path.insert(0, V)
from fv import cli, core, report  # noqa: E402


def locals_of(fn):
    params = {a.arg for a in fn.args.posonlyargs + fn.args.args + fn.args.kwonlyargs}
    if fn.args.vararg:
        params.add(fn.args.vararg.arg)
    if fn.args.kwarg:
        params.add(fn.args.kwarg.arg)
    stores, blocked = set(), set()
    for n in ast.walk(fn):
        if isinstance(n, (ast.FunctionDef, ast.AsyncFunctionDef, ast.Lambda, ast.ClassDef)) and n is not fn:
            for x in ast.walk(n):
                if isinstance(x, ast.Name):
                    blocked.add(x.id)
        if isinstance(n, (ast.Global, ast.Nonlocal)):
            blocked.update(n.names)
        if isinstance(n, ast.Name) and isinstance(n.ctx, ast.Store):
            stores.add(n.id)
    return sorted(stores - params - blocked)


def twins(fn):
    for name in locals_of(fn)[:3]:
        c = copy.deepcopy(fn)
        new = name + '_x'
        for n in ast.walk(c):
            if isinstance(n, ast.Name) and n.id == name:
                n.id = new
        yield f'R rename local `{name}`', c
    c = copy.deepcopy(fn)
    first = 1 if c.body and isinstance(c.body[0], ast.Expr) and isinstance(c.body[0].value, ast.Constant) else 0
    c.body.insert(first, ast.Pass())
    yield 'P insert no-op', c
    for i, n in enumerate(list(ast.walk(fn))):
        if isinstance(n, ast.Return) and n.value is not None and not isinstance(n.value, (ast.Name, ast.Constant)):
            c = copy.deepcopy(fn)
            m = list(ast.walk(c))[i]
            for p in ast.walk(c):
                for f in ('body', 'orelse', 'finalbody'):
                    seq = getattr(p, f, None)
                    if isinstance(seq, list) and m in seq:
                        k = seq.index(m)
                        seq[k:k + 1] = [ast.Assign(targets=[ast.Name(id='result_x', ctx=ast.Store())], value=m.value, lineno=m.lineno), ast.Return(value=ast.Name(id='result_x', ctx=ast.Load()))]
                        yield f'T L{n.lineno} return through a temporary', ast.fix_missing_locations(c)
                        break
                else:
                    continue
                break
            break
    for i, n in enumerate(list(ast.walk(fn))):
        if isinstance(n, ast.If) and n.orelse and not (len(n.orelse) == 1 and isinstance(n.orelse[0], ast.If)):
            c = copy.deepcopy(fn)
            m = list(ast.walk(c))[i]
            m.test = ast.UnaryOp(op=ast.Not(), operand=m.test)
            m.body, m.orelse = m.orelse, m.body
            yield f'S L{n.lineno} swap if/else arms', ast.fix_missing_locations(c)
            break


def more_twins(fn):
    # (L) a logging line at the top
    c = copy.deepcopy(fn)
    first = 1 if c.body and isinstance(c.body[0], ast.Expr) and isinstance(c.body[0].value, ast.Constant) else 0
    c.body.insert(first, ast.parse("LOGGER.debug('entering')").body[0])
    yield 'L insert a logging call', ast.fix_missing_locations(c)
    # (I) swap two adjacent independent simple assignments
    for i, n in enumerate(list(ast.walk(fn))):
        done = False
        for field in ('body', 'orelse', 'finalbody'):
            seq = getattr(n, field, None)
            if not isinstance(seq, list):
                continue
            for k in range(len(seq) - 1):
                a, b = seq[k], seq[k + 1]
                if all(isinstance(x, ast.Assign) and len(x.targets) == 1 and isinstance(x.targets[0], ast.Name) for x in (a, b)):
                    na, nb = a.targets[0].id, b.targets[0].id
                    ra = {x.id for x in ast.walk(a.value) if isinstance(x, ast.Name)}
                    rb = {x.id for x in ast.walk(b.value) if isinstance(x, ast.Name)}
                    pure = not any(isinstance(x, (ast.Call, ast.Await, ast.Yield)) for v in (a.value, b.value) for x in ast.walk(v))
                    if na != nb and na not in rb and nb not in ra and pure:
                        c = copy.deepcopy(fn)
                        m = list(ast.walk(c))[i]
                        s2 = getattr(m, field)
                        s2[k], s2[k + 1] = s2[k + 1], s2[k]
                        yield f'I L{a.lineno} swap independent assignments', c
                        done = True
                        break
            if done:
                break
        if done:
            break
    # (E) if c: return A / return B  ->  if c: return A else: return B
    for i, n in enumerate(list(ast.walk(fn))):
        done = False
        for field in ('body', 'orelse', 'finalbody'):
            seq = getattr(n, field, None)
            if not isinstance(seq, list):
                continue
            for k in range(len(seq) - 1):
                a, b = seq[k], seq[k + 1]
                if isinstance(a, ast.If) and not a.orelse and a.body and isinstance(a.body[-1], ast.Return) and isinstance(b, ast.Return) and k + 2 == len(seq):
                    c = copy.deepcopy(fn)
                    m = list(ast.walk(c))[i]
                    s2 = getattr(m, field)
                    s2[k].orelse = [s2[k + 1]]
                    del s2[k + 1]
                    yield f'E L{a.lineno} trailing return moved into else', ast.fix_missing_locations(c)
                    done = True
                    break
            if done:
                break
        if done:
            break


def run_one(args):
    props, relpath, qual, desc, new_src = args
    try:
        compile(new_src, relpath, 'exec')
    except SyntaxError:
        return (relpath, qual, desc, 'nocompile', [])
    root = tempfile.mkdtemp(prefix='fv-tw-')
    hits = []
    try:
        shutil.copytree('/repo/forml', os.path.join(root, 'forml'), ignore=shutil.ignore_patterns('__pycache__'))
        open(os.path.join(root, relpath), 'w').write(new_src)
        for prop in props:
            try:
                ctx = cli.run_rules(prop, root, 'quick')
            except core.AnalysisError as e:
                hits.append(f'{prop}!ANALYSIS-ERROR')
                continue
            except Exception as e:
                hits.append(f'{prop}?crash:{type(e).__name__}')
                continue
            known, _ = report.load_known(prop)
            new = [f for f in ctx.findings if not any(k['rule'] == f.rule and k['key'] == f'{f.where}::{f.key}' for k in known)]
            if new:
                hits.append(f'{prop}:{new[0].rule}')
        return (relpath, qual, desc, 'alarm' if hits else 'silent', hits)
    finally:
        shutil.rmtree(root, ignore_errors=True)


MODES = set((os.environ.get('TWIN_MODES') or 'basic,more').split(','))


def main():
    only = sys.argv[1] if len(sys.argv) > 1 else ''
    owners = {}
    for f in sorted(os.listdir(os.path.join(V, 'evidence'))):
        if f.endswith('.json'):
            ev = json.load(open(os.path.join(V, 'evidence', f)))
            for ref in ev['coverage'].get('functions_analysed', []):
                owners.setdefault(ref, []).append(f[:-5])
    prog = core.Program('/repo')
    jobs = []
    for ref, props in sorted(owners.items()):
        if only not in ref or not prog.has_func(ref):
            continue
        fn = prog.func(ref)
        lines = fn.module.source.split('\n')
        import itertools
        for desc, tw in itertools.chain(twins(fn.node) if 'basic' in MODES else [], more_twins(fn.node) if 'more' in MODES else []):
            s0, s1 = fn.node.lineno - 1, fn.node.end_lineno
            if fn.node.decorator_list:
                s0 = min(d.lineno for d in fn.node.decorator_list) - 1
            indent = ' ' * fn.node.col_offset
            body = '\n'.join(indent + ln if ln else ln for ln in ast.unparse(tw).split('\n'))
            jobs.append((props, fn.module.relpath, fn.qual, desc, '\n'.join(lines[:s0] + [body] + lines[s1:])))
    with multiprocessing.Pool(14) as pool:
        res = pool.map(run_one, jobs, chunksize=2)
    al = [r for r in res if r[3] == 'alarm']
    print(f'twins={len(res)} silent={sum(1 for r in res if r[3] == "silent")} alarms={len(al)}')
    byk = {}
    for r in al:
        byk.setdefault(r[2].split()[0], []).append(r)
    for k, rs in sorted(byk.items()):
        print(f'== {k}: {len(rs)}')
        for r in rs:
            print(f'  ALARM {r[0].split("/")[-1]}:{r[1]} {r[2]} -> {r[4]}')


if __name__ == '__main__':
    main()
