#!/usr/bin/env python3
"""Cross-property false-alarm matrix (development aid): apply every behaviour-preserving twin patch to a scratch copy of
/repo/forml and run *all* checks on it - a twin written against property X must stay silent under every property.

usage: python3-vt tools/crossmatrix.py [substring-of-patch-name ...]     (prints one line per alarm, exit 1 if any)
"""
import glob, multiprocessing, os, shutil, subprocess, sys, tempfile

V = os.path.dirname(os.path.dirname(os.path.abspath(__file__)))
REPO = os.environ.get('VERIF_REPO', '/repo')
PROPS = ['C01'] + [f'C{n:02d}' for n in range(3, 21)]


def work(patch: str) -> list:
    tmp = tempfile.mkdtemp(prefix='fv-xm-')
    out = []
    try:
        shutil.copytree(os.path.join(REPO, 'forml'), os.path.join(tmp, 'forml'), ignore=shutil.ignore_patterns('__pycache__'))
        r = subprocess.run(['patch', '-p1', '-s', '-d', tmp, '-i', patch], capture_output=True, text=True)
        if r.returncode:
            return [(os.path.basename(patch), '-', 'PATCH-DOES-NOT-APPLY')]
        env = dict(os.environ, VERIF_EVIDENCE_DIR=os.path.join(tmp, 'ev'), VERIF_REPO=tmp)
        for p in PROPS:
            r = subprocess.run([os.path.join(V, 'check'), p, '--repo', tmp], capture_output=True, text=True, env=env, cwd=V)
            if r.returncode or 'VIOLATION' in r.stdout:
                rules = sorted({ln.split()[0] for ln in r.stdout.splitlines() if ln.startswith('  ') and not ln.startswith('   ') and 'KNOWN' not in ln})
                out.append((os.path.basename(patch), p, f'exit={r.returncode} ' + ' '.join(rules)[:200] + (r.stdout + r.stderr).strip().splitlines()[-1][:120]))
    finally:
        shutil.rmtree(tmp, ignore_errors=True)
    return out


def main() -> int:
    patches = sorted(glob.glob(os.path.join(V, 'selftest', 'twins', '*.diff')))
    if sys.argv[1:]:
        patches = [p for p in patches if any(s in os.path.basename(p) for s in sys.argv[1:])]
    bad = 0
    with multiprocessing.Pool(16) as pool:
        for res in pool.imap_unordered(work, patches):
            for name, prop, what in res:
                bad += 1
                print(f'ALARM {name} x {prop}: {what}', flush=True)
    print(f'{len(patches)} twins x {len(PROPS)} checks: {bad} alarm(s)')
    return 1 if bad else 0


if __name__ == '__main__':
    sys.exit(main())
