#!/usr/bin/env python3
"""Sensitivity scan over ALL checks (development aid): for every function some check analyses, generate the syntactic
mutants of tools/mutscan.py and run every check that lists the function in its evidence; print the mutants NO check reports.
usage: python3-vt tools/mutscan_all.py [max_per_function] [module-substring] [coverage.json]
With a coverage.py JSON report (of the repository's own test suite) only mutants on lines the suite never executes are
generated (deletions included): each of them passes the tests by construction, so a survivor is a real blind spot."""
import json, multiprocessing, os, shutil, sys, tempfile, ast

V = os.path.dirname(os.path.dirname(os.path.abspath(__file__)))
sys.path.insert(0, V)
sys.path.insert(0, os.path.join(V, 'tools'))
from fv import cli, core, report  # noqa: E402
import mutscan  # noqa: E402


def run_one(args):
    props, relpath, qual, desc, new_src = args
    try:
        compile(new_src, relpath, 'exec')
    except SyntaxError:
        return (relpath, qual, desc, 'nocompile', [])
    root = tempfile.mkdtemp(prefix='fv-mut-')
    hits = []
    try:
        shutil.copytree('/repo/forml', os.path.join(root, 'forml'), ignore=shutil.ignore_patterns('__pycache__'))
        open(os.path.join(root, relpath), 'w').write(new_src)
        for prop in props:
            try:
                ctx = cli.run_rules(prop, root, 'quick')
            except core.AnalysisError:
                hits.append(prop + '!')
                continue
            except Exception as e:
                hits.append(prop + '?crash')
                continue
            known, _ = report.load_known(prop)
            if [f for f in ctx.findings if not any(k['rule'] == f.rule and k['key'] == f'{f.where}::{f.key}' for k in known)]:
                hits.append(prop)
        return (relpath, qual, desc, 'detected' if hits else 'SURVIVED', hits)
    finally:
        shutil.rmtree(root, ignore_errors=True)


def main():
    cap = int(sys.argv[1]) if len(sys.argv) > 1 else 40
    only = sys.argv[2] if len(sys.argv) > 2 else ''
    cov = json.load(open(sys.argv[3]))['files'] if len(sys.argv) > 3 else None
    owners = {}
    for f in sorted(os.listdir(os.path.join(V, 'evidence'))):
        if f.endswith('.json'):
            ev = json.load(open(os.path.join(V, 'evidence', f)))
            for ref in ev['coverage'].get('functions_analysed', []):
                owners.setdefault(ref, []).append(f[:-5])
    prog = core.Program('/repo')
    jobs = []
    for ref, props in sorted(owners.items()):
        if only not in ref or not prog.has_func(ref):
            continue
        fn = prog.func(ref)
        lines = fn.module.source.split('\n')
        n = 0
        for desc, mut in mutscan.mutants(fn.node):
            if n >= cap:
                break
            if 'LOGGER' in desc:
                continue
            if cov is None:
                if ' delete ' in desc:
                    continue
            else:
                fc = cov.get(fn.module.relpath)
                line = int(desc.split()[0][1:])
                if fc is None or line not in set(fc['missing_lines']):
                    continue
            s0, s1 = fn.node.lineno - 1, fn.node.end_lineno
            if fn.node.decorator_list:
                s0 = min(d.lineno for d in fn.node.decorator_list) - 1
            indent = ' ' * fn.node.col_offset
            body = '\n'.join(indent + ln if ln else ln for ln in ast.unparse(mut).split('\n'))
            jobs.append((props, fn.module.relpath, fn.qual, desc, '\n'.join(lines[:s0] + [body] + lines[s1:])))
            n += 1
    with multiprocessing.Pool(14) as pool:
        res = pool.map(run_one, jobs, chunksize=2)
    det = sum(1 for r in res if r[3] == 'detected')
    print(f'mutants={len(res)} detected={det} survived={sum(1 for r in res if r[3] == "SURVIVED")}')
    for r in res:
        if r[3] == 'SURVIVED':
            print(f'  SURVIVED {r[0]}:{r[1]} {r[2]}')


if __name__ == '__main__':
    main()
