#!/usr/bin/env python3
"""Confirm a red-team mutation independently and file it under /verif/seeded/<name>/.

usage: confirm_seed.py <srcdir with patch.diff + demo.py|test_demo.py + README.md> <name> <property-id>
Steps (all in a fresh scratch worktree of /repo HEAD under /tmp, removed afterwards):
  1. patch applies; touched files are under forml/ only; every touched file still compiles
  2. demo FAILS with the patch, PASSES without it
  3. the baseline suite shows no regression against BASELINE.json stable_pass with the patch applied
Development aid - never part of a registered check."""
import json, os, shutil, subprocess, sys, tempfile, time

src, name, prop = sys.argv[1], sys.argv[2], sys.argv[3]
V = os.path.dirname(os.path.dirname(os.path.abspath(__file__)))
wt = tempfile.mkdtemp(prefix='confirm-', dir='/tmp')
os.rmdir(wt)
def sh(cmd, **kw):
    return subprocess.run(cmd, shell=True, stdout=subprocess.PIPE, stderr=subprocess.STDOUT, text=True, **kw)
head = sh('git -C /repo rev-parse --short HEAD').stdout.strip()
r = sh(f'git -C /repo worktree add -q --detach {wt} HEAD')
assert r.returncode == 0, r.stdout
meta = {'property': prop, 'name': name, 'repo_head': head, 'confirmed_at': time.strftime('%Y-%m-%dT%H:%M:%SZ', time.gmtime())}
try:
    patch = os.path.join(src, 'patch.diff')
    demo = next(os.path.join(src, f) for f in ('demo.py', 'test_demo.py') if os.path.exists(os.path.join(src, f)))
    r = sh(f'git apply --check {patch}', cwd=wt)
    if r.returncode != 0:
        r = sh(f'git apply --3way {patch}', cwd=wt)
        if r.returncode != 0:
            print('PATCH-DOES-NOT-APPLY', r.stdout); sys.exit(3)
        sh('git reset -q', cwd=wt)
        refreshed = sh('git diff', cwd=wt).stdout
        sh('git checkout -- .', cwd=wt)
        open('/tmp/_refreshed.diff', 'w').write(refreshed)
        patch = '/tmp/_refreshed.diff'
        meta['patch_refreshed_onto_head'] = True
    files = [l.split()[-1][2:] for l in open(patch) if l.startswith('+++ b/')]
    assert files and all(f.startswith('forml/') for f in files), files
    meta['files'] = files
    env = dict(os.environ, PYTHONPATH=wt)
    runner = f'/venv/bin/python -W ignore {demo}' if os.path.basename(demo) == 'demo.py' else f'/venv/bin/python -m pytest -q -p no:cacheprovider {demo}'
    clean = sh(runner, cwd=wt, env=env)
    meta['demo_clean_rc'] = clean.returncode
    assert sh(f'git apply {patch}', cwd=wt).returncode == 0
    comp = sh('/venv/bin/python -m py_compile ' + ' '.join(files), cwd=wt)
    meta['compiles'] = comp.returncode == 0
    mut = sh(runner, cwd=wt, env=env)
    meta['demo_mutated_rc'] = mut.returncode
    meta['demo_mutated_tail'] = mut.stdout.strip().splitlines()[-3:]
    base = sh(f'python3 {V}/tools/baseline_compare.py {wt}')
    meta['suite'] = base.stdout.strip().splitlines()[-3:]
    meta['suite_regressions'] = base.returncode != 0
    ok = meta['compiles'] and clean.returncode == 0 and mut.returncode != 0 and not meta['suite_regressions']
    meta['confirmed'] = ok
    print(json.dumps(meta, indent=1))
    if ok:
        dst = os.path.join(V, 'seeded', name)
        os.makedirs(dst, exist_ok=True)
        shutil.copy(patch, os.path.join(dst, 'patch.diff'))
        shutil.copy(demo, os.path.join(dst, os.path.basename(demo)))
        if os.path.exists(os.path.join(src, 'README.md')):
            shutil.copy(os.path.join(src, 'README.md'), os.path.join(dst, 'README.md'))
        meta['ran'] = [f'git apply patch.diff (scratch worktree of /repo@{head})', runner.replace(demo, os.path.basename(demo)) + ' -> fails with patch, passes without',
                       'tools/baseline_compare.py <worktree> -> no regression against the 869 stable tests']
        json.dump(meta, open(os.path.join(dst, 'meta.json'), 'w'), indent=1)
    sys.exit(0 if ok else 1)
finally:
    sh(f'git -C /repo worktree remove --force {wt}')
    shutil.rmtree(wt, ignore_errors=True)
