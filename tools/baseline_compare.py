#!/usr/bin/env python3
"""Run the pinned baseline suite on a tree (default /repo) and compare with /root/.vp/BASELINE.json stable_pass.
Usage: baseline_compare.py [repo_dir] [extra pytest args...]   (development aid, not a property check)"""
import json, subprocess, sys, tempfile, os, xml.etree.ElementTree as ET
repo = sys.argv[1] if len(sys.argv) > 1 else '/repo'
base = json.load(open('/root/.vp/BASELINE.json'))
with tempfile.TemporaryDirectory() as d:
    jx = os.path.join(d, 'j.xml')
    cmd = ['/venv/bin/python', '-m', 'pytest', '-q', '-p', 'no:cacheprovider', '--timeout=900', '-n', '8',
           '--continue-on-collection-errors', f'--junitxml={jx}'] + sys.argv[2:]
    r = subprocess.run(cmd, cwd=repo, stdout=subprocess.PIPE, stderr=subprocess.STDOUT, text=True)
    if not os.path.exists(jx):
        cmd.remove('-n'); cmd.remove('8')
        r = subprocess.run(cmd, cwd=repo, stdout=subprocess.PIPE, stderr=subprocess.STDOUT, text=True)
    passed = set()
    for tc in ET.parse(jx).getroot().iter('testcase'):
        if not any(ch.tag in ('failure', 'error', 'skipped') for ch in tc):
            passed.add(f"{tc.get('classname')}::{tc.get('name')}")
stable = set(base['stable_pass'])
missing = sorted(stable - passed)
if missing and len(missing) <= 30:  # xdist can alter parametrised ids: re-run the missing ones serially
    files = sorted({m.split('::')[0].rsplit('.', 1)[0].replace('.', '/') + '.py' for m in missing})
    with tempfile.TemporaryDirectory() as d:
        jx = os.path.join(d, 'j.xml')
        subprocess.run(['/venv/bin/python', '-m', 'pytest', '-q', '-p', 'no:cacheprovider', f'--junitxml={jx}'] + files,
                       cwd=repo, stdout=subprocess.PIPE, stderr=subprocess.STDOUT, text=True)
        for tc in ET.parse(jx).getroot().iter('testcase'):
            if not any(ch.tag in ('failure', 'error', 'skipped') for ch in tc):
                passed.add(f"{tc.get('classname')}::{tc.get('name')}")
    missing = sorted(stable - passed)
print(r.stdout.strip().splitlines()[-1])
print(f'stable={len(stable)} passed_now={len(passed)} regressions={len(missing)}')
for m in missing[:50]:
    print('  REGRESSION', m)
sys.exit(1 if missing else 0)
