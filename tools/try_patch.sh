#!/bin/sh
# usage: try_patch.sh <patch.diff> <check ids...>   applies patch to /repo, runs the checks, reverts (development aid)
P="$1"; shift
cd /repo || exit 2
test -z "$(git status --porcelain -- forml)" || { echo "repo dirty"; exit 2; }
git apply "$P" || { echo "PATCH-DOES-NOT-APPLY $P"; exit 3; }
for id in "$@"; do (cd /verif && VERIF_EVIDENCE_DIR=/tmp/fv-scratch-evidence ./check "$id" 2>&1 | grep -E "VIOLATION|ANALYSIS|^$id \[" | sed -n 1,6p); done
git checkout -- forml
