#!/usr/bin/env python3
"""Soundness scan of the refactoring-equivalence normaliser (fv/equiv.py): for every function of the repository generate
small *semantic* mutants (statement deleted, comparison flipped, condition negated, arguments swapped, constant changed,
and/or flipped, adjacent statements swapped, conditional arms swapped, else arm dropped, name replaced by another local)
and assert that no mutant has the same normal form as its original.  Any `EQUATED` line is either an equivalent mutant
(explain it) or an unsound rewrite (fix it).

usage: nfscan.py [module-substring] [max mutants per function]
"""
import ast, copy, multiprocessing, os, sys

os.environ['FV_NO_NORMALISE'] = '1'
V = os.path.dirname(os.path.dirname(os.path.abspath(__file__)))
sys.path.insert(0, V)
sys.path.insert(0, os.path.join(V, 'tools'))
from fv import core, equiv  # noqa: E402
import mutscan  # noqa: E402

sys.setrecursionlimit(20000)
PROG = None
SIGS = None


def extra_mutants(fn):
    nodes = list(ast.walk(fn))
    for i, n in enumerate(nodes):
        def clone():
            c = copy.deepcopy(fn)
            return c, list(ast.walk(c))[i]
        for f in ('body', 'orelse', 'finalbody'):
            seq = getattr(n, f, None)
            if isinstance(seq, list) and seq and isinstance(seq[0], ast.stmt):
                for k in range(len(seq) - 1):
                    if isinstance(seq[k], (ast.FunctionDef, ast.ClassDef)) or isinstance(seq[k + 1], (ast.FunctionDef, ast.ClassDef)):
                        continue
                    if isinstance(seq[k], ast.Expr) and isinstance(seq[k].value, ast.Constant):
                        continue
                    c, m = clone()
                    s2 = getattr(m, f)
                    s2[k], s2[k + 1] = s2[k + 1], s2[k]
                    yield f'L{seq[k].lineno} swap statements `{ast.unparse(seq[k]).splitlines()[0][:40]}` <-> `{ast.unparse(seq[k+1]).splitlines()[0][:40]}`', c
        if isinstance(n, ast.IfExp):
            c, m = clone()
            m.body, m.orelse = m.orelse, m.body
            yield f'L{n.lineno} swap arms `{ast.unparse(n)[:60]}`', c
        if isinstance(n, ast.If) and n.orelse:
            c, m = clone()
            m.orelse = []
            yield f'L{n.lineno} drop else of `if {ast.unparse(n.test)[:50]}`', c
        if isinstance(n, ast.UnaryOp) and isinstance(n.op, ast.Not):
            c, m = clone()
            par = None
            for p in ast.walk(c):
                for fld, val in ast.iter_fields(p):
                    if val is m:
                        setattr(p, fld, m.operand)
                        par = p
                    elif isinstance(val, list) and any(x is m for x in val):
                        val[[x is m for x in val].index(True)] = m.operand
                        par = p
            if par is not None:
                yield f'L{n.lineno} drop not `{ast.unparse(n)[:60]}`', c
        if isinstance(n, ast.Call) and len(n.keywords) >= 2 and all(k.arg for k in n.keywords):
            c, m = clone()
            m.keywords[0].value, m.keywords[1].value = m.keywords[1].value, m.keywords[0].value
            yield f'L{n.lineno} swap keyword values `{ast.unparse(n)[:60]}`', c
    locals_ = core.own_locals(fn)
    loads = [(i, n) for i, n in enumerate(nodes) if isinstance(n, ast.Name) and isinstance(n.ctx, ast.Load) and n.id in locals_]
    for i, n in loads[:12]:
        for other in locals_:
            if other != n.id:
                c = copy.deepcopy(fn)
                list(ast.walk(c))[i].id = other
                yield f'L{n.lineno} name {n.id} -> {other}', c
                break


def scan(args):
    modname, cap = args
    mod = PROG.modules[modname]
    out = []
    n = 0
    for qual, fn in equiv._outer_functions(mod.tree).items():
        fn = ast.parse(ast.unparse(fn)).body[0]  # private copy without parent links (line numbers relative to the function)
        try:
            base = equiv.nf_text(fn, SIGS)
        except Exception as err:  # pragma: no cover
            out.append(f'CRASH {modname}:{qual} {err!r}')
            continue
        k = 0
        for gen in (mutscan.mutants(fn), extra_mutants(fn)):
            for desc, mutant in gen:
                if cap and k >= cap:
                    break
                k += 1
                ast.fix_missing_locations(mutant)
                if ast.dump(mutant) == ast.dump(fn):
                    continue
                try:
                    same = equiv.nf_text(mutant, SIGS) == base
                except Exception as err:  # pragma: no cover
                    out.append(f'CRASH {modname}:{qual} {desc} {err!r}')
                    continue
                n += 1
                if same:
                    out.append(f'EQUATED {modname}:{qual} {desc}')
    return modname, n, out


def main():
    global PROG, SIGS
    sub = sys.argv[1] if len(sys.argv) > 1 else ''
    cap = int(sys.argv[2]) if len(sys.argv) > 2 else 0
    PROG = core.Program(os.environ.get('VERIF_REPO', '/repo'))
    SIGS = equiv.SignatureIndex(PROG.modules.values())
    mods = [m for m in sorted(PROG.modules) if sub in m]
    total = 0
    eq = 0
    with multiprocessing.Pool(16) as pool:
        for modname, n, out in pool.imap_unordered(scan, [(m, cap) for m in mods]):
            total += n
            for line in out:
                eq += 1
                print(line)
    print(f'{total} mutants, {eq} equated/crashed')


if __name__ == '__main__':
    main()
