#!/usr/bin/env python3
"""Sensitivity scan of a check (development aid): generate small syntactic mutants of the functions a property's rules
analyse, run the rules on each mutant (statically, scratch copy) and list the mutants the check does NOT report.
Survivors are either equivalent/irrelevant mutants or blind spots worth a rule.

usage: mutscan.py Cxx [max_per_function]
"""
import ast, copy, json, multiprocessing, os, shutil, sys, tempfile

V = os.path.dirname(os.path.dirname(os.path.abspath(__file__)))
sys.path.insert(0, V)
from fv import cli, core, report  # noqa: E402

SWAP = {ast.Lt: ast.LtE, ast.LtE: ast.Lt, ast.Gt: ast.GtE, ast.GtE: ast.Gt, ast.Eq: ast.NotEq, ast.NotEq: ast.Eq, ast.Is: ast.IsNot, ast.IsNot: ast.Is, ast.In: ast.NotIn, ast.NotIn: ast.In}


def mutants(fn_node):
    """Yield (description, mutated copy of fn_node)."""
    nodes = list(ast.walk(fn_node))
    for i, n in enumerate(nodes):
        def clone():
            c = copy.deepcopy(fn_node)
            return c, list(ast.walk(c))[i]
        if isinstance(n, ast.stmt) and n is not fn_node and not isinstance(n, (ast.FunctionDef, ast.ClassDef, ast.Return, ast.Raise)) and not (isinstance(n, ast.Expr) and isinstance(n.value, ast.Constant)):
            c, m = clone()
            par = None
            for p in ast.walk(c):
                for f in ('body', 'orelse', 'finalbody'):
                    seq = getattr(p, f, None)
                    if isinstance(seq, list) and m in seq:
                        par = (p, f, seq)
            if par:
                p, f, seq = par
                seq[seq.index(m)] = ast.copy_location(ast.Pass(), m)
                yield f'L{n.lineno} delete `{ast.unparse(n).splitlines()[0][:70]}`', c
        if isinstance(n, ast.Compare) and len(n.ops) == 1 and type(n.ops[0]) in SWAP:
            c, m = clone()
            m.ops = [SWAP[type(n.ops[0])]()]
            yield f'L{n.lineno} cmp `{ast.unparse(n)[:60]}` -> {type(m.ops[0]).__name__}', c
        if isinstance(n, ast.If):
            c, m = clone()
            m.test = ast.UnaryOp(op=ast.Not(), operand=m.test)
            yield f'L{n.lineno} negate if `{ast.unparse(n.test)[:60]}`', c
        if isinstance(n, ast.Call) and len(n.args) >= 2 and not any(isinstance(a, ast.Starred) for a in n.args):
            c, m = clone()
            m.args[0], m.args[1] = m.args[1], m.args[0]
            yield f'L{n.lineno} swap args `{ast.unparse(n)[:60]}`', c
        if isinstance(n, ast.Constant) and isinstance(n.value, int) and not isinstance(n.value, bool):
            c, m = clone()
            m.value = n.value + 1
            yield f'L{n.lineno} const {n.value} -> {n.value + 1}', c
        if isinstance(n, ast.BoolOp):
            c, m = clone()
            m.op = ast.Or() if isinstance(n.op, ast.And) else ast.And()
            yield f'L{n.lineno} boolop flip `{ast.unparse(n)[:60]}`', c
        if isinstance(n, ast.Return) and n.value is not None and isinstance(n.value, ast.Name):
            pass


def run_one(args):
    prop, relpath, qual, desc, new_src = args
    root = tempfile.mkdtemp(prefix='fv-mut-')
    try:
        shutil.copytree('/repo/forml', os.path.join(root, 'forml'), ignore=shutil.ignore_patterns('__pycache__'))
        open(os.path.join(root, relpath), 'w').write(new_src)
        try:
            compile(new_src, relpath, 'exec')
        except SyntaxError:
            return (relpath, qual, desc, 'nocompile')
        try:
            ctx = cli.run_rules(prop, root, 'quick')
        except core.AnalysisError as e:
            return (relpath, qual, desc, 'analysis-error')
        except Exception as e:
            return (relpath, qual, desc, 'crash:' + repr(e)[:80])
        known, _ = report.load_known(prop)
        new = [f for f in ctx.findings if not any(k['rule'] == f.rule and k['key'] == f'{f.where}::{f.key}' for k in known)]
        return (relpath, qual, desc, 'detected' if new else 'SURVIVED')
    finally:
        shutil.rmtree(root, ignore_errors=True)


def main():
    prop = sys.argv[1]
    cap = int(sys.argv[2]) if len(sys.argv) > 2 else 40
    ev = json.load(open(os.path.join(V, 'evidence', f'{prop}.json')))
    refs = ev['coverage']['functions_analysed']
    prog = core.Program('/repo')
    jobs = []
    for ref in refs:
        if not prog.has_func(ref):
            continue
        fn = prog.func(ref)
        src = fn.module.source
        lines = src.split('\n')
        n = 0
        for desc, mut in mutants(fn.node):
            if n >= cap:
                break
            seg_start, seg_end = fn.node.lineno - 1, fn.node.end_lineno
            if fn.node.decorator_list:
                seg_start = min(d.lineno for d in fn.node.decorator_list) - 1
            indent = ' ' * fn.node.col_offset
            body = '\n'.join(indent + ln if ln else ln for ln in ast.unparse(mut).split('\n'))
            new_src = '\n'.join(lines[:seg_start] + [body] + lines[seg_end:])
            jobs.append((prop, fn.module.relpath, fn.qual, desc, new_src))
            n += 1
    with multiprocessing.Pool(16) as pool:
        res = pool.map(run_one, jobs, chunksize=4)
    tot = len(res)
    det = sum(1 for r in res if r[3] == 'detected')
    print(f'{prop}: mutants={tot} detected={det} survived={sum(1 for r in res if r[3] == "SURVIVED")} other={tot - det - sum(1 for r in res if r[3] == "SURVIVED")}')
    for r in res:
        if r[3] != 'detected':
            print(f'  {r[3]:10s} {r[0].split("/")[-1]}:{r[1]} {r[2]}')


if __name__ == '__main__':
    main()
