#!/usr/bin/env python3
"""Development aid: for the current /repo working tree list every function that differs from the reference tree and whether
its normal form equals the reference normal form (fv/equiv.py); print a unified diff of the two normal forms otherwise."""
import ast, difflib, os, sys

V = os.path.dirname(os.path.dirname(os.path.abspath(__file__)))
sys.path.insert(0, V)
os.environ['FV_NO_MILD'] = '1'
from fv import core, equiv  # noqa: E402

prog = core.Program(os.environ.get('VERIF_REPO', '/repo'))
sigs = equiv.SignatureIndex(prog.modules.values())
equiv._ACTIVE_SIGS = sigs
for name, mod in sorted(prog.modules.items()):
    ref_src = equiv.pinned_sources().get(name)
    if ref_src is None or ref_src == mod.source:
        continue
    print('module', name, 'substituted:', getattr(mod, 'equivalent', None))
    ref_tree = ast.parse(ref_src)
    core.strip_noops(ref_tree)
    ref = equiv._outer_functions(ref_tree)
    cur = equiv._outer_functions(mod.tree)
    for q in sorted(set(ref) | set(cur)):
        if q not in cur:
            print('  vanished', q)
            continue
        if q not in ref:
            print('  new', q)
            continue
        if ast.dump(cur[q]) == ast.dump(ref[q]):
            continue
        a = ast.unparse(equiv.normal_form(ref[q], sigs, q.split('.')[-2] if '.' in q else None)).splitlines()
        b = ast.unparse(equiv.normal_form(cur[q], sigs, q.split('.')[-2] if '.' in q else None)).splitlines()
        if a == b:
            print('  equal-nf', q)
            continue
        print('  DIFFERENT', q)
        for line in difflib.unified_diff(a, b, 'reference', 'current', lineterm='', n=1):
            print('     ', line)
