#!/usr/bin/env python3
"""Regenerate /verif/MANIFEST.json from the rule modules that exist (fv/rules/Cxx.py with MANIFEST metadata)."""
import ast, json, os, sys
V = os.path.dirname(os.path.dirname(os.path.abspath(__file__)))
ids = [json.loads(l)['id'] for l in open(os.path.join(V, 'properties.jsonl'))]
NA = {
    'C02': 'Backend equivalence (dask schedulers vs. the pyfunc lambda transcoding vs. a reference evaluation) is semantic '
           'equivalence of evaluators over data structures built at run time; no structural necessary condition exists '
           'short of freezing the source shape of pyfunc.Expression, which would fire on behaviour-preserving rewrites. '
           'Static analysis does not apply (DESIGN.md section 4/C02, section 5).',
}
checks, na = [], []
for i in ids:
    path = os.path.join(V, 'fv', 'rules', f'{i}.py')
    meta = None
    if os.path.exists(path):
        tree = ast.parse(open(path).read())
        for node in tree.body:
            if isinstance(node, ast.Assign) and getattr(node.targets[0], 'id', '') == 'MANIFEST':
                meta = ast.literal_eval(node.value)
    if meta is None:
        na.append({'property_id': i, 'reason': NA.get(i, 'check under construction in this build round (DESIGN.md section 4); not claimed yet')})
        continue
    checks.append({
        'property_id': i,
        'quick_cmd': f'./check {i} --tier quick',
        'thorough_cmd': f'./check {i} --tier thorough',
        'evidence_file': f'/verif/evidence/{i}.json',
        'replay_cmd_template': f'./check {i} --replay {{path}}',
        'engine': 'fv',
        'level_claimed': {'category': 'other', 'text': meta['level'], 'design_ref': f'DESIGN.md section 4/{i}'},
        'level_note': meta['note'],
        'technique': meta['technique'],
    })
m = {
    'version': 1,
    'setup_cmd': 'python3-vt -m compileall -q fv selftest >/dev/null 2>&1 || python3 -m compileall -q fv selftest >/dev/null 2>&1 || true',
    'hooks': {
        'guard': 'FORML_VERIF',
        'enable': 'none needed: the checks parse /repo sources statically (ast), nothing is imported or executed, no hooks exist in /repo',
        'baseline_off_cmd': 'cd /repo && /venv/bin/python -m pytest -ra -q -p no:cacheprovider --timeout=900 --continue-on-collection-errors',
        'source_commits': [],
        'add_only': True,
    },
    'engines': [{
        'name': 'fv', 'path': '/verif/fv', 'serves_properties': [c['property_id'] for c in checks],
        'kind_free_text': 'repository-specific static analysis over stdlib ast: import/class-table resolution with C3 MRO, '
                          'annotation-derived types, statement CFG (networkx) with dominance/must-pass queries, def-use, '
                          'table extraction and finite case splits; per-property rule modules fv/rules/Cxx.py',
    }],
    'checks': checks,
    'not_applicable': na,
    'notes': 'All checks are static (technique family: static analysis). Exit 0 = all obligations discharged (listed known '
             'findings print KNOWN-FINDING lines); exit 1 = VIOLATION lines; exit 2 = ANALYSIS-ERROR (anchor vanished / '
             'checker self-test failed) which is never a verdict on the property. Fix commits in /repo are listed in '
             'known_findings.txt as fixed: entries.',
}
json.dump(m, open(os.path.join(V, 'MANIFEST.json'), 'w'), indent=1)
print('checks:', [c['property_id'] for c in checks], 'not_applicable:', [n['property_id'] for n in na])
