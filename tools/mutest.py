#!/usr/bin/env python3
"""Mutation testing against BOTH the static checks and the repository's own tests (development aid, nothing registered depends
on it): a syntactic mutant of a function some check analyses that (a) no owning check reports and (b) the relevant part of the
test suite does not kill is exactly what the checks are meant to catch and do not - a real blind spot.

usage: python3-vt tools/mutest.py <module-substring> [max_per_function] [workers]
Writes /tmp/mutest_<substring>.jsonl (one record per mutant: static verdict, test verdict) and prints the double survivors.
"""
import ast, json, multiprocessing, os, shutil, subprocess, sys, tempfile

V = os.path.dirname(os.path.dirname(os.path.abspath(__file__)))
sys.path.insert(0, V)
sys.path.insert(0, os.path.join(V, 'tools'))
from fv import cli, core, report  # noqa: E402
import mutscan  # noqa: E402

SUBSETS = [  # (module prefix, test paths run for a mutant in such a module)
    ('forml/io/dsl', 'tests/io/dsl tests/io/_input tests/provider/feed tests/testing'),
    ('forml/io/_input', 'tests/io tests/provider/feed tests/testing tests/runtime/test_agent.py'),
    ('forml/io/_output', 'tests/io tests/testing'),
    ('forml/io/asset', 'tests/io/asset tests/provider/registry/filesystem tests/application tests/runtime/test_agent.py tests/project'),
    ('forml/io/layout', 'tests/io tests/application tests/provider/runner/test_pyfunc.py'),
    ('forml/flow', 'tests/flow tests/pipeline tests/evaluation tests/provider/runner/test_pyfunc.py tests/testing tests/io/_input'),
    ('forml/pipeline', 'tests/pipeline tests/flow tests/evaluation'),
    ('forml/evaluation', 'tests/evaluation tests/runtime/test_agent.py tests/project'),
    ('forml/application', 'tests/application'),
    ('forml/provider/feed', 'tests/provider/feed tests/io/_input'),
    ('forml/provider/registry', 'tests/provider/registry/filesystem tests/io/asset'),
    ('forml/provider/runner', 'tests/provider/runner/test_pyfunc.py tests/provider/runner/test_dask.py tests/provider/runner/test_graphviz.py tests/runtime'),
    ('forml/provider/gateway', 'tests/provider/gateway'),
    ('forml/provider', 'tests/provider/test_provider.py tests/setup'),
    ('forml/project', 'tests/project tests/setup'),
    ('forml/runtime', 'tests/runtime tests/application'),
    ('forml/setup', 'tests/setup tests/provider/test_provider.py tests/project'),
    ('forml/testing', 'tests/testing tests/pipeline/payload'),
]
DESELECT = sorted({l.strip().split('[')[0] for l in open('/tmp/clean_fail_ids.txt') if l.startswith('tests/')} | {
    'tests/pipeline/wrap/test_actor.py::TestStateless::test_signature',
})


def subset(relpath: str) -> str:
    for pfx, tests in SUBSETS:
        if relpath.startswith(pfx):
            return tests
    return 'tests'


def run_one(args):
    props, relpath, qual, desc, new_src = args
    rec = {'file': relpath, 'func': qual, 'mutant': desc}
    try:
        compile(new_src, relpath, 'exec')
    except SyntaxError:
        rec['static'] = 'nocompile'
        return rec
    root = tempfile.mkdtemp(prefix='fv-mt-')
    try:
        shutil.copytree('/repo/forml', os.path.join(root, 'forml'), ignore=shutil.ignore_patterns('__pycache__'))
        open(os.path.join(root, relpath), 'w').write(new_src)
        hits = []
        for prop in props:
            try:
                ctx = cli.run_rules(prop, root, 'quick')
            except core.AnalysisError:
                hits.append(prop + '!')
                continue
            except Exception:
                hits.append(prop + '?')
                continue
            known, _ = report.load_known(prop)
            if [f for f in ctx.findings if not any(k['rule'] == f.rule and k['key'] == f'{f.where}::{f.key}' for k in known)]:
                hits.append(prop)
        rec['static'] = hits
        if hits:
            return rec
        shutil.copytree('/repo/tests', os.path.join(root, 'tests'), ignore=shutil.ignore_patterns('__pycache__'))
        shutil.copy('/repo/pyproject.toml', root)
        paths = [p for p in subset(relpath).split() if os.path.exists(os.path.join(root, p))]
        cmd = ['/venv/bin/python', '-m', 'pytest', '-q', '-x', '-p', 'no:cacheprovider', '--timeout=300', '-W', 'ignore'] + [f'--deselect={d}' for d in DESELECT] + paths
        env = dict(os.environ, PYTHONPATH=root, PYTHONDONTWRITEBYTECODE='1', HOME=root)
        try:
            r = subprocess.run(cmd, cwd=root, env=env, stdout=subprocess.PIPE, stderr=subprocess.STDOUT, text=True, timeout=1500)
            tail = r.stdout.strip().splitlines()[-1] if r.stdout.strip() else ''
            rec['tests'] = 'survived' if r.returncode == 0 else 'killed'
            rec['tail'] = tail[-160:]
            if r.returncode != 0:
                fl = [l for l in r.stdout.splitlines() if l.startswith(('FAILED', 'ERROR'))]
                rec['by'] = fl[0][:160] if fl else ''
        except subprocess.TimeoutExpired:
            rec['tests'] = 'killed'
            rec['tail'] = 'timeout'
        return rec
    finally:
        shutil.rmtree(root, ignore_errors=True)


def main():
    only = sys.argv[1]
    cap = int(sys.argv[2]) if len(sys.argv) > 2 else 60
    workers = int(sys.argv[3]) if len(sys.argv) > 3 else 10
    owners = {}
    for f in sorted(os.listdir(os.path.join(V, 'evidence'))):
        if f.endswith('.json'):
            ev = json.load(open(os.path.join(V, 'evidence', f)))
            for ref in ev['coverage'].get('functions_analysed', []):
                owners.setdefault(ref, []).append(f[:-5])
    prog = core.Program('/repo')
    jobs = []
    for ref, props in sorted(owners.items()):
        if not prog.has_func(ref):
            continue
        fn = prog.func(ref)
        if only not in fn.module.relpath:
            continue
        lines = fn.module.source.split('\n')
        n = 0
        for desc, mut in mutscan.mutants(fn.node):
            if n >= cap:
                break
            if 'LOGGER' in desc:
                continue
            s0, s1 = fn.node.lineno - 1, fn.node.end_lineno
            if fn.node.decorator_list:
                s0 = min(d.lineno for d in fn.node.decorator_list) - 1
            indent = ' ' * fn.node.col_offset
            body = '\n'.join(indent + ln if ln else ln for ln in ast.unparse(mut).split('\n'))
            jobs.append((props, fn.module.relpath, fn.qual, desc, '\n'.join(lines[:s0] + [body] + lines[s1:])))
            n += 1
    out = f'/tmp/mutest_{only.replace("/", "_")}.jsonl'
    with multiprocessing.Pool(workers) as pool, open(out, 'w') as fh:
        res = []
        for rec in pool.imap_unordered(run_one, jobs, chunksize=1):
            fh.write(json.dumps(rec) + '\n')
            fh.flush()
            res.append(rec)
    det = sum(1 for r in res if r.get('static') and r['static'] != 'nocompile')
    killed = sum(1 for r in res if r.get('tests') == 'killed')
    surv = [r for r in res if r.get('tests') == 'survived']
    print(f'mutants={len(res)} detected_by_checks={det} of the rest: killed_by_tests={killed} survived_both={len(surv)}')
    for r in sorted(surv, key=lambda r: (r['file'], r['func'])):
        print(f'  BLIND {r["file"]}:{r["func"]} {r["mutant"]}')


if __name__ == '__main__':
    main()
