"""Self-test catalogue: realistic breaking edits (each still compiles) and behaviour-preserving twins.

Entry: property, name, kind ('break' | 'twin'), and either `patch` (unified diff, path relative to /verif) or
(`file`, `old`, `new`) where `old` occurs exactly once in the file.  Seeded red-team mutations under /verif/seeded are
added automatically by selftest.run.entries_for.
"""

P = 'selftest/patches/'
ENTRIES: list[dict] = []


def rev(prop: str, fname: str, what: str) -> None:
    ENTRIES.append({'property': prop, 'name': f'revert:{what}', 'kind': 'break', 'patch': P + fname})


def edit(prop: str, kind: str, name: str, file: str, old: str, new: str, expect: str = '') -> None:
    e = {'property': prop, 'name': name, 'kind': kind, 'file': file, 'old': old, 'new': new}
    if expect:
        e['expect'] = expect
    ENTRIES.append(e)


# ---- reverts of the repaired defects (the pre-fix code must be reported again) ---------------------------------------
rev('C10', 'revert_5f810f8_treat_ordinal_bounds_and_ordinal_feature_by_Noneness_.diff', 'F1 truthiness of bounds')
rev('C14', 'revert_e054fc9_sound_predicate_factors_for_Or_Not_and_rightonly_keys_.diff', 'F2 Or/Not factors, merge right')
rev('C06', 'revert_4eb9108_translate_dsl_Not_through_sqlalchemy_not__instead_of_op.diff', 'F4 Not -> operator.not_')
rev('C18', 'revert_2ab5665_Tagloads_tolerates_missing_training_timestamp.diff', 'F5 Tag.loads subscript')
rev('C15', 'revert_4657764_cast_served_entry_columns_against_the_matching_entry_fi.diff', 'F6 _cast zip of Q with E')
rev('C16', 'revert_c9a476c_serialize_descriptor_cache_refresh_in_the_service_dispa.diff', 'F7 descriptor race')
rev('C07', 'revert_ecbef60_Sourceschema_handles_unnamed_features.diff', 'F8 Source.schema c.name')
rev('C05', 'revert_9fcf602_publish_registry_tag_and_package_files_atomically_by_re.diff', 'F9 in-place marker writes')
rev('C08', 'revert_8a7df10_structural_instead_of_hash_based_equality_of_dsl_featur.diff', 'F10 hash equality')
rev('C14', 'revert_6969430_account_for_referencebound_elements_in_predicate_facto.diff', 'F11 Column.dissect')
rev('C14', 'revert_30469b5_register_join_conditions_by_Noneness_and_as_row_filter.diff', 'F3 join condition truthiness / outer filter')
rev('C08', 'revert_9c4d95c_Query_repr_prints_Equal_pre_post_filters.diff', 'F3b Query.__repr__ truthiness')
rev('C14', 'revert_42e2c43_do_not_push_wherefactors_below_outer_joins_as_table_ro.diff', 'K9 where factors below outer joins')
rev('C07', 'revert_9f75569_Referencefeatures_handles_unnamed_features_of_the_refe.diff', 'Reference.features c.name')
rev('C17', 'revert_22c321d_keep_the_lateststrategy_refresher_alive_when_a_refresh.diff', 'Latest refresher dies')
rev('C14', 'revert_4843bf6_selfjoin_alias_filter.diff', 'row filter inherited by aliased scan')
rev('C14', 'revert_inner_over_outer.diff', 'inner join condition factor below a nested outer join')
rev('C06', 'revert_generate_feature_cache.diff', 'generate_feature memoised across contexts')
rev('C13', 'revert_wrap_type_mapping.diff', 'empty wrap.Actor.type mapping skips the API defaults')
rev('C08', 'revert_schema_getitem_cache.diff', 'Schema.__getitem__ memoised while reading attribute keys')
rev('C08', 'revert_source_getitem_zip.diff', 'Source.__getitem__ zips schema with features')
rev('C08', 'revert_source_getitem_cache.diff', 'Source.__getitem__ memoised while resolving through attribute keys')
rev('C08', 'revert_window_ordering.diff', 'Window stores the ordering generator')
rev('C08', 'revert_factors_pickle.diff', 'cached factors hold an unpicklable mapping proxy')
rev('C08', 'revert_alias_identity.diff', 'equality proxy over the de-aliased operand')
rev('C08', 'revert_source_eq.diff', 'Source equality ignores the (dynamic) source type the hash mixes in')
rev('C08', 'revert_7596ab3_compound_kind_pickling.diff', 'compound kinds without __getnewargs__')
rev('C08', 'revert_compound_ne.diff', 'compound kinds inherit tuple.__ne__')

COMPILER = 'forml/flow/_code/compiler.py'
# ---- C01 ------------------------------------------------------------------------------------------------------------
edit('C01', 'break', 'port index from enumerate index', COMPILER, 'self.insert(subscriber.node.uid, source, subscriber.port)', 'self.insert(subscriber.node.uid, source, index)')
edit('C01', 'break', 'single-output uses constant port', COMPILER, 'self.insert(subscriber.node.uid, node.uid, subscriber.port)', 'self.insert(subscriber.node.uid, node.uid, 0)')
edit('C01', 'break', 'offset evaluated after re-keying', COMPILER,
     "                    self._linkage.insert(self._committer, dumper, self._assets.offset(state))\n                    state = self._index.reset(state)  # re-register loader under it's own id\n",
     "                    gid = state\n                    state = self._index.reset(state)  # re-register loader under it's own id\n                    self._linkage.insert(self._committer, dumper, self._assets.offset(state))\n")
edit('C01', 'break', 'preset only for persistent', COMPILER, 'if persistent or node.derived:', 'if persistent:')
edit('C01', 'break', 'loader keyed by node uid', COMPILER, 'self._index.set(system.Loader(self._assets, state), state)', 'self._index.set(system.Loader(self._assets, state), node.uid)')
edit('C01', 'break', 'prefixed arguments after absolute', COMPILER, 'itertools.chain(reversed(self._prefixed[instruction]), self._absolute[instruction])', 'itertools.chain(self._absolute[instruction], reversed(self._prefixed[instruction]))')
edit('C01', 'break', 'getter off by one', 'forml/flow/_code/target/system.py', 'return sequence[self._index]', 'return sequence[self._index - 1]')
edit('C01', 'break', 'dumper for every trained node', COMPILER, "                if persistent:\n                    if not self._committer:", "                if self._assets:\n                    if not self._committer:")
edit('C01', 'twin', 'rename loop variable', COMPILER, "                for subscriber in node.output[0]:\n                    self.insert(subscriber.node.uid, node.uid, subscriber.port)", "                for sub in node.output[0]:\n                    self.insert(sub.node.uid, node.uid, sub.port)")

# ---- C03 ------------------------------------------------------------------------------------------------------------
GENERIC = 'forml/pipeline/payload/_generic.py'
WRAPOP = 'forml/pipeline/wrap/_operator.py'
edit('C03', 'break', 'apply applier fed from train path', GENERIC, 'apply_applier[0].subscribe(left.apply.publisher)', 'apply_applier[0].subscribe(left.train.publisher)')
edit('C03', 'break', 'trainer fed apply features', GENERIC, 'train_trainer.train(left.train.publisher, left.label.publisher)', 'train_trainer.train(left.apply.publisher, left.label.publisher)')
edit('C03', 'break', 'trainer from a new Worker', GENERIC, 'train_trainer = apply_applier.fork()', 'train_trainer = flow.Worker(mapper, 1, 1)')
edit('C03', 'break', 'extend args crossed', WRAPOP, 'return left.extend(apply, train, label)', 'return left.extend(train, apply, label)')
edit('C03', 'break', 'labels and features crossed', WRAPOP, 'worker.fork().train(left.train.publisher, label_publisher)', 'worker.fork().train(label_publisher, left.train.publisher)')
edit('C03', 'break', 'label publisher not switched', WRAPOP, '            label_publisher = label[0]\n', '            pass\n')
edit('C03', 'break', 'use() modes crossed', GENERIC, 'return left.use(apply=left.apply.extend(tail=apply_reducer), train=left.train.extend(tail=train_reducer))', 'return left.use(apply=left.apply.extend(tail=train_reducer), train=left.train.extend(tail=apply_reducer))')
edit('C03', 'break', 'Trunk.extend crosses segments', 'forml/flow/_suite/assembly.py', 'self.train.extend(train) if train else self.train,', 'self.train.extend(apply) if train else self.train,')
edit('C03', 'break', 'Compound.expand swaps sides', 'forml/flow/_suite/member.py', 'return self._right.compose(self._left)', 'return self._left.compose(self._right)')
edit('C03', 'twin', 'introduce a temporary', GENERIC, '            train_trainer = apply_applier.fork()\n                train_trainer.train(left.train.publisher, left.label.publisher)', '            train_trainer = apply_applier.fork()\n                features = left.train.publisher\n                train_trainer.train(features, left.label.publisher)')

# ---- C04 ------------------------------------------------------------------------------------------------------------
AGENT = 'forml/runtime/_agent.py'
edit('C04', 'break', 'persistent from the train segment', 'forml/flow/_suite/assembly.py', '        self.apply.accept(apply)\n        return tuple(apply)', '        self.train.accept(apply)\n        return tuple(apply)')
edit('C04', 'break', 'Stateful de-duplication as a set', 'forml/flow/_suite/clean.py', 'self._gids: list[uuid.UUID] = []', 'self._gids: list[uuid.UUID] = set()')
edit('C04', 'break', 'apply executes train segment', AGENT, 'self._exec(composition.apply, self._instance.state(composition.persistent))', 'self._exec(composition.train, self._instance.state(composition.persistent))')
edit('C04', 'break', 'perftrack drops the apply copy', 'forml/evaluation/_stage.py', '        pipeline.apply.copy().subscribe(head.apply)  # all persistent nodes must be reachable via the apply segment\n', '')
edit('C04', 'break', 'node list sorted', 'forml/io/asset/_access.py', 'self._nodes: tuple[uuid.UUID] = tuple(nodes)', 'self._nodes: tuple[uuid.UUID] = tuple(sorted(nodes))')
edit('C04', 'break', 'SetState drops params restore', 'forml/flow/_code/target/user.py', '        actor.set_state(value)\n        actor.set_params(**params)', '        actor.set_state(value)')

# ---- C05 ------------------------------------------------------------------------------------------------------------
POSIX = 'forml/provider/registry/filesystem/posix.py'
edit('C05', 'break', 'generation = len+1', 'forml/io/asset/_directory/level/major.py', 'generation = self.list().last.next', 'generation = len(self.list()) + 1')
edit('C05', 'break', 'push before the version check', 'forml/io/asset/_directory/level/case.py', "        try:\n            previous = self.list().last", "        self.registry.push(package)\n        try:\n            previous = self.list().last")
edit('C05', 'break', 'cache on generations', POSIX, '    def generations(\n        self, project: asset.Project.Key, release: asset.Release.Key\n    ) -> typing.Iterable[asset.Generation.Key]:', '    @functools.lru_cache\n    def generations(\n        self, project: asset.Project.Key, release: asset.Release.Key\n    ) -> typing.Iterable[asset.Generation.Key]:')
edit('C05', 'break', 'staged state removed', POSIX, '            source.rename(target)', '            target.write_bytes(source.read_bytes())\n            source.unlink()')
edit('C05', 'break', 'valid ignores the marker', POSIX, "            if not cls.content(path):\n                LOGGER.debug('Path %s does not have a valid level content', path)\n                return False\n", '')
edit('C05', 'break', 'write into the generation dir', POSIX, 'path = self._path.state(sid, project, release)\n        LOGGER.debug(\'Staging state', 'path = self._path.state(sid, project, release, 1)\n        LOGGER.debug(\'Staging state')
edit('C05', 'break', 'next = self + 2', 'forml/io/asset/_directory/level/minor.py', 'return self.__class__(self + 1)', 'return self.__class__(self + 2)')
edit('C05', 'twin', 'rename temporary variable', POSIX, "        staged = path.with_name(f'.{path.name}.{uuid.uuid4().hex}')  # publish atomically by rename\n        staged.write_bytes(tag.dumps())\n        staged.replace(path)", "        tmpfile = path.with_name(f'.{path.name}.{uuid.uuid4().hex}')  # publish atomically by rename\n        tmpfile.write_bytes(tag.dumps())\n        tmpfile.replace(path)")

# ---- C06 ------------------------------------------------------------------------------------------------------------
ALCH = 'forml/provider/feed/reader/alchemy.py'
PARSER = 'forml/io/dsl/parser.py'
edit('C06', 'break', 'Min mapped to max', ALCH, 'function.Min: func.min,', 'function.Min: func.max,')
edit('C06', 'break', 'LessEqual mapped to lt', ALCH, 'function.LessEqual: operator.le,', 'function.LessEqual: operator.lt,')
edit('C06', 'break', 'Modulus entry dropped', ALCH, '        function.Modulus: operator.mod,\n', '')
edit('C06', 'break', 'LEFT join not outer', ALCH, "        elif kind is not dsl.Join.Kind.INNER:", "        elif kind is dsl.Join.Kind.RIGHT:")
edit('C06', 'break', 'join pops in child order', PARSER, "        right = self.context.symbols.pop()\n        left = self.context.symbols.pop()\n        expression = self.generate_feature(source.condition)", "        left = self.context.symbols.pop()\n        right = self.context.symbols.pop()\n        expression = self.generate_feature(source.condition)")
edit('C06', 'break', 'alias pushes twice', PARSER, 'self.context.symbols.push(self.generate_alias(self.context.symbols.pop(), feature.name))', 'self.context.symbols.push(self.generate_alias(self.context.symbols.pop(), feature.name))\n        self.context.symbols.push(feature.name)')
edit('C06', 'break', 'DESC mapped to asc', ALCH, 'dsl.Ordering.Direction.DESCENDING: sql.ColumnElement.desc,', 'dsl.Ordering.Direction.DESCENDING: sql.ColumnElement.asc,')
edit('C06', 'break', 'new class-level cache', ALCH, "        ref = instance.alias(sql.quoted_name(name, quote=True))\n        return ref, ref", "        ref = self.ALIASES.setdefault(name, instance.alias(sql.quoted_name(name, quote=True)))\n        return ref, ref\n\n    ALIASES: dict = {}")
edit('C06', 'twin', 'reorder table entries', ALCH, '        function.Addition: operator.add,\n        function.Subtraction: operator.sub,', '        function.Subtraction: operator.sub,\n        function.Addition: operator.add,')

# ---- C07 ------------------------------------------------------------------------------------------------------------
FRAME = 'forml/io/dsl/_struct/frame.py'
SERIES = 'forml/io/dsl/_struct/series.py'
edit('C07', 'break', 'prefilter aggregate check dropped', FRAME, "            prefilter = series.Cumulative.ensure_notin(\n                series.Predicate.ensure_is(*ensure_subset(series.Operable.ensure_is(prefilter)))\n            )", "            prefilter = series.Predicate.ensure_is(*ensure_subset(series.Operable.ensure_is(prefilter)))")
edit('C07', 'break', 'postfilter subset check dropped', FRAME, "            postfilter = series.Window.ensure_notin(\n                series.Predicate.ensure_is(*ensure_subset(series.Operable.ensure_is(postfilter)))\n            )", "            postfilter = series.Window.ensure_notin(series.Predicate.ensure_is(series.Operable.ensure_is(postfilter)))")
edit('C07', 'break', 'join xor becomes and', FRAME, 'if (kind is cls.Kind.CROSS) ^ (condition is None):', 'if (kind is cls.Kind.CROSS) and (condition is None):')
edit('C07', 'break', 'set schema check dropped', FRAME, "        if left.schema != right.schema:\n            raise _exception.GrammarError('Incompatible sources')\n", '')
edit('C07', 'break', 'ordering subset check dropped', FRAME, "        ensure_subset(*(o.feature for o in ordering))\n", '')
edit('C07', 'break', 'ensure_notin inverted', SERIES, "        if cls.dissect(feature):\n            raise _exception.GrammarError(f'{cls.__name__} instance(s) found in {feature}')", "        if not cls.dissect(feature):\n            raise _exception.GrammarError(f'{cls.__name__} instance(s) found in {feature}')")
edit('C07', 'twin', 'mixin order still resolves the operand check', SERIES, 'class LessThan(Comparison, Infix):', 'class LessThan(Infix, Comparison):')
edit('C07', 'twin', 'split prefilter validation', FRAME, "            prefilter = series.Cumulative.ensure_notin(\n                series.Predicate.ensure_is(*ensure_subset(series.Operable.ensure_is(prefilter)))\n            )", "            prefilter = series.Cumulative.ensure_notin(\n                series.Predicate.ensure_is(*ensure_subset(series.Operable.ensure_is(prefilter)))\n            )\n            assert prefilter is not None")

# ---- C08 ------------------------------------------------------------------------------------------------------------
edit('C08', 'break', 'class test dropped from equality', SERIES, "        return self.left.__class__ is self.right.__class__ and tuple.__eq__(self.left, self.right)\n\n\nclass NotEqual", "        return tuple.__eq__(self.left, self.right)\n\n\nclass NotEqual")
edit('C08', 'break', 'Operable loses explicit hash', SERIES, "    __hash__ = Feature.__hash__  # otherwise gets overwritten to None due to redefined __eq__\n", '')
edit('C08', 'break', 'Literal loses getnewargs', SERIES, "    def __getnewargs__(self):\n        return tuple([self.value])\n", '')
edit('C08', 'break', 'Schema eq ignores order', 'forml/io/dsl/_struct/frame.py', 'and all(c == o for c, o in zip(cls, other))', 'and set(cls) == set(other)')

# ---- C09 ------------------------------------------------------------------------------------------------------------
INPUT = 'forml/io/_input/__init__.py'
edit('C09', 'break', 'pool sorted ascending', INPUT, 'tuple(sorted((self.Slot(f) for f in feeds or Feed), reverse=True))', 'tuple(sorted((self.Slot(f) for f in feeds or Feed)))')
edit('C09', 'break', 'matcher shared across feeds', INPUT, "        for feed in self:\n            matcher = self.Matcher(feed.sources)\n            source.accept(matcher)", "        matcher = None\n        for feed in self:\n            matcher = matcher or self.Matcher(feed.sources)\n            source.accept(matcher)")
edit('C09', 'break', 'table veto dropped', INPUT, "        def visit_table(self, source: 'dsl.Table') -> None:\n            if source not in self._sources:\n                self._matches = False", "        def visit_table(self, source: 'dsl.Table') -> None:\n            if source not in self._sources:\n                LOGGER.debug('Table %s not provisioned', source)")
edit('C09', 'break', 'raise inside the loop', INPUT, "            if matcher:\n                return feed\n        raise forml.MissingError(", "            if matcher:\n                return feed\n            raise forml.MissingError('No match')\n        raise forml.MissingError(")

# ---- C10 ------------------------------------------------------------------------------------------------------------
COMP = 'forml/project/_component/__init__.py'
edit('C10', 'break', 'EXACTLY includes both ends', COMP, 'EXACTLY = Bounds(operator.ge, operator.lt)', 'EXACTLY = Bounds(operator.ge, operator.le)')
edit('C10', 'break', 'ATMOST drops nothing', COMP, 'ATMOST = Bounds(operator.gt, operator.le)', 'ATMOST = Bounds(operator.ge, operator.le)')
edit('C10', 'break', 'ATLEAST leaves bound out', COMP, 'ATLEAST = Bounds(operator.ge, operator.le)', 'ATLEAST = Bounds(operator.gt, operator.lt)')
edit('C10', 'break', 'upper operator applied to lower bound', COMP, 'terms.append(self.once.value.upper(self.column, self.column.kind.cast(upper)))', 'terms.append(self.once.value.upper(self.column, self.column.kind.cast(lower)))')
edit('C10', 'break', 'cast dropped', COMP, 'terms.append(self.once.value.lower(self.column, self.column.kind.cast(lower)))', 'terms.append(self.once.value.lower(self.column, lower))')
edit('C10', 'break', 'bounds crossed at prepare', 'forml/io/_input/extract.py', 'return cls(cls.Prepared(statement, ordinal), lower, upper)', 'return cls(cls.Prepared(statement, ordinal), upper, lower)')
edit('C10', 'break', 'alias most -> ATLEAST', COMP, "if value in {'most', 'atmost', 'at-most', 'atmostonce', 'at-most-once'}:\n                            return cls.ATMOST", "if value in {'most', 'atmost', 'at-most', 'atmostonce', 'at-most-once'}:\n                            return cls.ATLEAST")
edit('C10', 'break', '__ge__ builds GreaterThan', SERIES, "    def __ge__(self, other: 'dsl.Operable') -> 'GreaterEqual':\n        return GreaterEqual(self, other)", "    def __ge__(self, other: 'dsl.Operable') -> 'GreaterEqual':\n        return GreaterThan(self, other)")
edit('C10', 'twin', 'lambda spelling of EXACTLY', COMP, 'EXACTLY = Bounds(operator.ge, operator.lt)', 'EXACTLY = Bounds(lambda c, v: c >= v, lambda c, v: c < v)')

# ---- C11 ------------------------------------------------------------------------------------------------------------
PORT = 'forml/flow/_graph/port.py'
ATOMIC = 'forml/flow/_graph/atomic.py'
edit('C11', 'break', 'publish rollback dropped', PORT, "        try:\n            self.republish(subscription)\n        except Exception as err:\n            # TO-DO: use weakref\n            Subscription._PORTS[subscriber].discard(port)  # pylint: disable=protected-access\n            raise err", "        self.republish(subscription)")
edit('C11', 'break', 'registration before the checks', PORT, "        if port in cls._PORTS[subscriber]:\n            raise _exception.TopologyError('Double subscription')", "        cls._PORTS[subscriber].add(port)\n        if False and port in cls._PORTS[subscriber]:\n            raise _exception.TopologyError('Double subscription')")
edit('C11', 'break', 'Worker._publish bypasses Node._publish', ATOMIC, "            raise _exception.TopologyError('Trained node publishing')\n        super()._publish(index, subscription)", "            raise _exception.TopologyError('Trained node publishing')\n        self._output[index].add(subscription)")
edit('C11', 'break', 'train guards after the first publish', ATOMIC, "        if any(f.trained for f in self._group):\n            raise _exception.TopologyError('Fork train collision')\n        train.publish(self, port.Train())", "        train.publish(self, port.Train())\n        if any(f.trained for f in self._group):\n            raise _exception.TopologyError('Fork train collision')")
edit('C11', 'break', 'foreign writer of _PORTS', ATOMIC, "    def fork(self) -> 'flow.Worker':", "    def reset(self) -> None:\n        port.Subscription._PORTS[self].clear()\n\n    def fork(self) -> 'flow.Worker':")
edit('C11', 'break', 'validator accepts futures', 'forml/flow/_suite/clean.py', "        if self._futures:\n            raise _exception.TopologyError(", "        if len(self._futures) > 1:\n            raise _exception.TopologyError(")

# ---- C12 ------------------------------------------------------------------------------------------------------------
METHOD = 'forml/evaluation/_method.py'
STACK = 'forml/pipeline/ensemble/_stacking.py'
edit('C12', 'break', 'fold trained on the test part', METHOD, 'fold.train.subscribe(features_splitter[2 * fid])', 'fold.train.subscribe(features_splitter[2 * fid + 1])')
edit('C12', 'break', 'labels of the train part scored', METHOD, '_api.Outcome(labels_splitter[2 * fid + 1].publisher, fold.apply.publisher)', '_api.Outcome(labels_splitter[2 * fid].publisher, fold.apply.publisher)')
edit('C12', 'break', 'predict on the training part', METHOD, 'fold.apply.subscribe(features_splitter[2 * fid + 1])', 'fold.apply.subscribe(features_splitter[2 * fid])')
edit('C12', 'break', 'outcome args crossed', METHOD, '_api.Outcome(labels_splitter[2 * fid + 1].publisher, fold.apply.publisher)', '_api.Outcome(fold.apply.publisher, labels_splitter[2 * fid + 1].publisher)')
edit('C12', 'break', 'expand hoisted out of the loop', METHOD, "        for fid in range(self._nsplits):\n            fold: flow.Trunk = pipeline.expand()", "        fold: flow.Trunk = pipeline.expand()\n        for fid in range(self._nsplits):")
edit('C12', 'break', 'stack the apply segment instead of the copy', STACK, 'stacker[fold_idx].subscribe(fold_apply.publisher)', 'stacker[fold_idx].subscribe(base_fold.apply.publisher)')
edit('C12', 'break', 'reducer fed from the test copy', STACK, 'reducer[fold_idx].subscribe(base_fold.apply.publisher)', 'reducer[fold_idx].subscribe(fold_apply.publisher)')
edit('C12', 'break', 'test labels from the train part', STACK, "                    test_fold.publisher,\n                    label_folds[2 * fid + 1],", "                    test_fold.publisher,\n                    label_folds[2 * fid],")
edit('C12', 'break', 'separately trained label splitter', STACK, "label_folds: 'flow.Worker' = input_splitter.fork()", "label_folds: 'flow.Worker' = flowmod.Worker(self._splitter, 1, 2 * self._nsplits)")
edit('C12', 'break', 'metric args crossed', 'forml/evaluation/_metric.py', "            worker[0].subscribe(partition.true)\n            worker[1].subscribe(partition.pred)", "            worker[0].subscribe(partition.pred)\n            worker[1].subscribe(partition.true)")
edit('C12', 'twin', 'k*2 spelling', METHOD, 'fold.train.subscribe(features_splitter[2 * fid])', 'fold.train.subscribe(features_splitter[fid * 2])')
edit('C12', 'twin', 'named temporary for the index', METHOD, "            fold.label.subscribe(labels_splitter[2 * fid])", "            trainpart = 2 * fid\n            fold.label.subscribe(labels_splitter[trainpart])")

# ---- C13 ------------------------------------------------------------------------------------------------------------
TASK = 'forml/flow/_task.py'
edit('C13', 'break', 'params restored before the import', TASK, "        self.__dict__.update(cloudpickle.loads(state))\n        self.set_params(**params)  # restore the original hyper-params", "        self.set_params(**params)  # restore the original hyper-params\n        self.__dict__.update(cloudpickle.loads(state))")
edit('C13', 'break', 'empty state check dropped', TASK, "        if not state:\n            return\n        if not self.is_stateful():", "        if not self.is_stateful():")
edit('C13', 'break', 'preset applies falsy state', 'forml/flow/_code/target/user.py', "        if value:\n            self.set(actor, value)", "        self.set(actor, value)")
edit('C13', 'break', 'update lets stored kwargs win', TASK, 'return self.actor.builder(*(args or self.args), **self.kwargs | kwargs)', 'return self.actor.builder(*(args or self.args), **kwargs | self.kwargs)')

# ---- C14 ------------------------------------------------------------------------------------------------------------
edit('C14', 'break', 'grouping not registered', PARSER, "            self.context.tables.select(*source.grouping)\n", '')
edit('C14', 'break', 'ordering registered after the descent', PARSER, "            self.context.tables.select(*(c for c, _ in source.ordering))\n            super().visit_query(source)", "            super().visit_query(source)\n            self.context.tables.select(*(c for c, _ in source.ordering))")
edit('C14', 'break', 'And keeps only common factors with Or', SERIES, 'return self.left.factors & self.right.factors', 'return self.left.factors | self.right.factors')
edit('C14', 'break', 'Comparison factor without origin test', SERIES, "        return Predicate.Factors(self) if len({f.origin for f in Element.dissect(self)}) == 1 else Predicate.Factors()\n\n\nclass LessThan", "        return Predicate.Factors(self)\n\n\nclass LessThan")
edit('C14', 'break', 'factors AND-combined per table', PARSER, 'return functools.reduce(function.Or, sorted(self.factors)) if self.factors else None', 'return functools.reduce(function.And, sorted(self.factors)) if self.factors else None')
edit('C14', 'break', 'lazy extractor skips postfilter', 'forml/provider/feed/lazy.py', "        if source.postfilter is not None:\n            source.postfilter.accept(self)\n", '')

# ---- C15 ------------------------------------------------------------------------------------------------------------
PRODUCER = 'forml/io/_input/_producer.py'
edit('C15', 'break', 'indices appended per entry name', PRODUCER, "            indices.append(source[column])", "            indices.append(query_names.index(column))")
edit('C15', 'break', 'missing column padded', PRODUCER, "            if column not in source:\n                return False, None\n            indices.append(source[column])", "            if column not in source:\n                continue\n            indices.append(source[column])")
edit('C15', 'break', 'match args crossed', PRODUCER, 'self._match_entry(statement.schema, entry.schema)', 'self._match_entry(entry.schema, statement.schema)')
edit('C15', 'break', 'label range off by one', 'forml/io/_input/extract.py', 'lslice = range(fstop, fstop + len(labels))', 'lslice = range(fstop + 1, fstop + len(labels))')
edit('C15', 'break', 'Dense.take_columns wrong axis', 'forml/io/layout/_internal.py', 'return self.from_columns(self._rows.T.take(indices, axis=0))', 'return self.from_columns(self._rows.T.take(indices, axis=1))')

# ---- C16 ------------------------------------------------------------------------------------------------------------
PRED = 'forml/runtime/_service/prediction.py'
edit('C16', 'break', 'platform error stops the pool', PRED, "                except forml.AnyError as err:\n                    self._results.put_nowait(task.failure(err))", "                except forml.AnyError as err:\n                    self._results.put_nowait(task.failure(err))\n                    self._stopped.set()")
edit('C16', 'break', 'generic failure loses the result', PRED, "                except Exception as err:\n                    self._results.put_nowait(task.failure(err))\n                    self._stopped.set()", "                except Exception as err:\n                    self._stopped.set()")
edit('C16', 'break', 'task queued before the future is registered', PRED, "        self._pending[self._index] = outcome\n        self._tasks.put(Task(self._index, entry))", "        self._tasks.put(Task(self._index, entry))\n        self._pending[self._index] = outcome")
edit('C16', 'break', 'index advanced between the uses', PRED, "        self._pending[self._index] = outcome\n        self._tasks.put(Task(self._index, entry))\n        self._index += 1", "        self._pending[self._index] = outcome\n        self._index += 1\n        self._tasks.put(Task(self._index, entry))")
edit('C16', 'break', 'lock dropped from descriptor lookup', 'forml/runtime/_service/dispatch.py', "        with self._lock:\n            if application not in self._descriptors:", "        if True:\n            if application not in self._descriptors:")
edit('C16', 'break', 'executor cache keyed by project', 'forml/runtime/_service/dispatch.py', "        outcome = self._cache[instance].apply(entry)", "        outcome = next(iter(self._cache.values())).apply(entry)")

# ---- C17 ------------------------------------------------------------------------------------------------------------
STRAT = 'forml/application/_strategy.py'
edit('C17', 'break', 'releases tried ascending', STRAT, 'for release in reversed(project.list()):', 'for release in project.list():')
edit('C17', 'break', 'empty release aborts the search', STRAT, "                except assetmod.Level.Listing.Empty:\n                    continue\n                break", "                except assetmod.Level.Listing.Empty:\n                    break\n                break")
edit('C17', 'break', 'total incremented twice', STRAT, "        return slot.hit(registry)", "        self._total += 1\n        return slot.hit(registry)")
edit('C17', 'break', 'cache read outside the lock', STRAT, "        with self._lock:\n            if registry not in self._cache:\n                self._cache[registry] = self._pick(registry)\n                if not self._refresher.is_alive():\n                    self._refresher.start()\n            return self._cache[registry]", "        with self._lock:\n            if registry not in self._cache:\n                self._cache[registry] = self._pick(registry)\n                if not self._refresher.is_alive():\n                    self._refresher.start()\n        return self._cache[registry]")
edit('C17', 'break', 'explicit ignores generation', STRAT, "                release=self._release,\n                generation=self._generation,\n            )\n        return self._instance", "                release=self._release,\n                generation=None,\n            )\n        return self._instance")

# ---- C18 ------------------------------------------------------------------------------------------------------------
MINOR = 'forml/io/asset/_directory/level/minor.py'
edit('C18', 'break', 'score read into ordinal', MINOR, "tuning=cls.Tuning(timestamp=meta['tuning'].get('timestamp'), score=meta['tuning'].get('score')),", "tuning=cls.Tuning(timestamp=meta['tuning'].get('timestamp'), score=meta['tuning'].get('ordinal')),")
edit('C18', 'break', 'ordinal not written', MINOR, "'training': {'timestamp': self.training.timestamp, 'ordinal': self.training.ordinal},", "'training': {'timestamp': self.training.timestamp},")
edit('C18', 'break', 'generation MIN = 0', MINOR, "        MIN = 1\n\n        def __new__(cls, key: typing.Optional[typing.Union[str, int, 'Generation.Key']] = MIN):", "        MIN = 0\n\n        def __new__(cls, key: typing.Optional[typing.Union[str, int, 'Generation.Key']] = MIN):")
edit('C18', 'break', 'manifest read crosses name and package', 'forml/project/_distribution.py', 'manifest = cls(module.NAME, module.VERSION, module.PACKAGE, **module.MODULES)', 'manifest = cls(module.PACKAGE, module.VERSION, module.NAME, **module.MODULES)')
edit('C18', 'break', 'listing not de-duplicated', 'forml/io/asset/_directory/__init__.py', 'return super().__new__(cls, tuple(sorted(set(items))))', 'return super().__new__(cls, tuple(items))')

# ---- C19 ------------------------------------------------------------------------------------------------------------
CODEC = 'forml/io/layout/_codec.py'
edit('C19', 'break', 'loops swapped', CODEC, "    for pattern in targets:\n        for codec in ENCODERS:\n            if pattern.match(codec.encoding):\n                return codec", "    for codec in ENCODERS:\n        for pattern in targets:\n            if pattern.match(codec.encoding):\n                return codec")
edit('C19', 'break', 'ties inverted', CODEC, "                key=lambda t: float(t[1].get('q', 1)),\n                reverse=True,\n            )", "                key=lambda t: float(t[1].get('q', 1)),\n            )[::-1]")
edit('C19', 'break', 'fnmatch args crossed', CODEC, 'fnmatch.fnmatch(other.kind, self.kind)', 'fnmatch.fnmatch(self.kind, other.kind)')
edit('C19', 'break', 'records decoder with index orient', CODEC, "(Pandas.Decoder(functools.partial(pandas.read_json, orient='records')), ENCODING_JSON_PANDAS_RECORDS),", "(Pandas.Decoder(functools.partial(pandas.read_json, orient='index')), ENCODING_JSON_PANDAS_RECORDS),")
edit('C19', 'break', 'q kept as an option', CODEC, "cls(m, **{k: v for k, v in o.items() if k != 'q'})", "cls(m, **{k: v for k, v in o.items()})")

# ---- C20 ------------------------------------------------------------------------------------------------------------
CONF = 'forml/setup/_conf.py'
PROV = 'forml/provider/__init__.py'
edit('C20', 'break', 'left wins on scalars', CONF, "                elif key in right:\n                    value = right[key]\n                else:\n                    value = left[key]", "                elif key in left:\n                    value = left[key]\n                else:\n                    value = right[key]")
edit('C20', 'break', 'lists merged old-first', CONF, 'value = *right[key], *(v for v in left[key] if v not in right[key])', 'value = *left[key], *(v for v in right[key] if v not in left[key])')
edit('C20', 'break', 'recursion crosses operands', CONF, 'value = merge(left[key], right[key])', 'value = merge(right[key], left[key])')
edit('C20', 'break', 'registration before collision check', PROV, "        references = {Reference(provider)}\n        if alias:\n            references.add(alias)\n        for ref in references:\n            if ref in self.provider:", "        references = {Reference(provider)}\n        if alias:\n            references.add(alias)\n        for ref in references:\n            self.provider.setdefault(ref, provider)\n        for ref in references:\n            if ref in self.provider:")
edit('C20', 'break', 'abstract providers registered', PROV, "        if isabstract(provider):\n            return\n        for ref in references:", "        for ref in references:")
edit('C20', 'break', 'unknown reference yields some provider', PROV, "        return self.provider[reference]", "        return self.provider.get(reference) or next(iter(self.provider.values()))")

# ---- behaviour-preserving refactorings (twins): the rules must stay silent ------------------------------------------
edit('C19', 'twin', 'negated key instead of reverse', CODEC, "                key=lambda t: float(t[1].get('q', 1)),\n                reverse=True,\n            )", "                key=lambda t: -float(t[1].get('q', 1)),\n            )")
edit('C19', 'twin', 'match terms reordered', CODEC, "            '*' not in other.kind\n            and fnmatch.fnmatch(other.kind, self.kind)", "            fnmatch.fnmatch(other.kind, self.kind)\n            and '*' not in other.kind")
edit('C19', 'twin', 'encoder loop variable renamed', CODEC, "    for pattern in targets:\n        for codec in ENCODERS:\n            if pattern.match(codec.encoding):\n                return codec", "    for wanted in targets:\n        for encoder in ENCODERS:\n            if wanted.match(encoder.encoding):\n                return encoder")
edit('C15', 'twin', 'cast comprehension variable renamed', PRODUCER, "            e.name: c if e.kind.match(actual[e.name].kind) else [e.kind.cast(v) for v in c]\n            for e, c in zip(expected, data.to_columns())", "            field.name: c if field.kind.match(actual[field.name].kind) else [field.kind.cast(v) for v in c]\n            for field, c in zip(expected, data.to_columns())")
edit('C15', 'twin', 'reorder as if statement', PRODUCER, "            data = entry.data.take_columns(indices) if indices else entry.data\n", "            data = entry.data\n            if indices:\n                data = data.take_columns(indices)\n")
edit('C20', 'twin', 'merge value variable renamed', CONF, "                    value = merge(left[key], right[key])\n                elif key in common and isinstance(left[key], (list, tuple)) and isinstance(right[key], (list, tuple)):\n                    value = *right[key], *(v for v in left[key] if v not in right[key])\n                elif key in right:\n                    value = right[key]\n                else:\n                    value = left[key]\n                result[key] = value", "                    merged = merge(left[key], right[key])\n                elif key in common and isinstance(left[key], (list, tuple)) and isinstance(right[key], (list, tuple)):\n                    merged = *right[key], *(v for v in left[key] if v not in right[key])\n                elif key in right:\n                    merged = right[key]\n                else:\n                    merged = left[key]\n                result[key] = merged")
edit('C17', 'twin', 'explicit keyword order changed', STRAT, "                registry=registry,\n                project=self._project,\n                release=self._release,\n                generation=self._generation,\n            )\n        return self._instance", "                project=self._project,\n                release=self._release,\n                generation=self._generation,\n                registry=registry,\n            )\n        return self._instance")
edit('C17', 'twin', 'pick loop variable renamed', STRAT, "            for release in reversed(project.list()):\n                try:\n                    generation = project.get(release).list().last", "            for release in reversed(project.list()):\n                try:\n                    generation = project.get(release).list().last  # newest generation")
edit('C16', 'twin', 'task variable renamed', PRED, "                    task: Task = self._tasks.get(timeout=1)\n                except queue.Empty:\n                    continue\n                try:\n                    self._results.put_nowait(task.success(self._runner.call(task.entry)))\n                except forml.AnyError as err:\n                    self._results.put_nowait(task.failure(err))\n                except Exception as err:\n                    self._results.put_nowait(task.failure(err))", "                    job: Task = self._tasks.get(timeout=1)\n                except queue.Empty:\n                    continue\n                try:\n                    self._results.put_nowait(job.success(self._runner.call(job.entry)))\n                except forml.AnyError as err:\n                    self._results.put_nowait(job.failure(err))\n                except Exception as err:\n                    self._results.put_nowait(job.failure(err))")
edit('C16', 'twin', 'outcome computed in a temporary', PRED, "                    self._results.put_nowait(task.success(self._runner.call(task.entry)))", "                    outcome = self._runner.call(task.entry)\n                    self._results.put_nowait(task.success(outcome))")
edit('C05', 'twin', 'listing via comprehension variable renamed', POSIX, "return [matcher.constructor(p.name) for p in path.iterdir() if matcher.valid(p)]", "return [matcher.constructor(item.name) for item in path.iterdir() if matcher.valid(item)]")
edit('C05', 'twin', 'compare spelled release <= previous', 'forml/io/asset/_directory/level/case.py', 'if not release > previous:', 'if release <= previous:')
edit('C18', 'twin', 'loads uses a local for the section', MINOR, "            training=cls.Training(timestamp=meta['training'].get('timestamp'), ordinal=meta['training'].get('ordinal')),", "            training=cls.Training(ordinal=meta['training'].get('ordinal'), timestamp=meta['training'].get('timestamp')),")
edit('C13', 'twin', 'state guard spelled positively', TASK, "        if not state:\n            return\n        if not self.is_stateful():\n            raise forml.UnexpectedError('State provided but actor stateless')\n        LOGGER.debug('Setting %s state (%d bytes)', self, len(state))\n        params = self.get_params()  # keep the original hyper-params\n        self.__dict__.update(cloudpickle.loads(state))\n        self.set_params(**params)  # restore the original hyper-params", "        if state:\n            if not self.is_stateful():\n                raise forml.UnexpectedError('State provided but actor stateless')\n            LOGGER.debug('Setting %s state (%d bytes)', self, len(state))\n            params = self.get_params()  # keep the original hyper-params\n            self.__dict__.update(cloudpickle.loads(state))\n            self.set_params(**params)  # restore the original hyper-params")
edit('C11', 'twin', 'publish handler catches TopologyError only... kept broad', PORT, "        except Exception as err:\n            # TO-DO: use weakref\n            Subscription._PORTS[subscriber].discard(port)  # pylint: disable=protected-access\n            raise err", "        except Exception:\n            # TO-DO: use weakref\n            Subscription._PORTS[subscriber].discard(port)  # pylint: disable=protected-access\n            raise")
edit('C01', 'twin', 'getter factory as a named closure', COMPILER, "            self._linkage.update(node, lambda index: self._index.set(system.Getter(index)))", "            self._linkage.update(node, lambda idx: self._index.set(system.Getter(idx)))")
edit('C04', 'twin', 'persistent visitor variable renamed', 'forml/flow/_suite/assembly.py', "        apply = clean.Stateful()\n        self.apply.accept(apply)\n        return tuple(apply)", "        visitor = clean.Stateful()\n        self.apply.accept(visitor)\n        return tuple(visitor)")
edit('C03', 'twin', 'compound compose via temporaries', 'forml/flow/_suite/member.py', "        return scope.expand().extend(*self.expand())", "        left = scope.expand()\n        return left.extend(*self.expand())")
edit('C12', 'twin', 'fold variable renamed', METHOD, "            fold: flow.Trunk = pipeline.expand()\n            fold.train.subscribe(features_splitter[2 * fid])\n            fold.label.subscribe(labels_splitter[2 * fid])\n            fold.apply.subscribe(features_splitter[2 * fid + 1])\n            outcomes.append(_api.Outcome(labels_splitter[2 * fid + 1].publisher, fold.apply.publisher))", "            branch: flow.Trunk = pipeline.expand()\n            branch.train.subscribe(features_splitter[2 * fid])\n            branch.label.subscribe(labels_splitter[2 * fid])\n            branch.apply.subscribe(features_splitter[2 * fid + 1])\n            outcomes.append(_api.Outcome(labels_splitter[2 * fid + 1].publisher, branch.apply.publisher))")
edit('C09', 'twin', 'resolve_source by explicit membership test', 'forml/io/dsl/parser.py', "        try:\n            return self._sources[source]\n        except KeyError as err:\n            raise dsl.UnprovisionedError(f'Unknown mapping for source {source}') from err", "        if source not in self._sources:\n            raise dsl.UnprovisionedError(f'Unknown mapping for source {source}')\n        return self._sources[source]")
edit('C09', 'break', 'resolve_source decides by the handle value', 'forml/io/dsl/parser.py', "        try:\n            return self._sources[source]\n        except KeyError as err:\n            raise dsl.UnprovisionedError(f'Unknown mapping for source {source}') from err", "        target = self._sources.get(source)\n        if not target:\n            raise dsl.UnprovisionedError(f'Unknown mapping for source {source}')\n        return target")
edit('C09', 'twin', 'matcher variable renamed', INPUT, "            matcher = self.Matcher(feed.sources)\n            source.accept(matcher)\n            if matcher:\n                return feed", "            probe = self.Matcher(feed.sources)\n            source.accept(probe)\n            if probe:\n                return feed")
edit('C10', 'twin', 'where terms via named operators', COMP, "                if lower is not None:\n                    terms.append(self.once.value.lower(self.column, self.column.kind.cast(lower)))", "                if lower is not None:\n                    bound = self.column.kind.cast(lower)\n                    terms.append(self.once.value.lower(self.column, bound))")
edit('C14', 'twin', 'select grouping via a local', PARSER, "            self.context.tables.select(*source.grouping)\n", "            tables = self.context.tables\n            tables.select(*source.grouping)\n")
edit('C07', 'twin', 'join condition validation split in two steps', FRAME, "            condition = series.Cumulative.ensure_notin(series.Predicate.ensure_is(condition))", "            condition = series.Predicate.ensure_is(condition)\n            condition = series.Cumulative.ensure_notin(condition)")
edit('C08', 'twin', 'equality proxy with == on classes', SERIES, "            if self.operator is Equal:\n                return self.left.__class__ is self.right.__class__ and tuple.__eq__(self.left, self.right)", "            if self.operator is Equal:\n                return type(self.left) is type(self.right) and tuple.__eq__(self.left, self.right)")
edit('C06', 'twin', 'join flags via separate statements', ALCH, "            opts['isouter'] = True\n            if kind is dsl.Join.Kind.RIGHT:\n                left, right = right, left", "            if kind is dsl.Join.Kind.RIGHT:\n                left, right = right, left\n            opts['isouter'] = True")


# ---- behaviour-preserving refactorings applied through the AST (rename a local, return through a temporary, add a log line):
# every one of them must leave the check silent (fv.core normalises them away, DESIGN 15) -----------------------------
def refactor(prop: str, name: str, file: str, qual: str, *how) -> None:
    ENTRIES.append({'property': prop, 'name': name, 'kind': 'twin', 'func': (file, qual), 'refactor': how})


refactor('C01', 'rename local functor in Table.add', 'forml/flow/_code/compiler.py', 'Table.add', 'rename', 'functor', 'instruction')
refactor('C01', 'Linkage.__getitem__ through a temporary', 'forml/flow/_code/compiler.py', 'Table.Linkage.__getitem__', 'temp')
refactor('C03', 'rename local in MapReduce.compose', 'forml/pipeline/payload/_generic.py', 'MapReduce.compose', 'rename', 'train_applier', 'fitted_applier')
refactor('C03', 'log line in Segment.extend', 'forml/flow/_graph/span.py', 'Segment.extend', 'log')
refactor('C04', 'rename local in State.commit', 'forml/io/asset/_access.py', 'State.commit', 'rename', 'tag', 'meta')
refactor('C05', 'rename local previous in Project.put', 'forml/io/asset/_directory/level/case.py', 'Project.put', 'rename', 'previous', 'newest')
refactor('C05', 'Release.put through a temporary', 'forml/io/asset/_directory/level/major.py', 'Release.put', 'temp')
refactor('C06', 'rename local in visit_query', 'forml/io/dsl/parser.py', 'Visitor.visit_query', 'rename', 'orderby', 'ordering_terms')
refactor('C06', 'generate_set through a temporary', 'forml/provider/feed/reader/alchemy.py', 'Parser.generate_set', 'temp')
refactor('C07', 'rename local in Join.__new__', 'forml/io/dsl/_struct/frame.py', 'Join.__new__', 'log')
refactor('C08', 'Feature.__eq__ through a temporary', 'forml/io/dsl/_struct/series.py', 'Feature.__eq__', 'temp')
refactor('C09', 'rename local priority in Feed._extract', 'forml/setup/_provider.py', 'Feed._extract', 'rename', 'priority', 'rank')
refactor('C10', 'rename local where in Prepared.__call__', 'forml/io/_input/extract.py', 'Statement.Prepared.__call__', 'rename', 'where', 'window')
refactor('C11', 'log line in Publishable.publish', 'forml/flow/_graph/port.py', 'Publishable.publish', 'log')
refactor('C12', 'rename local in CVFoldable.train', 'forml/pipeline/payload/_split.py', 'CVFoldable.train', 'rename', 'groups', 'membership')
refactor('C13', 'Stateful.Actor.get_state through a temporary', 'forml/pipeline/wrap/_actor.py', 'Stateful.Actor.get_state', 'temp')
refactor('C14', 'rename local origin in Tables.select', 'forml/io/dsl/parser.py', 'Container.Context.Tables.select', 'rename', 'origin', 'owner')
refactor('C15', 'rename local identical in _match_entry', 'forml/io/_input/_producer.py', 'Reader._match_entry', 'rename', 'identical', 'same_layout')
refactor('C16', 'rename local updates in _get_descriptor', 'forml/runtime/_service/dispatch.py', 'Wrapper._get_descriptor', 'rename', 'updates', 'fresh')
refactor('C17', 'rename local combined in ABTest.__init__', 'forml/application/_strategy.py', 'ABTest.__init__', 'rename', 'combined', 'weight_sum')
refactor('C18', 'rename local instance in Generation.Key.__new__', 'forml/io/asset/_directory/level/minor.py', 'Generation.Key.__new__', 'rename', 'instance', 'number')
refactor('C19', 'get_encoder log line', 'forml/io/layout/_codec.py', 'get_encoder', 'log')
refactor('C20', 'rename local in Reference.__new__', 'forml/provider/__init__.py', 'Reference.__new__', 'rename', 'qualname', 'path')

# ---- agent-written behaviour-preserving refactorings ("blue team", DESIGN 16): the checks must stay silent -----------
import glob as _glob
import os as _os
import re as _re

for _path in sorted(_glob.glob(_os.path.join(_os.path.dirname(_os.path.abspath(__file__)), 'twins', 'bt-*.diff'))):
    _m = _re.match(r'bt-(C\d\d)-(\w+)\.diff', _os.path.basename(_path))
    if _m:
        ENTRIES.append({'property': _m.group(1), 'name': f'refactoring:{_os.path.basename(_path)[:-5]}', 'kind': 'twin', 'patch': 'selftest/twins/' + _os.path.basename(_path)})
