"""Checker self-test (thorough tier): every catalogued breaking edit is applied to a scratch copy of the analysed
tree, the property's rules must report a *new* violation; every behaviour-preserving twin must stay silent.

Static all the way: the scratch copy is only parsed, never imported or executed.  A self-test failure means the checker
is broken (exit 2), it is never a verdict on the property.
"""
from __future__ import annotations

import json
import multiprocessing
import os
import shutil
import subprocess
import sys
import tempfile
import time

HERE = os.path.dirname(os.path.abspath(__file__))
VERIF = os.path.dirname(HERE)


def _scratch(repo: str) -> str:
    tmp = tempfile.mkdtemp(prefix='fv-selftest-')
    shutil.copytree(os.path.join(repo, 'forml'), os.path.join(tmp, 'forml'), ignore=shutil.ignore_patterns('__pycache__'))
    return tmp


def _apply(entry: dict, root: str) -> tuple[bool, str]:
    """Apply one catalogue entry to the scratch tree; returns (applied, reason)."""
    if 'refactor' in entry:
        # behaviour-preserving AST refactoring of one function: ('rename', local, new) | ('temp',) | ('log',)
        import ast
        import copy

        sys.path.insert(0, VERIF)
        from fv import core as _core

        mod_rel, qual = entry['func']
        fpath = os.path.join(root, mod_rel)
        text = open(fpath, encoding='utf-8').read()
        tree = ast.parse(text)
        target = None
        stack = [(tree, '')]
        while stack:
            node, prefix = stack.pop()
            for ch in ast.iter_child_nodes(node):
                if isinstance(ch, (ast.FunctionDef, ast.AsyncFunctionDef, ast.ClassDef)):
                    q = f'{prefix}{ch.name}'
                    if q == qual and not isinstance(ch, ast.ClassDef) and not any('overload' in ast.unparse(d) for d in ch.decorator_list):
                        target = ch
                    stack.append((ch, q + '.'))
                else:
                    stack.append((ch, prefix))
        if target is None:
            return False, f'function {qual} not found in {mod_rel}'
        new = copy.deepcopy(target)
        kind = entry['refactor'][0]
        if kind == 'rename':
            if entry['refactor'][1] not in _core.own_locals(new):
                return False, f'local {entry["refactor"][1]} not found in {qual}'
            _core._rename_local(new, entry['refactor'][1], entry['refactor'][2])
        elif kind == 'temp':
            rets = [n for n in ast.walk(new) if isinstance(n, ast.Return) and n.value is not None and not isinstance(n.value, (ast.Name, ast.Constant))]
            if not rets:
                return False, 'no return expression'
            r = rets[-1]
            for par in ast.walk(new):
                for f in ('body', 'orelse', 'finalbody'):
                    seq = getattr(par, f, None)
                    if isinstance(seq, list) and r in seq:
                        k = seq.index(r)
                        seq[k:k + 1] = [ast.Assign(targets=[ast.Name(id='outcome_', ctx=ast.Store())], value=r.value, lineno=r.lineno), ast.Return(value=ast.Name(id='outcome_', ctx=ast.Load()))]
        elif kind == 'log':
            first = 1 if new.body and isinstance(new.body[0], ast.Expr) and isinstance(new.body[0].value, ast.Constant) else 0
            new.body.insert(first, ast.parse("LOGGER.debug('checkpoint')").body[0])
        ast.fix_missing_locations(new)
        lines = text.split('\n')
        s0, s1 = target.lineno - 1, target.end_lineno
        if target.decorator_list:
            s0 = min(d.lineno for d in target.decorator_list) - 1
        indent = ' ' * target.col_offset
        body = '\n'.join(indent + ln if ln else ln for ln in ast.unparse(new).split('\n'))
        open(fpath, 'w', encoding='utf-8').write('\n'.join(lines[:s0] + [body] + lines[s1:]))
        files = [mod_rel]
    elif 'patch' in entry:
        path = entry['patch'] if os.path.isabs(entry['patch']) else os.path.join(VERIF, entry['patch'])
        r = subprocess.run(['patch', '-p1', '-s', '--no-backup-if-mismatch', '-f', '-i', path], cwd=root, stdout=subprocess.PIPE, stderr=subprocess.STDOUT, text=True)
        if r.returncode != 0:
            return False, 'patch does not apply to the analysed tree: ' + r.stdout.strip().splitlines()[-1][:120]
        files = [ln.split()[-1][2:] for ln in open(path) if ln.startswith('+++ b/')]
    else:
        fpath = os.path.join(root, entry['file'])
        if not os.path.exists(fpath):
            return False, f'file {entry["file"]} missing'
        text = open(fpath, encoding='utf-8').read()
        if text.count(entry['old']) != 1:
            return False, f'anchor text occurs {text.count(entry["old"])} times in {entry["file"]}'
        open(fpath, 'w', encoding='utf-8').write(text.replace(entry['old'], entry['new']))
        files = [entry['file']]
    for f in files:
        try:
            compile(open(os.path.join(root, f), encoding='utf-8').read(), f, 'exec')
        except SyntaxError as err:
            return False, f'edited file does not compile: {err}'
    return True, ''


def _run_one(args) -> dict:
    prop, entry, repo = args
    sys.path.insert(0, VERIF)
    from fv import cli, core, report

    root = _scratch(repo)
    out = {'name': entry['name'], 'kind': entry['kind'], 'property': prop}
    try:
        ok, why = _apply(entry, root)
        if not ok:
            out.update(status='stale', detail=why)
            return out
        try:
            ctx = cli.run_rules(prop, root, 'quick')
        except core.AnalysisError as err:
            out.update(status='analysis-error', detail=str(err)[:200])
            return out
        known, _ = report.load_known(prop)
        new = [f for f in ctx.findings if not any(k['rule'] == f.rule and k['key'] == f'{f.where}::{f.key}' for k in known)]
        out['new_findings'] = [f'{f.rule} {f.where}::{f.key}'[:160] for f in new][:6]
        if entry['kind'] == 'break':
            hit = bool(new)
            if hit and entry.get('expect'):
                hit = any(entry['expect'] in x for x in out['new_findings']) or any(entry['expect'] in f.rule or entry['expect'] in f.where for f in new)
            out['status'] = 'detected' if hit else 'MISSED'
        else:
            out['status'] = 'silent' if not new else 'FALSE-ALARM'
        return out
    except Exception as err:  # pragma: no cover
        out.update(status='crash', detail=repr(err)[:200])
        return out
    finally:
        shutil.rmtree(root, ignore_errors=True)


def entries_for(prop: str) -> list[dict]:
    from . import catalogue

    out = [e for e in catalogue.ENTRIES if e['property'] == prop]
    seeded = os.path.join(VERIF, 'seeded')
    if os.path.isdir(seeded):
        for name in sorted(os.listdir(seeded)):
            meta = os.path.join(seeded, name, 'meta.json')
            patch = os.path.join(seeded, name, 'patch.diff')
            if os.path.exists(meta) and os.path.exists(patch):
                m = json.load(open(meta))
                if m.get('property') == prop:
                    out.append({'property': prop, 'name': f'seeded/{name}', 'kind': 'break', 'patch': patch})
    return out


def run_property(prop: str, repo: str) -> dict:
    started = time.time()
    entries = entries_for(prop)
    jobs = [(prop, e, repo) for e in entries]
    if jobs:
        with multiprocessing.Pool(min(16, len(jobs))) as pool:
            results = pool.map(_run_one, jobs)
    else:
        results = []
    bad = [r for r in results if r['status'] in ('MISSED', 'FALSE-ALARM', 'crash', 'analysis-error')]
    # a stale entry (anchor text gone because the analysed tree was edited) is not a checker failure
    return {
        'total': len(results),
        'detected': sum(1 for r in results if r['status'] == 'detected'),
        'silent_twins': sum(1 for r in results if r['status'] == 'silent'),
        'stale': [r['name'] for r in results if r['status'] == 'stale'],
        'failed': len(bad),
        'failures': [f"{r['name']} [{r['kind']}] -> {r['status']} {r.get('detail', '')} {r.get('new_findings', '')}" for r in bad],
        'results': [{k: r[k] for k in ('name', 'kind', 'status')} for r in results],
        'wall_s': round(time.time() - started, 2),
    }


if __name__ == '__main__':
    sys.path.insert(0, VERIF)
    props = sys.argv[1:] or sorted({e['property'] for e in __import__('selftest.catalogue', fromlist=['ENTRIES']).ENTRIES})
    rc = 0
    for p in props:
        res = run_property(p, os.environ.get('VERIF_REPO', '/repo'))
        print(p, {k: res[k] for k in ('total', 'detected', 'silent_twins', 'failed', 'wall_s')}, 'stale:', res['stale'])
        for line in res['failures']:
            print('   ', line)
            rc = 1
    sys.exit(rc)
