# where-factor of a table is also offered for the scan of the same table reached through a reference (self-join)
import warnings; warnings.filterwarnings('ignore')
import sqlalchemy
from forml.io import dsl
from forml.provider.feed.reader import alchemy
class A(dsl.Schema):
    k = dsl.Field(dsl.Integer()); x = dsl.Field(dsl.Integer())
hints = []
class Rec(alchemy.Parser):
    def generate_table(self, table, features, predicate):
        hints.append(str(predicate) if predicate is not None else None); return table
r = A.reference('r')
stmt = A.inner_join(r, A.k < r.k).select(A.k, r.k.alias('rk')).where(A.x > 1)
with Rec({A: sqlalchemy.table('a')}, {}) as v:
    stmt.accept(v); v.fetch()
print('row filters offered for the two scans of a:', hints)
assert hints.count(None) >= 1, 'the aliased scan of `a` must not inherit the filter of the bare table'
