import warnings; warnings.filterwarnings('ignore')
from forml import flow
from forml.pipeline import wrap

@wrap.Actor.train
def M(state, f, l, *, k=1): return (state or 0) + 1
@M.apply
def M(state, f, *, k=1): return (f, state)
@wrap.Actor.apply
def S(*f): return f

src = flow.Worker(S.builder(), 0, 1)
w = flow.Worker(M.builder(), 1, 1)
try:
    w.train(src[0], w[0])
except Exception as e:
    print('train raised', type(e).__name__, e)
print('after failed train: trained=', w.trained, 'input=', w.input, 'src.out=', src.output)
# retry legal call
lab = flow.Worker(S.builder(), 0, 1)
try:
    w.train(src[0], lab[0]); print('retry ok')
except Exception as e:
    print('retry raised', type(e).__name__, e)
# Future registration non-rollback
f = flow.Future()
a = flow.Worker(S.builder(), 1, 1)
a[0].subscribe(f[0])      # a subscribed to future output
b = flow.Worker(S.builder(), 1, 1)
try:
    f[0].subscribe(a[0])  # would create self-loop a->a through future
except Exception as e:
    print('future self-loop raised', type(e).__name__, e)
print('future _input after failure:', f._input, 'a.out', a.output)
