# Schema.__getitem__ is lru_cached keyed by the (structurally compared) schema, but resolves `name` through the attribute
# namespace first - which structural equality does not compare: the answer for schema B depends on whether an equal schema A
# with another attribute key was asked before.   Reported by a red-team agent (round 2, C08), confirmed here.
import warnings; warnings.filterwarnings('ignore')
from forml.io import dsl
class A(dsl.Schema):
    dob = dsl.Field(dsl.Date(), 'birthday')
class B(dsl.Schema):
    birthday = dsl.Field(dsl.Date())
assert A.schema == B.schema
def ask():
    try:
        return repr(B.schema['dob'])
    except KeyError:
        return 'KeyError'
before = ask(); A.schema['dob']; after = ask()
print('B.schema["dob"] before/after A.schema["dob"]:', before, '/', after)
assert before == after, 'lookup on B depends on what was asked of the equal schema A'
