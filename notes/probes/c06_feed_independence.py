import warnings; warnings.filterwarnings('ignore')
import os, tempfile
os.environ['FORML_HOME'] = tempfile.mkdtemp()
from forml.io import dsl
from forml.provider.feed import monolite

class T(dsl.Schema):
    a = dsl.Field(dsl.Integer())

f1 = monolite.Feed(inline={T: [[1], [2]]})
f2 = monolite.Feed(inline={T: [[10], [20], [30]]})
q = T.select(T.a)
r1 = f1.producer(f1.sources, f1.features, **f1._readerkw)(q)
print('feed1:', r1.to_rows().frame.values.tolist() if hasattr(r1.to_rows(), 'frame') else r1.to_rows())
r2 = f2.producer(f2.sources, f2.features, **f2._readerkw)(q)
print('feed2 (expects 10,20,30):', r2.to_rows().frame.values.tolist())
import shutil; shutil.rmtree(os.environ['FORML_HOME'])
