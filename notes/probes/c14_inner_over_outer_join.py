# an INNER join stacked on an outer join: its ON-condition factor on the null-supplying table is offered as a row filter
import warnings; warnings.filterwarnings('ignore')
import sqlalchemy
from forml.io import dsl
from forml.io.dsl import function
from forml.provider.feed.reader import alchemy
class A(dsl.Schema):
    k = dsl.Field(dsl.Integer())
class B(dsl.Schema):
    k = dsl.Field(dsl.Integer()); y = dsl.Field(dsl.Integer())
class C(dsl.Schema):
    k = dsl.Field(dsl.Integer())
hints = {}
class Rec(alchemy.Parser):
    def generate_table(self, table, features, predicate):
        hints[str(table)] = str(predicate) if predicate is not None else None; return table
stmt = A.left_join(B, A.k == B.k).inner_join(C, (A.k == C.k) & function.IsNull(B.y)).select(A.k)
with Rec({A: sqlalchemy.table('a'), B: sqlalchemy.table('b'), C: sqlalchemy.table('c')}, {}) as v:
    stmt.accept(v); v.fetch()
print(hints)
assert hints['b'] is None, 'a filter on the null-supplying side of the lower outer join changes which A rows are null-padded'
