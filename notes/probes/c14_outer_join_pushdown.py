import warnings; warnings.filterwarnings('ignore')
import sqlalchemy, duckdb
from forml.io import dsl
from forml.io.dsl import function
from forml.provider.feed.reader import alchemy
class A(dsl.Schema):
    x = dsl.Field(dsl.Integer()); y = dsl.Field(dsl.Integer())
class B(dsl.Schema):
    x = dsl.Field(dsl.Integer()); z = dsl.Field(dsl.Integer())
class Rec(alchemy.Parser):
    def generate_table(self, table, features, predicate):
        print('  hint for', table, ':', predicate); return table
stmt = A.left_join(B, A.x <= B.x).select(A.y).where(function.IsNull(B.z))
with Rec({A: sqlalchemy.table('a'), B: sqlalchemy.table('b')}, {}) as v:
    stmt.accept(v); v.fetch()
c = duckdb.connect(); c.execute('create table a(x int, y int); create table b(x int, z int); insert into a values (1,10),(2,20); insert into b values (1,5)')
print('ignoring hints :', c.execute('select a.y from a left join b on a.x <= b.x where b.z is null').fetchall())
print('honouring hints:', c.execute('select a.y from a left join (select * from b where z is null) b on a.x <= b.x where b.z is null').fetchall())
