# a column compares equal to its aliased form (the equality proxy receives the other operand already de-aliased by
# `featurize`), so two statements differing in exactly one alias compare equal while hashing differently.
# Reported by a red-team agent (round 3, C08), confirmed here.
import warnings; warnings.filterwarnings('ignore')
from forml.io import dsl
class T(dsl.Schema):
    a = dsl.Field(dsl.Integer())
q1, q2 = T.select(T.a), T.select(T.a.alias('x'))
print('select(a) == select(a.alias(x)):', q1 == q2, ' hashes equal:', hash(q1) == hash(q2))
assert not (q1 == q2), 'statements differing in an alias must not be equal'
assert not (T.a.alias('x') == T.a)
assert repr(T.where(T.a == T.a.alias('x'))) == 'T.where(T.a == T.a)'  # as a predicate the alias is still transparent
