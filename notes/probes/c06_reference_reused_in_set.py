# the same dsl.Reference used in both branches of a set operation: lru-cached generate_feature binds the columns of the
# second branch to the alias object created for the first one
import warnings; warnings.filterwarnings('ignore')
import sqlalchemy
from forml.io import dsl
from forml.provider.feed.reader import alchemy
class T(dsl.Schema):
    a = dsl.Field(dsl.Integer()); b = dsl.Field(dsl.Integer())
r = T.reference('r')
stmt = r.select(r.a).where(r.b > 1).union(r.select(r.a).where(r.b < 0))
with alchemy.Parser({T: sqlalchemy.table('t')}, {}) as v:
    stmt.accept(v); q = v.fetch()
eng = sqlalchemy.create_engine('sqlite://')
with eng.connect() as c:
    c.execute(sqlalchemy.text('create table t(a int, b int)')); c.execute(sqlalchemy.text('insert into t values (1,2),(2,-1),(3,0)'))
    print(str(q).replace('\n', ' '))
    print(sorted(c.execute(q).fetchall()))
