# Segment.extend(right, tail=x): right is subscribed to our tail first, then Segment(self._head, x) is validated - with a
# tail that is not reachable from the head ('Disconnected tail') the call is refused with the subscription already made.
import warnings; warnings.filterwarnings('ignore')
import forml
from forml import flow
from forml.flow._graph import span
class A(flow.Actor):
    def apply(self, x): return x
b = A.builder()
h, r, x = flow.Worker(b, 1, 1), flow.Worker(b, 1, 1), flow.Worker(b, 1, 1)
seg = span.Segment(h)
before = ([len(p) for p in h.output], list(r.input))
try:
    seg.extend(r, tail=x)
    raise SystemExit('accepted?!')
except flow.TopologyError as err:
    print('refused:', err)
after = ([len(p) for p in h.output], list(r.input))
print('before', before, 'after', after)
assert before == after, 'a refused extend() left the right node subscribed'
