import warnings; warnings.filterwarnings('ignore')
import sqlalchemy
from sqlalchemy import sql
from forml.io import dsl
from forml.io.dsl import function
from forml.provider.feed.reader import alchemy
from forml import io

class A(dsl.Schema):
    x = dsl.Field(dsl.Integer())
    y = dsl.Field(dsl.Integer())
class B(dsl.Schema):
    x = dsl.Field(dsl.Integer())
    z = dsl.Field(dsl.Integer())

def parse(sources, stmt):
    with alchemy.Parser(sources, {}) as v:
        stmt.accept(v)
        return v.fetch()

join = A.inner_join(B, A.x == B.x)
stmt = join.select(A.y, B.z)
# E: feed advertising only the join
m = io.Importer.Matcher([join]); stmt.accept(m); print('matcher(join only):', bool(m))
try:
    print(parse({join: sqlalchemy.table('ab')}, stmt))
except Exception as e:
    print('parser(join only):', type(e).__name__, e)
ref = A.reference('aa')
stmt2 = ref.select(ref.x)
m = io.Importer.Matcher([ref]); stmt2.accept(m); print('matcher(ref only):', bool(m))
try:
    print(parse({ref: sqlalchemy.table('aa')}, stmt2))
except Exception as e:
    print('parser(ref only):', type(e).__name__, e)
q = A.select(A.x)
stmt3 = q.reference('qq').select(q.reference('qq').x) if False else q
m = io.Importer.Matcher([q]); q.accept(m); print('matcher(query only):', bool(m))
try:
    print(parse({q: sqlalchemy.table('aq')}, q))
except Exception as e:
    print('parser(query only):', type(e).__name__, e)

# C: join condition truthiness
class Rec(alchemy.Parser):
    def generate_table(self, table, features, predicate):
        print('  generate_table', table, [str(f) for f in features], predicate)
        return table
def parse2(sources, stmt):
    with Rec(sources, {}) as v:
        stmt.accept(v)
        return v.fetch()
srcs = {A: sqlalchemy.table('a'), B: sqlalchemy.table('b')}
print('join on == (select A.y,B.z):'); print(parse2(srcs, A.inner_join(B, A.x == B.x).select(A.y, B.z)))
print('join on <  (select A.y,B.z):'); print(parse2(srcs, A.inner_join(B, A.x < B.x).select(A.y, B.z)))
print('where single-table not:'); print(parse2(srcs, A.select(A.y).where(~(A.x > 1))))
try:
    print('where cross-table and:'); print(parse2(srcs, A.inner_join(B, A.x < B.x).select(A.y).where((A.x > 1) & (B.z < 3))))
except Exception as e:
    print('ERR', type(e).__name__, e)
