import warnings; warnings.filterwarnings('ignore')
import threading, time
from forml.runtime._service import dispatch
import forml

class Inv:
    def __init__(self): self.calls = 0; self.gate = threading.Event()
    def list(self):
        self.calls += 1
        if self.calls == 1:      # first caller is slow: lets the second one finish the whole lookup meanwhile
            self.gate.wait(2)
        return ['app']
    def get(self, a): return object()

w = dispatch.Wrapper.__new__(dispatch.Wrapper)
w._inventory = Inv(); w._descriptors = {}; w._registry = 'reg'
res = {}
def run(name):
    try: res[name] = w._get_descriptor('app')
    except Exception as e: res[name] = e
# T1 passes the `not in` check and blocks inside list() AFTER... we need T1 to block BEFORE computing updates but after the check:
# list() is evaluated first inside set(...).difference(self._descriptors) -> difference evaluated after list returns -> T2 populates meanwhile
t1 = threading.Thread(target=run, args=('t1',)); t1.start(); time.sleep(0.2)
t2 = threading.Thread(target=run, args=('t2',)); t2.start(); t2.join()
w._inventory.gate.set(); t1.join()
print(res)
