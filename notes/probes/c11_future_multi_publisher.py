# K7: two different publishers registered on the same Future input index both reach the downstream input port.
# K6b: a publish through a Future whose collapse fails (self loop via the placeholder) leaves the subscription behind.
import warnings; warnings.filterwarnings('ignore')
from forml import flow
from forml.pipeline import payload
from forml.flow._graph import port

class Act(flow.Actor):
    def apply(self, x): return x
B = Act.builder()
a, c, b = flow.Worker(B, 1, 1), flow.Worker(B, 1, 1), flow.Worker(B, 1, 1)
f = flow.Future()
f[0].subscribe(a[0]); f[0].subscribe(c[0])      # two publishers on placeholder input 0: accepted
b[0].subscribe(f[0])
pubs = [n for n in (a, c) if any(s.node is b for p in n.output for s in p)]
print('K7 publishers of b@Apply[0]:', len(pubs), '(expected at most 1)')
# K6b
p, f2 = flow.Worker(B, 1, 1), flow.Future()
f2[0].subscribe(p[0])
try:
    p[0].subscribe(f2[0])        # p -> f2 -> p : self loop through the placeholder, refused
except flow.TopologyError as e:
    print('K6b refused:', e)
print('K6b leftover subscriptions on the placeholder output:', [s for port_ in f2.output for s in port_], '| p.input:', list(p.input))
