# Source.__getitem__ zips the (name-keyed, duplicate-collapsing) schema with the positional features: on a join whose sides
# share a column name every later name resolves to the wrong column.   Reported by a red-team agent (round 2, C08), confirmed.
import warnings; warnings.filterwarnings('ignore')
from forml.io import dsl
class L(dsl.Schema):
    k = dsl.Field(dsl.Integer()); z = dsl.Field(dsl.Integer())
class R(dsl.Schema):
    z = dsl.Field(dsl.String()); k2 = dsl.Field(dsl.Integer())
j = L.inner_join(R, L.k == R.k2)
print('j.k2 ->', repr(j.k2), j.k2.kind)
assert j.k2 == R.k2, 'join.k2 must be the k2 column'
