# K10: in the perftrack composition the pipeline's train segment is dropped by PerfTrackScore.compose; its head Future is
# the only holder of the subscriptions of the first trainer, so after garbage collection that group is no longer "trained",
# its apply fork is not "derived" and Composition.persistent loses / shifts positions.
import gc, warnings; warnings.filterwarnings('ignore')
from forml import flow, evaluation
from forml.pipeline import wrap
from forml.evaluation import _stage
from forml.flow._suite import assembly

class S(flow.Actor):
    def __init__(self, tag=''): self.tag = tag; self.s = None
    def train(self, x, y): self.s = 1
    def apply(self, x): return x
    def get_params(self): return {'tag': self.tag}
    def set_params(self, tag): self.tag = tag

@wrap.Operator.mapper
class A(S): pass
@wrap.Operator.mapper
class B(S): pass
@wrap.Operator.mapper
class E(S): pass

class Src(flow.Actor):
    def apply(self, *a): return 1
class Source(flow.Operator):
    def compose(self, scope):
        n = flow.Worker(Src.builder(), 0, 1); t = flow.Worker(Src.builder(), 0, 1); l = flow.Worker(Src.builder(), 0, 1)
        return flow.Trunk(n, t, l)

pipeline = A(tag='a') >> B(tag='b') >> E(tag='e')
plain = assembly.Composition(Source(), pipeline)
gc.collect()
metric = evaluation.Function(lambda t, p: 0.0)
perf = assembly.Composition(Source(), pipeline >> _stage.PerfTrackScore(metric))
gc.collect()
print('persistent groups: plain pipeline =', len(plain.persistent), '| perftrack composition =', len(perf.persistent))
