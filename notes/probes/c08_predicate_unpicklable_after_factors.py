# a predicate whose factors were computed once (cached_property -> stored in the instance __dict__, which pickle serialises
# together with the tuple) can no longer be pickled: Factors holds a types.MappingProxyType.
# Reported by a red-team agent (round 3, C08), confirmed here.
import warnings; warnings.filterwarnings('ignore')
import pickle
from forml.io import dsl
class T(dsl.Schema):
    a = dsl.Field(dsl.Integer()); b = dsl.Field(dsl.Integer())
p = (T.a > 1) & (T.b < 2)
q = T.where(p)
assert pickle.loads(pickle.dumps(q)) == q
_ = p.factors  # what the parser does when the statement is read
r = pickle.loads(pickle.dumps(q))
assert r == q and hash(r) == hash(q)
assert dict(r.prefilter.factors) == dict(p.factors)
print('ok')
