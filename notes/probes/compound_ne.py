"""Probe for fix 971c4d1 (C08): before the fix both == and != of a compound kind against a tuple with equal members but
another class answered False (tuple.__ne__ ignores what Compound.__eq__ / Struct.Element.__eq__ add)."""
from forml.io.dsl._struct import kind

a = kind.Array(kind.Integer())
raw = (kind.Integer(),)
assert (a == raw) != (a != raw), ('Array vs raw tuple', a == raw, a != raw)
e = kind.Struct(a=kind.Integer())[0]
assert (e == ('a', kind.Integer())) != (e != ('a', kind.Integer()))


class Pair(kind.Compound):
    def __new__(cls, first, second):
        return tuple.__new__(cls, [first, second])


m, p = kind.Map(kind.Integer(), kind.String()), Pair(kind.Integer(), kind.String())
assert (m == p) != (m != p)
print('ok')
