# Source.__getitem__ is lru_cached by the (structurally compared) source, but what it returns depends on the schema's attribute
# keys, which that equality ignores: of two equal tables with different field keys the one touched first lends its schema
# object (and attribute names) to the other.   Reported by a red-team agent (round 4, C08), confirmed here.
import warnings; warnings.filterwarnings('ignore')
from forml.io import dsl
def table(key):
    return type(dsl.Schema)('A', (dsl.Schema,), {key: dsl.Field(dsl.Integer(), name='x')})
A1, A2 = table('foo'), table('bar')
assert A1 == A2 and hash(A1) == hash(A2)
_ = A2.schema            # touch the second table first
print('A1.schema is A2.schema:', A1.schema is A2.schema)
assert A1.schema is not A2.schema
assert repr(A1.foo) == 'A.x' and repr(A2.bar) == 'A.x'
