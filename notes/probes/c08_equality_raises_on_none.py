# K11 (known finding, C08): equality of DSL objects is not total - comparing a query without a prefilter with one that has a
# prefilter compares None with a predicate, which the operable equality tries to cast to a Literal -> ValueError.
import warnings; warnings.filterwarnings('ignore')
from forml.io import dsl
class T(dsl.Schema):
    a = dsl.Field(dsl.Integer())
try:
    print(T.query == T.where(T.a > 1))
except ValueError as err:
    print('raises ValueError:', err)
    raise SystemExit(1)
