# compound kinds did not survive pickling: Array round-tripped to a non-equal object, Map/Struct raised TypeError
import pickle, warnings; warnings.filterwarnings('ignore')
from forml.io import dsl
for k in (dsl.Array(dsl.Integer()), dsl.Map(dsl.String(), dsl.Float()), dsl.Struct(a=dsl.Integer(), b=dsl.Array(dsl.String()))):
    try:
        r = pickle.loads(pickle.dumps(k))
        print(type(k).__name__, 'equal after pickle:', r == k, 'hash equal:', hash(r) == hash(k))
    except Exception as e:
        print(type(k).__name__, 'FAILED', type(e).__name__, e)
