import warnings; warnings.filterwarnings('ignore')
import sqlalchemy
from forml.io import dsl
from forml.provider.feed.reader import alchemy
class A(dsl.Schema):
    x = dsl.Field(dsl.Integer()); y = dsl.Field(dsl.Integer())
class Rec(alchemy.Parser):
    def generate_table(self, table, features, predicate):
        print('  generate_table', table, [str(f) for f in features], predicate); return table
r = A.reference('r')
stmt = A.inner_join(r, A.x < r.y).select(A.x, r.y).where(r.x > 3)
with Rec({A: sqlalchemy.table('a')}, {}) as v:
    stmt.accept(v); print(v.fetch())
print(alchemy.Parser({A: sqlalchemy.table('a')}, {}).generate_join(sqlalchemy.table('a'), sqlalchemy.table('b'), None, dsl.Join.Kind.CROSS))
