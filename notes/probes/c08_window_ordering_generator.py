# Window.__new__ stores the *generator* returned by Ordering.make: two identically built windows never compare equal (and
# hash by the generator's address), the ordering can be iterated only once and the window cannot be pickled.
# Noticed by a red-team agent (round 3, C08) from reading the code, confirmed here.
import warnings; warnings.filterwarnings('ignore')
import pickle
from forml.io import dsl
from forml.io.dsl import function
class T(dsl.Schema):
    a = dsl.Field(dsl.Integer()); b = dsl.Field(dsl.Integer())
w1 = function.Count(T.a).over([T.b], [T.a])
w2 = function.Count(T.a).over([T.b], [T.a])
assert bool(w1 == w2) and hash(w1) == hash(w2), 'identically built windows must be equal'
assert list(w1.ordering) == list(w1.ordering) != []
assert bool(pickle.loads(pickle.dumps(w1)) == w1)
print('ok')
