import datetime, pathlib, tempfile, time
from unittest import mock
from forml import application, runtime
from forml.io import asset
from forml.provider.registry.filesystem import posix
P = asset.Project.Key('demo')
with tempfile.TemporaryDirectory() as tmp:
    tmp = pathlib.Path(tmp)
    reg = posix.Registry(tmp / 'reg')
    pkg = mock.MagicMock(); pkg.manifest.name = P; pkg.manifest.version = asset.Release.Key('1'); pkg.path = tmp / 'pkg'; pkg.path.mkdir()
    reg.push(pkg)
    d = asset.Directory(reg)
    s = application.Latest(P, release='1', refresh=0.2)
    i = s.select(d, None, None)
    time.sleep(0.5)
    print('refresher alive:', s._refresher.is_alive())
    for g in (1, 2):
        d.get(P).get('1').put(asset.Tag(training=asset.Tag.Training(datetime.datetime(2020, 1, g), None)))
        time.sleep(1)
        print('after commit', g, '->', s.select(d, None, None))
