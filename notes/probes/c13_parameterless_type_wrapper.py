# the documented parameterless use of wrap.Actor.type (no mapping): `if mapping:` skips the defaulting of the API names for an
# *empty* mapping, so is_stateful() raises KeyError('train') instead of reporting the origin's train method.
# Noticed by a red-team agent (round 2, C13), confirmed here.
import warnings; warnings.filterwarnings('ignore')
from forml.pipeline import wrap
@wrap.Actor.type
class Foo:
    def __init__(self, a=1): self.a = a
    def train(self, x, y): pass
    def apply(self, x): return x
    def get_params(self): return {'a': self.a}
    def set_params(self, **kw): self.a = kw.get('a', self.a)
print('is_stateful:', Foo.is_stateful())
assert Foo.is_stateful() is True
