# two tables with identical fields but different names compare equal while hashing differently (equal objects are not
# interchangeable as mapping keys): Source.__hash__ mixes in the (dynamically created, per table name) class, equality is
# plain tuple equality over the structurally compared schemas.   Reported by a red-team agent (round 2, C08), confirmed here.
import warnings; warnings.filterwarnings('ignore')
from forml.io import dsl
class A(dsl.Schema):
    x = dsl.Field(dsl.Integer())
class B(dsl.Schema):
    x = dsl.Field(dsl.Integer())
print('A == B:', A == B, ' hash(A) == hash(B):', hash(A) == hash(B), ' len({A, B}):', len({A, B}))
assert (A == B) <= (hash(A) == hash(B)), 'equal tables must hash equal'
