import warnings; warnings.filterwarnings('ignore')
import datetime, traceback
import pandas, numpy
from forml.io import dsl, layout
from forml.io import asset
from forml.io._input import _producer, extract
from forml import flow, project

class A(dsl.Schema):
    a = dsl.Field(dsl.Integer())
    b = dsl.Field(dsl.Integer())

# G: C15 cast misalignment
class R(_producer.Reader):
    @classmethod
    def parser(cls, s, f): raise NotImplementedError
    @classmethod
    def read(cls, st, **kw): raise NotImplementedError
r = R({}, {})
entry_schema = dsl.Schema.from_fields(dsl.Field(dsl.String(), name='b'), dsl.Field(dsl.Integer(), name='a'))
entry = layout.Entry(entry_schema, layout.Frame(pandas.DataFrame({'b': ['7', '8'], 'a': [1, 2]})))
out = r(A.select(A.a, A.b), entry)
print('C15 cols', [list(c) for c in out.to_columns()], [type(v).__name__ for v in out.to_rows()[0]])

# missing column / dup
entry2 = layout.Entry(dsl.Schema.from_fields(dsl.Field(dsl.Integer(), name='a')), layout.Frame(pandas.DataFrame({'a': [1]})))
try: print(r(A.select(A.a, A.b), entry2).to_rows())
except Exception as e: print('missing:', type(e).__name__, e)

# H: Tag round trip
T = asset.Tag
for t in [T(), T(training=T.Training(datetime.datetime(2020,1,1), 3)), T(tuning=T.Tuning(datetime.datetime(2020,1,1), 0.5)),
          T(training=T.Training(datetime.datetime(2020,1,1), datetime.date(2020,5,5))),
          T(training=T.Training(datetime.datetime(2020,1,1), 'abc'), states=[__import__('uuid').uuid4()])]:
    try:
        back = T.loads(t.dumps())
        print('tag rt', back == t, back.training.ordinal.__class__.__name__)
    except Exception as e:
        print('tag rt ERR', type(e).__name__, e, t.dumps())

# F: bounds truthiness
st = extract.Statement.prepare(A.select(A.a), None, 0, None)
try: print('no-ordinal lower=0 ->', st())
except Exception as e: print('refused', e)
st = extract.Statement.prepare(A.select(A.a), None, 5, None)
try: print('no-ordinal lower=5 ->', st())
except Exception as e: print('refused:', type(e).__name__, e)
ordn = project.Source.Extract.Ordinal(A.a, 'exactly')
print(extract.Statement.prepare(A.select(A.b), ordn, 0, 10)())

# C07 schema naming
q = A.select(A.a + 1, A.b.alias('bb'))
try: print('schema', [ (f.name, f.kind) for f in q.schema])
except Exception as e: traceback.print_exc()
