import warnings; warnings.filterwarnings('ignore')
import dask
from forml import flow
from forml.flow._code.target import system, user
from forml.pipeline import wrap
from forml.provider.runner import dask as daskrun, pyfunc

CALLS = []
@wrap.Actor.apply
def Src(*, tag): 
    CALLS.append(('src', tag)); return tag
@wrap.Actor.apply
def Add(x, *, k=0):
    CALLS.append(('add', x, k)); return (x, k)
@wrap.Actor.apply
def Join(*xs):
    CALLS.append(('join', xs)); return xs
@wrap.Actor.apply
def Sink(x):
    CALLS.append(('sink', x)); return None

# graph: src -> add(k=1) , src -> add(k=1) (two distinct workers same builder) -> join -> sink
src = flow.Worker(Src.builder(tag='s'), 0, 1)
a1 = flow.Worker(Add.builder(k=1), 1, 1)
a2 = flow.Worker(Add.builder(k=1), 1, 1)
j = flow.Worker(Join.builder(), 2, 1)
snk = flow.Worker(Sink.builder(), 1, 0) if False else flow.Worker(Sink.builder(), 1, 1)
a1[0].subscribe(src[0]); a2[0].subscribe(src[0]); j[0].subscribe(a1[0]); j[1].subscribe(a2[0]); snk[0].subscribe(j[0])
seg = flow.Segment(src, snk)
symbols = flow.compile(seg)
for s in symbols: print(s)
dask.config.set(scheduler='synchronous')
CALLS.clear(); daskrun.Runner.run(symbols); print('dask calls:', CALLS)
CALLS.clear()
try:
    pyfunc.Runner.run(symbols); print('pyfunc calls:', CALLS)
except Exception as e:
    import traceback; traceback.print_exc()
