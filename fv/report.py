"""Result protocol: obligations, findings, known-findings file, evidence, exit codes."""
from __future__ import annotations

import ast
import json
import os
import re
import time
import typing

from . import core

VERIF = os.path.dirname(os.path.dirname(os.path.abspath(__file__)))
KNOWN_FILE = os.path.join(VERIF, 'known_findings.txt')


class Finding:
    def __init__(self, prop: str, rule: str, where: str, key: str, loc: str, message: str, facts: dict):
        self.prop = prop
        self.rule = rule
        self.where = where  # module:qualname
        self.key = key  # normalised statement text / instance key
        self.loc = loc  # file:line
        self.message = message
        self.facts = facts

    @property
    def ident(self) -> str:
        return f'rule={self.rule} key={self.where}::{self.key}'

    def to_json(self) -> dict:
        return {
            'property': self.prop,
            'rule': self.rule,
            'function': self.where,
            'key': self.key,
            'location': self.loc,
            'message': self.message,
            'facts': self.facts,
        }


class Context:
    """Collects obligations for one property run."""

    def __init__(self, prop: str, prog: core.Program, tier: str):
        self.prop = prop
        self.prog = prog
        self.tier = tier
        self.obligations: list[dict] = []
        self.findings: list[Finding] = []
        self.rule_instances: dict[str, int] = {}
        self.samples: list = []
        self.notes: list[str] = []
        self.functions_analysed: set[str] = set()
        self.floors: list[tuple[str, int, int]] = []

    # -- bookkeeping
    def touch(self, fn: typing.Union[core.FuncInfo, str]) -> None:
        self.functions_analysed.add(fn.ref if isinstance(fn, core.FuncInfo) else fn)

    def sample(self, obj) -> None:
        if len(self.samples) < 60:
            self.samples.append(obj)

    def ok(self, rule: str, where: typing.Union[core.FuncInfo, str], what: str, node: typing.Optional[ast.AST] = None, **facts):
        """Record a discharged obligation."""
        ref = where.ref if isinstance(where, core.FuncInfo) else where
        self.rule_instances[rule] = self.rule_instances.get(rule, 0) + 1
        ob = {'rule': rule, 'site': ref, 'what': what, 'status': 'discharged'}
        if node is not None and isinstance(where, core.FuncInfo):
            ob['loc'] = where.loc(node)
        if facts:
            ob['facts'] = facts
        self.obligations.append(ob)
        if isinstance(where, core.FuncInfo):
            self.touch(where)

    def fail(
        self,
        rule: str,
        where: typing.Union[core.FuncInfo, str],
        what: str,
        node: typing.Optional[ast.AST] = None,
        key: typing.Optional[str] = None,
        **facts,
    ):
        """Record a violated obligation (a finding)."""
        ref = where.ref if isinstance(where, core.FuncInfo) else where
        self.rule_instances[rule] = self.rule_instances.get(rule, 0) + 1
        loc = where.loc(node) if isinstance(where, core.FuncInfo) else (facts.pop('loc', '') or '')
        k = key if key is not None else (core.stmt_key(core.enclosing_stmt(node)) if node is not None else what)
        f = Finding(self.prop, rule, ref, k, loc, what, facts)
        # de-duplicate identical findings
        if not any(x.ident == f.ident for x in self.findings):
            self.findings.append(f)
        self.obligations.append({'rule': rule, 'site': ref, 'what': what, 'status': 'VIOLATED', 'loc': loc, 'key': k})
        if isinstance(where, core.FuncInfo):
            self.touch(where)

    def check(self, cond: bool, rule: str, where, what: str, node=None, key=None, **facts) -> bool:
        if cond:
            self.ok(rule, where, what, node, **facts)
        else:
            self.fail(rule, where, what, node, key=key, **facts)
        return bool(cond)

    def floor(self, rule: str, count: int, minimum: int) -> None:
        """Instance floor: a rule that matched fewer sites than confirmed by hand is analysis-broken (exit 2)."""
        # ``minimum`` is the count confirmed by hand; the run is undecidable only when fewer than half of the confirmed
        # instances are matched (anchor moved / idiom unknown).  Between half and the confirmed count the rules
        # themselves report what is missing (a deleted site must surface as a VIOLATION of its rule, not as exit 2).
        hard = max(1, (minimum + 1) // 2)
        self.floors.append((rule, count, hard))
        if count < minimum:
            self.notes.append(f'rule {rule}: matched {count} instance(s), {minimum} were confirmed on the pinned tree')
        if count < hard:
            raise core.AnalysisError(
                f'rule {rule}: matched {count} instance(s), below the floor of {hard} (half of the {minimum} confirmed on the pinned tree) '
                '(anchor moved or idiom not recognised) - cannot decide'
            )


# --------------------------------------------------------------------------------------------------
def load_known(prop: str) -> tuple[list[dict], list[str]]:
    known, fixed = [], []
    if not os.path.exists(KNOWN_FILE):
        return known, fixed
    with open(KNOWN_FILE, encoding='utf-8') as fh:
        for line in fh:
            line = line.strip()
            if not line or line.startswith('#'):
                continue
            m = re.match(r'known:\s+property=(\S+)\s+rule=(\S+)\s+key=(.*?)\s+::\s+(.*)$', line)
            if m and m.group(1) == prop:
                known.append({'rule': m.group(2), 'key': m.group(3), 'what': m.group(4)})
                continue
            m = re.match(r'fixed:\s+property=(\S+)\s+(.*)$', line)
            if m and m.group(1) == prop:
                fixed.append(m.group(2))
    return known, fixed


def new_findings(ctx) -> list:
    """Findings not listed in known_findings.txt."""
    known, _ = load_known(ctx.prop)
    return [f for f in ctx.findings if not any(k['rule'] == f.rule and k['key'] == f'{f.where}::{f.key}' for k in known)]


def finish(ctx: Context, started: float, seed: int, explanation: str, assumptions: list[str], extra: dict) -> int:
    """Write evidence, print the verdict lines, return the exit code."""
    known, fixed = load_known(ctx.prop)
    evdir = os.environ.get('VERIF_EVIDENCE_DIR') or (
        os.path.join(VERIF, 'evidence') if ctx.prog.root == '/repo' else os.path.join('/tmp', 'fv-scratch-evidence')
    )  # evidence under /verif is only ever written from runs against /repo itself
    os.makedirs(os.path.join(evdir, 'replay'), exist_ok=True)
    # clear stale replay files of this property
    for fn in os.listdir(os.path.join(evdir, 'replay')):
        if fn.startswith(ctx.prop + '-'):
            os.unlink(os.path.join(evdir, 'replay', fn))
    new, listed = [], []
    for f in ctx.findings:
        hit = next((k for k in known if k['rule'] == f.rule and k['key'] == f'{f.where}::{f.key}'), None)
        (listed if hit else new).append((f, hit))
    for f, hit in listed:
        print(f'KNOWN-FINDING: property={ctx.prop} {hit["what"]} [{f.rule} at {f.loc} {f.where}]')
    stale = [k for k in known if not any(h is k for _, h in listed)]
    for k in stale:
        ctx.notes.append(f'known finding no longer reported by the rules (repaired?): {k["rule"]} {k["key"]}')
    rc = 0
    for i, (f, _) in enumerate(new):
        path = os.path.join(evdir, 'replay', f'{ctx.prop}-{i}.json')
        with open(path, 'w', encoding='utf-8') as fh:
            json.dump(f.to_json(), fh, indent=1)
        print(f'  {f.rule} {f.loc} in {f.where}: {f.message}')
        print(f'    construct: {f.key}')
        print(f'VIOLATION property={ctx.prop} replay={path}')
        rc = 1
    nob = len(ctx.obligations)
    ndis = sum(1 for o in ctx.obligations if o['status'] == 'discharged')
    distinct = len({(o['rule'], o['site'], o['what']) for o in ctx.obligations})
    stats = ctx.prog.stats()
    evidence = {
        'property_id': ctx.prop,
        'tier': ctx.tier,
        'seed': seed,
        'level': 'other',
        'coverage': {
            'explanation': explanation,
            'evaluations': nob,
            'distinct_nontrivial': distinct,
            'rule': 'one case = one (rule, site, obligation) triple extracted from the parsed working tree; '
            'distinct = distinct triples; all are non-trivial (each names a construct that must have a stated shape)',
            'obligations': nob,
            'discharged': ndis,
            'exhaustive': True,
            'samples': (ctx.samples + ctx.obligations[:12])[:40],
            'rule_instances': ctx.rule_instances,
            'instance_floors': [{'rule': r, 'matched': c, 'floor': m} for r, c, m in ctx.floors],
            'modules_parsed': stats['modules_parsed'],
            'functions_proved_equivalent_to_reference': stats['equivalent_functions'],
            'classes_indexed': stats['classes'],
            'functions_indexed': stats['functions'],
            'functions_analysed': sorted(ctx.functions_analysed),
            'source_digest': ctx.prog.digest(),
            'repo_root': ctx.prog.root,
            'known_findings': [f'{f.rule} {f.where}::{f.key}' for f, _ in listed],
            'fixed_entries': fixed,
            'new_findings': [f.to_json() for f, _ in new],
            'notes': ctx.notes,
            **extra,
        },
        'assumptions': assumptions,
        'wall_s': round(time.time() - started, 3),
        'violations': len(new),
    }
    with open(os.path.join(evdir, f'{ctx.prop}.json'), 'w', encoding='utf-8') as fh:
        json.dump(evidence, fh, indent=1, default=str)
    print(
        f'{ctx.prop} [{ctx.tier}] obligations={nob} discharged={ndis} known={len(listed)} new_violations={len(new)} '
        f'rules={len(ctx.rule_instances)} functions={len(ctx.functions_analysed)} wall={evidence["wall_s"]}s'
    )
    return rc
