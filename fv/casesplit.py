"""Finite case-split partial evaluation (DESIGN.md 2.6): enumerate the straight-line statement sequences a function
executes under a valuation of its branch conditions.  Constant folding over the AST - nothing is executed."""
from __future__ import annotations

import ast
import typing

from . import core

Decide = typing.Callable[[ast.AST], typing.Optional[bool]]


def paths(body: list[ast.stmt], decide: Decide, limit: int = 256) -> list[tuple[list[ast.stmt], str]]:
    """All executed simple-statement sequences under ``decide`` (None => both arms).  Each result is
    (statements, exit) with exit in {'return', 'raise', 'fall'}.  Loops: body taken once and skipped (both)."""
    results: list[tuple[list[ast.stmt], str]] = []

    def run(stmts: list[ast.stmt], acc: list[ast.stmt], cont: typing.Callable[[list[ast.stmt]], None]) -> None:
        if len(results) > limit:
            raise core.AnalysisError('case split exceeds the path limit')
        if not stmts:
            cont(acc)
            return
        head, rest = stmts[0], stmts[1:]
        if isinstance(head, ast.If):
            verdict = decide(head.test)
            arms = [True, False] if verdict is None else [verdict]
            for arm in arms:
                branch = head.body if arm else head.orelse
                run(list(branch) + rest, acc + [_mark(head, arm)], cont)
            return
        if isinstance(head, (ast.For, ast.AsyncFor, ast.While)):
            run(list(head.body) + rest, acc + [head], cont)
            run(list(head.orelse) + rest, acc, cont)
            return
        if isinstance(head, (ast.With, ast.AsyncWith)):
            run(list(head.body) + rest, acc + [head], cont)
            return
        if isinstance(head, ast.Try):
            run(list(head.body) + list(head.orelse) + list(head.finalbody) + rest, acc, cont)
            return
        if isinstance(head, ast.Return):
            results.append((acc + [head], 'return'))
            return
        if isinstance(head, ast.Raise):
            results.append((acc + [head], 'raise'))
            return
        run(rest, acc + [head], cont)

    run(list(body), [], lambda acc: results.append((acc, 'fall')))
    return results


class Branch(ast.stmt):
    """Marker recorded in a path for a decided ``if``."""

    _fields = ('test',)

    def __init__(self, test: ast.AST, taken: bool, origin: ast.If):
        super().__init__()
        self.test = test
        self.taken = taken
        self.origin = origin
        self.lineno = getattr(origin, 'lineno', 0)


def _mark(node: ast.If, arm: bool) -> Branch:
    return Branch(node.test, arm, node)


def fold_ifexp(expr: ast.AST, decide: Decide) -> list[ast.AST]:
    """Resolve conditional expressions inside ``expr`` under ``decide``: returns the possible selected
    sub-expressions when ``expr`` is an IfExp chain, otherwise [expr]."""
    if isinstance(expr, ast.IfExp):
        verdict = decide(expr.test)
        out: list[ast.AST] = []
        if verdict is not False:
            out += fold_ifexp(expr.body, decide)
        if verdict is not True:
            out += fold_ifexp(expr.orelse, decide)
        return out
    return [expr]


def enum_members(ci: core.ClassInfo) -> list[str]:
    """Member names of an enum class (class-level assignments that are not dunder / private / callables)."""
    return [n for n, v in ci.assigns.items() if not n.startswith('_') and not isinstance(v, ast.Lambda)]


def member_test(prog: core.Program, fn: core.FuncInfo, var: str, member_ref: str) -> Decide:
    """Decision procedure for tests on an enum-valued variable bound to ``member_ref`` ('module:Enum.MEMBER')."""

    def resolve_member(node: ast.AST) -> typing.Optional[str]:
        name = core.dotted(node)
        if not name or '.' not in name:
            return None
        head, _, last = name.rpartition('.')
        res = prog.resolve(fn.module, head, scope=fn.qual, func=fn)
        if isinstance(res, core.ClassInfo) and last in res.assigns:
            return f'{res.ref}.{last}'
        return None

    def decide(test: ast.AST) -> typing.Optional[bool]:
        if isinstance(test, ast.UnaryOp) and isinstance(test.op, ast.Not):
            inner = decide(test.operand)
            return None if inner is None else not inner
        if isinstance(test, ast.BoolOp):
            vals = [decide(v) for v in test.values]
            if isinstance(test.op, ast.And):
                if any(v is False for v in vals):
                    return False
                return True if all(v is True for v in vals) else None
            if any(v is True for v in vals):
                return True
            return False if all(v is False for v in vals) else None
        if isinstance(test, ast.Compare) and len(test.ops) == 1:
            left, op, right = test.left, test.ops[0], test.comparators[0]
            if isinstance(left, ast.Name) and left.id == var:
                other = right
            elif isinstance(right, ast.Name) and right.id == var and isinstance(op, (ast.Is, ast.IsNot, ast.Eq, ast.NotEq)):
                other = left
            else:
                return None
            if isinstance(op, (ast.In, ast.NotIn)):
                if not isinstance(other, (ast.Set, ast.Tuple, ast.List)):
                    return None
                members = [resolve_member(e) for e in other.elts]
                if any(m is None for m in members):
                    return None
                inside = member_ref in members
                return inside if isinstance(op, ast.In) else not inside
            m = resolve_member(other)
            if m is None:
                return None
            same = m == member_ref
            if isinstance(op, (ast.Is, ast.Eq)):
                return same
            if isinstance(op, (ast.IsNot, ast.NotEq)):
                return not same
        return None

    return decide
