"""C08 - DSL objects are equal exactly when they are structurally identical (DESIGN.md section 4/C08)."""
from __future__ import annotations

import ast
import typing

from .. import calls, core, types
from . import shared

EXPLANATION = (
    'Static decision of the structural clauses of C08: (1) R-HASHEQ - no equality decision in the DSL is a comparison of '
    'hash() results (hash collisions such as hash(-1) == hash(-2) would make different literals equal); the equality proxy '
    '(Operable.__eq__ -> Comparison.Pythonic -> __bool__, Equal.__bool__) compares the operand classes and the tuple '
    'contents; (2) R-EQHASH - for every class of the DSL families (features, sources, schemas, kinds) that defines __eq__ '
    'or __hash__, everything the hash depends on is compared by the equality (equal => equal hash), a class redefining '
    '__eq__ keeps an explicit __hash__, and where the hash mixes in the class while equality is the inherited tuple one, '
    'the concrete classes of the family store tuples of pairwise different arity; (3) R-PICKLE - tuple subclasses whose '
    '__new__ signature differs from the stored tuple define __getnewargs__, metaclass-made classes have a copyreg reducer; '
    '(4) identity-bearing repr: no truthiness test of Optional DSL members inside __repr__/__hash__/__eq__ of DSL classes; '
    '(5) census of caches keyed by DSL objects (reported in evidence). Decides these necessary conditions, not value-level '
    'equality of arbitrary literals.'
)
ASSUMPTIONS = [
    'tuple.__eq__/__hash__ are structural over the elements; enum members and python natives compare by value',
]
MANIFEST = {
    'level': 'Exhaustive static audit of every __eq__/__hash__/__bool__/__new__/__getnewargs__ definition in the DSL '
             'structure modules against consistency rules. A counter-example to structural equality is a specific colliding '
             'pair that no enumeration is guaranteed to hit; the defect class (equality through hashes, hash depending on '
             'more than equality compares, constructor/pickle arity mismatch) is visible in the definitions themselves.',
    'note': 'Trusted: stdlib ast, Python data-model rules for __eq__/__hash__/pickling of tuple subclasses. Not decided: '
            'independence from other objects alive in the process beyond the listed caches.',
    'technique': 'static analysis: AST pattern over resolved hash() comparisons (R-HASHEQ), token-based eq/hash dependence '
                 'comparison over the class table with C3 MRO (R-EQHASH), constructor-arity vs stored-tuple audit (R-PICKLE), '
                 'typed truthiness lint inside identity methods',
}

SERIES, FRAME = shared.SERIES, shared.FRAME
KIND = 'forml.io.dsl._struct.kind'
STRUCT = 'forml.io.dsl._struct'
FAMILY_MODULES = (SERIES, FRAME, KIND, STRUCT, 'forml.io.dsl.function')

POSITIVE_EXAMPLE = '''
def same(a, b):
    if hash(a.left) == hash(b.left):
        return True
    return hash(a) != hash(b)
'''


def hash_comparisons(root: ast.AST) -> list[ast.Compare]:
    out = []
    for n in ast.walk(root):
        if isinstance(n, ast.Compare) and len(n.ops) == 1 and isinstance(n.ops[0], (ast.Eq, ast.NotEq, ast.Is, ast.IsNot)):
            sides = [n.left, n.comparators[0]]
            if all(isinstance(s, ast.Call) and core.call_name(s) == 'hash' for s in sides):
                out.append(n)
    return out


def r_hasheq(ctx) -> None:
    prog = ctx.prog
    if len(hash_comparisons(ast.parse(POSITIVE_EXAMPLE))) != 2:
        raise core.AnalysisError('R-HASHEQ matcher self-check failed on the embedded positive example')
    nfun = 0
    mods = [m for m in prog.modules if m.startswith('forml.io.dsl') or m.startswith('forml.io._input')]
    for fn in prog.functions(mods):
        nfun += 1
        for cmp in hash_comparisons(fn.node):
            if prog.func_of_node(cmp) is not fn:
                continue
            ctx.fail('R-HASHEQ', fn, f'equality decided by comparing hashes: `{core.src(cmp)}` (colliding hashes, e.g. hash(-1) == hash(-2), make different objects equal)', cmp)
    ctx.ok('R-HASHEQ', 'forml.io.dsl', f'{nfun} functions of forml.io.dsl/_input scanned for hash()==hash() decisions (matcher self-checked on an embedded example)')
    ctx.floor('R-HASHEQ.functions', nfun, 300)
    shared.r_repreq(ctx, list(prog.functions(mods)))
    # equality proxy structure
    operable = prog.cls(f'{SERIES}:Operable')
    eq = prog.func(f'{operable.ref}.__eq__')
    ret = next((s for s in eq.body if isinstance(s, ast.Return)), None)
    o = eq.param_names[1]
    okp = ret is not None and isinstance(ret.value, ast.Call) and core.src(ret.value.func) == 'Comparison.Pythonic' and [core.src(a) for a in ret.value.args][:2] == ['Equal', 'self'] and len(ret.value.args) == 3 and core.src(ret.value.args[2]) in (o, f'cast({o})')
    ctx.check(okp, 'C08.proxy', eq, 'Operable.__eq__ builds the Equal proxy over (self, the other operand as given - at most cast to a literal)', eq.node, key='Operable.__eq__')
    # identity must see the operand itself: a projection applied before the proxy (featurize -> .operable strips an alias) makes
    # a feature equal to its aliased form
    decos = core.decorator_names(eq.node)
    ctx.check(not any(d.split('.')[-1] == 'featurize' for d in decos) and '.operable' not in core.src(eq.node), 'C08.proxy', eq, f'the equality operand is not projected to its operable before the identity decision (decorators {decos})', eq.node, key='Operable.__eq__:raw-operand')
    mat = prog.func(f'{SERIES}:Comparison.Pythonic.operable')
    rr = next((r for r in core.walk_local(mat.node) if isinstance(r, ast.Return)), None)
    ctx.check(rr is not None and core.src(rr.value) in ('self.operator(self.left.operable, self.right.operable)', 'self.operator(self.left, self.right)'), 'C08.proxy', mat, 'the proxy materialises the comparison of its own two operands, in order', mat.node, key='Pythonic.operable')
    feq = prog.cls(f'{SERIES}:Feature').methods.get('__eq__')
    ctx.check(feq is not None and {'CLASS', 'TUPLE'} <= _tokens(prog, prog.cls(f'{SERIES}:Feature'), feq), 'C08.proxy', f'{SERIES}:Feature', 'non-operable features (aliased) compare structurally: same class and element-wise tuple equality', key='Feature.__eq__', loc='forml/io/dsl/_struct/series.py')
    for ref in (f'{SERIES}:Comparison.Pythonic.__bool__', f'{SERIES}:Equal.__bool__'):
        fn = prog.func(ref)
        rets = [s for s in core.walk_local(fn.node) if isinstance(s, ast.Return)]
        eqret = None
        for r in rets:
            gs = [core.src(t) for t, pol in __import__('fv.cfg', fromlist=['guards']).guards(r, fn.node) if pol]
            if ref.endswith('Equal.__bool__') or any('Equal' in g for g in gs):
                eqret = r
        if eqret is None:
            ctx.fail('C08.proxy', fn, 'equality branch of the proxy not found', fn.node, key='proxy:eq-branch')
            continue
        text = core.src(eqret.value)
        cls_cmp = any(
            isinstance(n, ast.Compare) and isinstance(n.ops[0], (ast.Is, ast.Eq)) and all(('__class__' in core.src(s) or core.src(s).startswith('type(')) for s in [n.left, n.comparators[0]])
            for n in ast.walk(eqret.value)
        )
        content = 'tuple.__eq__(self.left, self.right)' in text or 'tuple(self.left) == tuple(self.right)' in text
        conj = isinstance(eqret.value, ast.BoolOp) and isinstance(eqret.value.op, ast.And)
        ctx.check(cls_cmp and content and conj, 'C08.proxy', fn, f'structural equality = same class AND element-wise tuple equality (`{text}`)', eqret, key='proxy:structural')
        # the LessThan branch (sorting) must not decide equality
    ctx.sample({'proxy': 'Operable.__eq__ -> Comparison.Pythonic(Equal, self, other) -> __bool__'})


# ---- R-EQHASH ---------------------------------------------------------------------------------------
def _tokens(prog: core.Program, ci: core.ClassInfo, fn_node: ast.AST, depth: int = 0) -> set[str]:
    toks: set[str] = set()
    has_tuple = any(b in ('tuple',) or (isinstance(b, str) and b.endswith('namedtuple')) for b in ci.mro() if isinstance(b, str))
    for n in ast.walk(fn_node):
        if isinstance(n, ast.Attribute) and n.attr in ('__class__', '__module__', '__qualname__'):
            toks.add('CLASS')
        elif isinstance(n, ast.Call):
            name = core.call_name(n) or ''
            if name in ('type',) or name == 'isinstance':
                toks.add('CLASS')
            elif name in ('tuple.__hash__', 'tuple.__eq__', 'tuple'):
                toks.add('TUPLE')
            elif isinstance(n.func, ast.Attribute) and n.func.attr in ('__hash__', '__eq__'):
                base = n.func.value
                if isinstance(base, ast.Call) and core.call_name(base) == 'super':
                    # next definition in the MRO, or the tuple base
                    owner_fn = n.func.attr
                    nxt = None
                    for c in ci.mro_classes()[1:]:
                        if owner_fn in c.methods:
                            nxt = c
                            break
                    if nxt is not None and depth < 4:
                        toks |= _tokens(prog, nxt, nxt.methods[owner_fn], depth + 1)
                    elif has_tuple:
                        toks.add('TUPLE')
                else:
                    bname = core.dotted(base)
                    res = prog.resolve(ci.module, bname, scope=ci.qual) if bname else None
                    if isinstance(res, core.ClassInfo) and n.func.attr in res.methods and depth < 4:
                        toks |= _tokens(prog, res, res.methods[n.func.attr], depth + 1)
            elif name in ('zip', 'len', 'iter') and any(isinstance(a, ast.Name) and a.id in ('self', 'cls') for a in n.args):
                toks.add('ITER')
        elif isinstance(n, (ast.For, ast.comprehension)) and isinstance(n.iter, ast.Name) and n.iter.id in ('self', 'cls'):
            toks.add('ITER')
        elif isinstance(n, ast.Attribute) and isinstance(n.value, ast.Name) and n.value.id in ('self', 'cls') and not n.attr.startswith('__'):
            toks.add(f'ATTR:{n.attr}')
    return toks


def _stored_arity(ci: core.ClassInfo) -> typing.Optional[int]:
    """Arity of the tuple finally stored by ``ci.__new__`` following the super().__new__(cls, ...) chain."""
    cur = ci
    for _ in range(8):
        found = cur.lookup('__new__')
        if not found or not isinstance(found[1], core.FUNC):
            return None
        owner, node = found
        supers = [c for c in core.calls_in(node) if isinstance(c.func, ast.Attribute) and c.func.attr == '__new__' and isinstance(c.func.value, ast.Call) and core.call_name(c.func.value) == 'super']
        if not supers:
            return None
        call = supers[-1]
        args = call.args[1:]
        nxt = owner.lookup_after(owner, '__new__')
        if nxt is None or not isinstance(nxt[1], core.FUNC):
            # reached the tuple base
            if len(args) == 1 and not isinstance(args[0], ast.Starred):
                return None  # tuple(iterable): arity unknown
            return None if any(isinstance(a, ast.Starred) for a in args) else len(args)
        nowner, nnode = nxt
        nparams = nnode.args
        if nparams.vararg is not None and not nparams.args[1:]:
            # def __new__(cls, *args): return super().__new__(cls, args)  -> stores exactly what it is given
            if any(isinstance(a, ast.Starred) for a in args):
                return None
            return len(args)
        cur = nowner
        if cur is owner:
            return None
    return None


def _dynamic_instance_class(ci: core.ClassInfo) -> typing.Optional[ast.AST]:
    """The statement of ``ci.__new__`` that rebinds the class handed to ``super().__new__`` to a freshly created type."""
    new = ci.methods.get('__new__')
    if new is None:
        return None
    first = new.args.args[0].arg if new.args.args else None
    supers = [c for c in core.calls_in(new) if isinstance(c.func, ast.Attribute) and c.func.attr == '__new__' and isinstance(c.func.value, ast.Call) and core.call_name(c.func.value) == 'super']
    if not first or not any(c.args and core.src(c.args[0]) == first for c in supers):
        return None
    for n in core.walk_local(new):
        if isinstance(n, ast.Assign) and any(isinstance(t, ast.Name) and t.id == first for t in n.targets) and isinstance(n.value, ast.Call):
            return n
    return None


def schema_positional(ctx, rule: str = 'R-EQHASH') -> None:
    """Schemas are ordered: equality compares the fields pairwise in order (the hash is an order-insensitive xor, so equality
    is the only thing that keeps permuted schemas apart - as keys of caches, and as operands of set statements)."""
    prog = ctx.prog
    seq = prog.func(f'{FRAME}:Source.Schema.__eq__')
    zips = [c for c in core.calls_in(seq.node) if core.call_name(c) == 'zip' and [core.src(a) for a in c.args] in (['cls', 'other'], ['other', 'cls'])]
    pairwise = False
    for z in zips:
        gen = next((a for a in core.ancestors(z) if isinstance(a, ast.GeneratorExp)), None)
        if gen is not None and isinstance(gen.elt, ast.Compare) and isinstance(gen.elt.ops[0], ast.Eq) and isinstance(core.parent(gen), ast.Call) and core.call_name(core.parent(gen)) == 'all':
            tg = gen.generators[0].target
            if isinstance(tg, ast.Tuple) and {core.src(gen.elt.left), core.src(gen.elt.comparators[0])} == {core.src(e) for e in tg.elts}:
                pairwise = True
    ctx.check(pairwise, rule, seq, 'Schema equality compares the fields pairwise in declaration order (permuted schemas are different schemas)', seq.node, key='Schema:positional')


def r_eqhash(ctx) -> None:
    prog = ctx.prog
    n = 0
    for ci in sorted(prog.classes.values(), key=lambda c: c.ref):
        if ci.module.name not in FAMILY_MODULES:
            continue
        own_eq, own_hash = ci.methods.get('__eq__'), ci.methods.get('__hash__')
        hash_assign = ci.assigns.get('__hash__')
        if own_eq is None and own_hash is None:
            continue
        n += 1
        if own_eq is not None and own_hash is None:
            ctx.check(hash_assign is not None and not core.is_const(hash_assign, None), 'R-EQHASH', ci.ref, f'{ci.qual} redefines __eq__ and keeps an explicit __hash__ (python would otherwise set it to None)', key=f'{ci.qual}:hash-kept', loc=f'{ci.module.relpath}:{own_eq.lineno}')
        # effective eq: a proxy-returning __eq__ (Operable) is judged through the proxy rule
        eq_found = ci.lookup('__eq__')
        hash_node = own_hash
        if hash_node is None and isinstance(hash_assign, (ast.Attribute, ast.Name)):
            res = prog.resolve(ci.module, core.dotted(hash_assign) or '', scope=ci.qual)
            if isinstance(res, core.FuncInfo):
                hash_node = res.node
        if hash_node is None:
            continue
        htoks = _tokens(prog, ci, hash_node)
        if eq_found and isinstance(eq_found[1], core.FUNC):
            eq_owner, eq_node = eq_found
            returns_proxy = any(isinstance(r, ast.Return) and 'Pythonic' in core.src(r.value) for r in core.walk_local(eq_node))
            etoks = {'CLASS', 'TUPLE'} if returns_proxy else _tokens(prog, eq_owner, eq_node)
        else:
            etoks = {'TUPLE'} if any(isinstance(b, str) and (b == 'tuple' or b.endswith('namedtuple')) for b in ci.mro()) else set()
        ctx.sample({'class': ci.ref, 'hash_depends_on': sorted(htoks), 'eq_compares': sorted(etoks)})
        extra = htoks - etoks
        if extra == {'CLASS'} and 'TUPLE' in etoks:
            # equality is the inherited tuple one; distinct concrete classes must not be able to hold equal tuples
            # only the classes whose effective equality *is* the inherited tuple one (subclasses with their own
            # __eq__, e.g. every Operable, are judged on their own)
            fam = [c for c in prog.subclasses(ci, strict=False) if c.lookup('__eq__') is None]
            arities = {}
            for c in fam:
                if (c.metaclass or '').endswith('ABCMeta') and c.methods.get('__new__') is None:
                    continue
                a = _stored_arity(c)
                if a is not None:
                    arities.setdefault(a, []).append(c.name)
            # the arity argument covers the classes written in the source only: a family member that creates the class of
            # its instances at run time (one type per table name) defeats it - equal tuples, different classes, different hashes
            for c in fam:
                dyn = _dynamic_instance_class(c)
                if dyn is not None:
                    ctx.fail('R-EQHASH', c.ref, f'{c.qual} creates the class of its instances dynamically (`{core.src(dyn)[:70]}`) while the hash mixes in the class and equality is plain tuple equality: equal objects of differently named types hash differently', dyn, key=f'{c.qual}:dynamic-class')
            clash = {a: v for a, v in arities.items() if len(v) > 1 and not _same_lineage(prog, v, fam)}
            ctx.check(not clash, 'R-EQHASH', ci.ref, f'{ci.qual}: hash mixes in the class, equality is tuple equality; concrete classes store tuples of pairwise distinct arity {dict(sorted(arities.items()))}', key=f'{ci.qual}:arity', loc=f'{ci.module.relpath}:{hash_node.lineno}')
            continue
        ctx.check(not extra, 'R-EQHASH', ci.ref, f'{ci.qual}: everything the hash depends on {sorted(htoks)} is compared by equality {sorted(etoks)}', key=f'{ci.qual}:subset', loc=f'{ci.module.relpath}:{hash_node.lineno}')
    ctx.floor('R-EQHASH', n, 6)
    schema_positional(ctx)
    # equality is a conjunction of its components (same class AND same content AND ...): a disjunction makes objects that share
    # one component equal (Array(Integer) == Array(String) through the class test alone)
    for ci in prog.classes.values():
        if ci.module.name in FAMILY_MODULES and '__eq__' in ci.methods:
            fn = prog.func(f'{ci.ref}.__eq__')
            for r in core.walk_local(fn.node):
                if isinstance(r, ast.Return) and r.value is not None:
                    ors = [b for b in ast.walk(r.value) if isinstance(b, ast.BoolOp) and isinstance(b.op, ast.Or)]
                    ctx.check(not ors, 'R-EQHASH', fn, f'{ci.qual}.__eq__ combines its components by conjunction only (`{core.src(r.value)[:80]}`)', r, key=f'{ci.qual}:eq-conjunction')
    # element-wise equalities must not truncate
    for ci in prog.classes.values():
        if ci.module.name in FAMILY_MODULES and '__eq__' in ci.methods:
            shared.r_zipeq(ctx, prog.func(f'{ci.ref}.__eq__'), 'R-ZIPEQ')


def singletons(ctx) -> None:
    """Kind singletons are per class: the memoised instance must live in a per-class closure (or the class's own
    __dict__), never behind hasattr/getattr on the class - those see the instance inherited from a parent kind, so
    Timestamp() would return the Date instance once Date() exists (identity depending on what else exists)."""
    prog = ctx.prog
    meta = prog.func(f'{KIND}:Singleton.__new__')
    inner = [n for n in ast.walk(meta.node) if isinstance(n, core.FUNC) and n is not meta.node]
    ok = bool(inner)
    for fn in inner:
        nonlocals = {n for s in ast.walk(fn) if isinstance(s, ast.Nonlocal) for n in s.names}
        uses_inherited = any(isinstance(c, ast.Call) and core.call_name(c) in ('hasattr', 'getattr') and c.args and core.src(c.args[0]) in ('cls', 'mcs') for c in ast.walk(fn))
        own_dict = '__dict__' in core.src(fn) or 'vars(cls)' in core.src(fn)
        ok = ok and (bool(nonlocals) or own_dict) and not uses_inherited
    ctx.check(ok, 'C08.singleton', meta, 'the singleton instance of a kind is memoised per class (closure variable / own __dict__), not through inherited attribute lookup', meta.node, key='Singleton:per-class')
    anyeq = prog.func(f'{KIND}:Any.__eq__')
    ctx.check(core.src(anyeq.body[-1]) == 'return other.__class__ == self.__class__', 'C08.singleton', anyeq, 'kinds are equal exactly when they are of the same kind class', anyeq.node, key='Any.__eq__')


def _same_lineage(prog, names: list[str], fam: list[core.ClassInfo]) -> bool:
    """Classes sharing an arity are fine when one derives from the other (Column < Element share the same tuples on purpose)."""
    cls = [c for c in fam if c.name in names]
    for a in cls:
        for b in cls:
            if a is not b and not (a.is_subclass_of(b) or b.is_subclass_of(a)):
                return False
    return True


# ---- R-PICKLE ---------------------------------------------------------------------------------------
def r_pickle(ctx) -> None:
    prog = ctx.prog
    n = 0
    roots = [prog.cls(f'{SERIES}:Feature'), prog.cls(f'{FRAME}:Source'), prog.cls(f'{SERIES}:Ordering')]
    for root in roots:
        for ci in prog.subclasses(root, strict=False):
            new = ci.methods.get('__new__')
            if new is None:
                continue
            params = [a.arg for a in new.args.args[1:]] + [a.arg for a in new.args.kwonlyargs]
            if new.args.vararg is not None:
                continue  # stores what it is given (Feature/Source base)
            stored = _stored_arity(ci)
            gna = ci.lookup('__getnewargs__') or ci.lookup('__getnewargs_ex__') or ci.lookup('__reduce__')
            own_gna = any(k in ci.methods for k in ('__getnewargs__', '__getnewargs_ex__', '__reduce__'))
            n += 1
            if stored is None:
                ctx.ok('R-PICKLE', ci.ref, f'{ci.qual}.__new__: stored arity not statically fixed (skipped)')
                continue
            required = len([a for a, d in zip(new.args.args[1:][::-1], ([None] * len(new.args.args) + list(new.args.defaults))[::-1]) if d is None])
            fits = required <= stored <= len(params)
            # a namedtuple base pickles through its own __getnewargs__ (stored fields)
            ctx.check(fits or own_gna, 'R-PICKLE', ci.ref, f'{ci.qual}: __new__({", ".join(params)}) stores {stored} items; unpickling re-applies __new__ to ' + ('its own __getnewargs__' if own_gna else 'the stored tuple'), key=f'{ci.qual}:getnewargs', loc=f'{ci.module.relpath}:{new.lineno}')
            if own_gna and '__getnewargs__' in ci.methods:
                g = ci.methods['__getnewargs__']
                ret = next((s for s in g.body if isinstance(s, ast.Return)), None)
                cnt = None
                if ret is not None and isinstance(ret.value, ast.Call) and core.call_name(ret.value) == 'tuple' and ret.value.args and isinstance(ret.value.args[0], (ast.List, ast.Tuple)):
                    cnt = len(ret.value.args[0].elts)
                elif ret is not None and isinstance(ret.value, ast.Tuple):
                    cnt = len(ret.value.elts)
                if cnt is not None:
                    ctx.check(required <= cnt <= len(params), 'R-PICKLE', ci.ref, f'{ci.qual}.__getnewargs__ returns {cnt} constructor argument(s) for __new__({", ".join(params)})', key=f'{ci.qual}:getnewargs-arity', loc=f'{ci.module.relpath}:{g.lineno}')
    ctx.floor('R-PICKLE', n, 10)
    # plain tuple subclasses of the kind family: the default tuple pickling re-applies __new__ to ONE argument (the whole
    # content), so a custom constructor needs its own __getnewargs__/__getnewargs_ex__/__reduce__
    m = 0
    for ci in prog.classes.values():
        if ci.module.name != KIND:
            continue
        ext = ci.external_bases()
        if 'tuple' not in ext or any(b.endswith('namedtuple') for b in ext):
            continue
        new = ci.methods.get('__new__')
        if new is None or ci.abstract_names():
            continue
        m += 1
        red = ci.lookup('__getnewargs__') or ci.lookup('__getnewargs_ex__') or ci.lookup('__reduce__') or ci.lookup('__reduce_ex__')
        ctx.check(red is not None, 'R-PICKLE', ci.ref, f'{ci.qual}: tuple subclass with constructor ({", ".join(a.arg for a in new.args.args[1:])}{"**" + new.args.kwarg.arg if new.args.kwarg else ""}) provides its constructor arguments for unpickling (the tuple default passes the content as a single argument)', key=f'{ci.qual}:tuple-getnewargs', loc=f'{ci.module.relpath}:{new.lineno}')
        if new.args.kwarg is not None and not new.args.args[1:]:
            ctx.check(ci.lookup('__getnewargs_ex__') is not None or ci.lookup('__reduce__') is not None, 'R-PICKLE', ci.ref, f'{ci.qual}: keyword-only constructor needs __getnewargs_ex__', key=f'{ci.qual}:tuple-getnewargs-ex', loc=f'{ci.module.relpath}:{new.lineno}')
    ctx.floor('R-PICKLE.kinds', m, 3)
    # values cached on an instance travel with it: functools.cached_property stores into the instance __dict__, which pickle
    # serialises with a tuple subclass - so whatever a cached property of a DSL class returns must be picklable itself
    UNPICKLABLE = {'types.MappingProxyType', 'MappingProxyType'}
    holders = {}
    for ci in prog.classes.values():
        if ci.module.name not in FAMILY_MODULES:
            continue
        init = ci.methods.get('__init__')
        if init is None:
            continue
        bad = [x for x in core.walk_local(init) if isinstance(x, (ast.Assign, ast.AnnAssign)) and x.value is not None and isinstance(x.value, ast.Call) and (core.call_name(x.value) or '') in UNPICKLABLE]
        if bad:
            holders[ci.name] = (ci, bad[0])
    k = 0
    for fn in prog.functions([m for m in prog.modules if m in FAMILY_MODULES]):
        if not any(d.split('.')[-1] == 'cached_property' for d in core.decorator_names(fn.node)) or fn.node.returns is None:
            continue
        k += 1
        rt = core.src(fn.node.returns)
        for name, (hc, site) in holders.items():
            if name in rt.replace("'", '').split('.'):
                red = any(hc.lookup(m) is not None for m in ('__reduce__', '__reduce_ex__', '__getstate__'))
                ctx.check(red, 'R-PICKLE', fn, f'{fn.qual} caches a {hc.qual} on the instance (pickled with it); {hc.qual} holds `{core.src(site)[:60]}` and must reduce itself for pickling', site, key=f'cached:{fn.qual}:{hc.qual}')
    ctx.floor('R-PICKLE.cached', k, 4)
    # copyreg reducers for metaclass-made classes
    fmod = prog.module(FRAME)
    regs = [c for c in ast.walk(fmod.tree) if isinstance(c, ast.Call) and core.call_name(c) == 'copyreg.pickle']
    targets = {core.src(c.args[0]) for c in regs if c.args}
    for c in regs:
        if c.args and core.src(c.args[0]) == 'Schema' and len(c.args) > 1 and isinstance(c.args[1], ast.Lambda):
            dcs = [d for d in ast.walk(c.args[1]) if isinstance(d, ast.DictComp)]
            okd = len(dcs) == 1 and isinstance(dcs[0].generators[0].target, ast.Tuple) and core.src(dcs[0].generators[0].iter).endswith('.__dict__.items()') and core.src(dcs[0].key) == core.src(dcs[0].generators[0].target.elts[0]) and core.src(dcs[0].value) == core.src(dcs[0].generators[0].target.elts[1])
            ctx.check(okd, 'R-PICKLE', FRAME, 'the schema reducer rebuilds the namespace under the *attribute keys* of the fields (a field may be named differently from its key: keyed by name the unpickled schema loses the attribute, or gains a duplicate of an overridden field)', c, key='copyreg:schema-keys', loc=fmod.relpath)
    ctx.check({'Schema', 'Meta'} <= targets or len(targets) >= 2, 'R-PICKLE', FRAME, f'copyreg reducers registered for metaclass-made classes: {sorted(targets)}', key='copyreg', loc=fmod.relpath)


def identity_repr(ctx, tenv) -> None:
    prog = ctx.prog
    funcs = []
    for ci in prog.classes.values():
        if ci.module.name in FAMILY_MODULES:
            for m in ('__repr__', '__hash__', '__eq__', '__str__', '__lt__'):
                if m in ci.methods:
                    funcs.append(prog.func(f'{ci.ref}.{m}'))
    ctx.floor('C08.identity-methods', len(funcs), 30)
    shared.r_truthy(ctx, tenv, funcs, rule='R-TRUTHY')
    # ... and anywhere else in the DSL: a predicate/feature member tested by truthiness is judged by its *overloaded* __bool__
    # (Equal is falsy unless its operands are identical), so a present filter/condition is treated as absent and dropped -
    # two statements differing in that member become one
    rest = [f for f in prog.functions([m for m in prog.modules if m in FAMILY_MODULES]) if f not in funcs]
    shared.r_truthy(ctx, tenv, rest, rule='R-TRUTHY')
    shared.r_nebool(ctx, tenv, funcs + rest)
    # where repr() of a DSL object becomes a key
    users = []
    for ref in ('forml.provider.feed.lazy:Origin.key', 'forml.provider.feed.lazy:_Columns.extract'):
        if prog.has_func(ref):
            fn = prog.func(ref)
            if 'repr(' in core.src(fn.node):
                users.append(ref)
    ctx.sample({'repr_used_as_key_in': users})


def cache_census(ctx) -> None:
    prog = ctx.prog
    out = []
    for fn in prog.functions([m for m in prog.modules if m.startswith(('forml.io.dsl', 'forml.io._input', 'forml.provider.feed'))]):
        decos = core.decorator_names(fn.node)
        if any(d.split('.')[-1] in ('lru_cache', 'cache', 'cached_property') for d in decos):
            out.append(f'{fn.ref} [{", ".join(decos)}]')
    ctx.sample({'caches_keyed_by_dsl_objects': out})
    ctx.ok('C08.caches', 'forml.io', f'{len(out)} memoised functions/properties keyed by DSL objects listed (poisoned by any equality defect)')


MEMO_EXAMPLE = '''
class R:
    CACHE = {}
    def a(self, statement):
        key = hash(statement)
        if key not in self._parsed:
            self._parsed[key] = 1
        return self._parsed[key]
    def b(self, name):
        key = id(self), name
        return R.CACHE.setdefault(key, 2)
    def c(self, builder):
        groups = {}
        return groups.setdefault(id(builder), 3)
'''


def memo_keys(fn_node: ast.AST) -> list[tuple[ast.AST, str]]:
    """Accesses of a *long-lived* mapping (instance / class attribute, module global) keyed by ``hash(x)`` or ``id(x)`` -
    directly or through a local name bound to such an expression.  A hash is not an identity (hash(-1) == hash(-2), so two
    statements differing in one literal collide) and an address is re-used after garbage collection."""

    def weak(expr: ast.AST) -> typing.Optional[str]:
        for n in ast.walk(expr):
            if isinstance(n, ast.Call) and isinstance(n.func, ast.Name) and n.func.id in ('hash', 'id') and len(n.args) == 1:
                return n.func.id
        return None

    local_containers = set()
    tainted: dict[str, str] = {}
    for n in core.walk_local(fn_node):
        if isinstance(n, (ast.Assign, ast.AnnAssign)) and getattr(n, 'value', None) is not None:
            tgts = n.targets if isinstance(n, ast.Assign) else [n.target]
            w = weak(n.value)
            for t in tgts:
                if isinstance(t, ast.Name):
                    if w:
                        tainted[t.id] = w
                    if isinstance(n.value, (ast.Dict, ast.DictComp)) or (isinstance(n.value, ast.Call) and core.call_name(n.value) in ('dict', 'collections.defaultdict', 'collections.OrderedDict')):
                        local_containers.add(t.id)

    def keyed(expr: ast.AST) -> typing.Optional[str]:
        w = weak(expr)
        if w:
            return w
        for n in ast.walk(expr):
            if isinstance(n, ast.Name) and n.id in tainted:
                return tainted[n.id]
        return None

    def long_lived(c: ast.AST) -> bool:
        if isinstance(c, ast.Attribute):
            return True
        return isinstance(c, ast.Name) and c.id not in local_containers and c.id.isupper()

    out = []
    for n in core.walk_local(fn_node):
        if isinstance(n, ast.Subscript) and long_lived(n.value):
            w = keyed(n.slice)
            if w:
                out.append((n, w))
        elif isinstance(n, ast.Compare) and len(n.ops) == 1 and isinstance(n.ops[0], (ast.In, ast.NotIn)) and long_lived(n.comparators[0]):
            w = keyed(n.left)
            if w:
                out.append((n, w))
        elif isinstance(n, ast.Call) and isinstance(n.func, ast.Attribute) and n.func.attr in ('get', 'setdefault', 'pop') and n.args and long_lived(n.func.value):
            w = keyed(n.args[0])
            if w:
                out.append((n, w))
    return out


def r_memokey(ctx) -> None:
    prog = ctx.prog
    ex = ast.parse(MEMO_EXAMPLE)
    core.link_parents(ex) if hasattr(core, 'link_parents') else None
    fns = {f.name: f for f in ast.walk(ex) if isinstance(f, core.FUNC)}
    if not (len(memo_keys(fns['a'])) == 3 and len(memo_keys(fns['b'])) == 1 and not memo_keys(fns['c'])):
        raise core.AnalysisError('R-MEMOKEY matcher self-check failed on the embedded example')
    n = 0
    for fn in prog.functions([m for m in prog.modules if m.startswith(('forml.io.dsl', 'forml.io._input', 'forml.provider.feed', 'forml.io._output'))]):
        if fn.name in ('__hash__', '__eq__'):
            continue
        n += 1
        seen = set()
        for site, w in memo_keys(fn.node):
            st = core.enclosing_stmt(site)
            if id(st) in seen:
                continue
            seen.add(id(st))
            ctx.fail('R-MEMOKEY', fn, f'a long-lived mapping is keyed by {w}(...) of an object instead of the object: `{core.src(site)[:80]}` ({"equal hashes do not mean equal statements - hash(-1) == hash(-2)" if w == "hash" else "addresses are re-used once the object is collected"})', st)
    ctx.ok('R-MEMOKEY', 'forml.io', f'{n} functions scanned for memo tables keyed by hash()/id() (matcher self-checked on an embedded example)')
    ctx.floor('R-MEMOKEY.functions', n, 300)


def native_identity(ctx) -> None:
    """A DSL value wrapping a *native python* payload (``value: typing.Any``) stores the reflected kind next to it: python's
    cross-type equality (1 == True == 1.0 == Decimal(1)) would otherwise make differently typed literals equal and hash-equal."""
    prog = ctx.prog
    n = 0
    for ci in sorted(prog.classes.values(), key=lambda c: c.ref):
        if ci.module.name not in FAMILY_MODULES or '__new__' not in ci.methods:
            continue
        new = prog.func(f'{ci.ref}.__new__')
        native = [a.arg for a in new.node.args.args[1:] if a.annotation is not None and core.src(a.annotation) in ('typing.Any', 'Any')]
        if not native or not any(getattr(b, 'name', '') in ('Operable', 'Feature') for b in ci.mro()):
            continue
        n += 1
        supers = [c for c in core.calls_in(new.node) if isinstance(c.func, ast.Attribute) and c.func.attr == '__new__' and isinstance(c.func.value, ast.Call) and core.call_name(c.func.value) == 'super']
        for p in native:
            ok = any(any(core.src(a) == p for a in c.args[1:]) and any(isinstance(a, ast.Call) and core.call_tail(a) == 'reflect' and [core.src(x) for x in a.args] == [p] for a in c.args[1:]) for c in supers)
            ctx.check(ok, 'C08.native-identity', new, f'{ci.qual} stores its native payload `{p}` together with the kind reflected from it (value-only identity would equate 1, True and 1.0)', new.node, key=f'{ci.qual}:{p}')
    ctx.floor('C08.native-identity', n, 1)


CACHEDEP_EXAMPLE = '''
class S(type):
    @functools.lru_cache
    def __getitem__(cls, name):
        try:
            return getattr(cls, name)
        except AttributeError:
            return [f for f in cls if f.name == name][0]
    @functools.lru_cache
    def ok(cls, name):
        return getattr(cls, 'fixed') and [f for f in cls if f.name == name]
    def pairs(self):
        return [f for s, f in zip(self.schema, self.features)]
'''


def namespace_reads(fn_node: ast.AST) -> list[ast.AST]:
    """Reads of the attribute *namespace* of self/cls with a non-constant key: getattr(self, name), vars(self), self.__dict__."""
    out = []
    first = fn_node.args.args[0].arg if fn_node.args.args else 'self'
    for n in core.walk_local(fn_node):
        if isinstance(n, ast.Call) and isinstance(n.func, ast.Name) and n.func.id in ('getattr', 'hasattr') and len(n.args) >= 2 and core.src(n.args[0]) == first and not isinstance(n.args[1], ast.Constant):
            out.append(n)
        elif isinstance(n, ast.Call) and isinstance(n.func, ast.Name) and n.func.id == 'vars' and n.args and core.src(n.args[0]) == first:
            out.append(n)
        elif isinstance(n, ast.Attribute) and n.attr == '__dict__' and core.src(n.value) == first:
            out.append(n)
    return out


def schema_feature_zips(fn_node: ast.AST) -> list[ast.Call]:
    """zip() pairing a *schema* (keyed by field name: equally named fields collapse) with a positional *feature* sequence."""
    out = []
    for c in core.calls_in(fn_node):
        if core.call_name(c) == 'zip' and len(c.args) >= 2:
            tails = [(core.dotted(a) or '').split('.')[-1] for a in c.args]
            if 'schema' in tails and any(t in ('features', 'columns') for t in tails):
                out.append(c)
    return out


def r_cachedep(ctx) -> None:
    """(a) A memoised method of a structurally compared DSL class answers from what that equality compares - never from the
    attribute namespace (attribute keys are not part of a schema's structural identity: the cached answer of one object would
    be served for an equal one that lacks the key).  (b) a schema is never zipped with a positional feature list."""
    prog = ctx.prog
    ex = {f.name: f for f in ast.walk(ast.parse(CACHEDEP_EXAMPLE)) if isinstance(f, core.FUNC)}
    if not (len(namespace_reads(ex['__getitem__'])) == 1 and not namespace_reads(ex['ok']) and len(schema_feature_zips(ex['pairs'])) == 1):
        raise core.AnalysisError('R-CACHEDEP matcher self-check failed on the embedded example')
    n = 0
    for fn in prog.functions([m for m in prog.modules if m in FAMILY_MODULES]):
        decos = [d.split('.')[-1] for d in core.decorator_names(fn.node)]
        if any(d in ('lru_cache', 'cache') for d in decos) and fn.cls is not None and (fn.cls.lookup('__eq__') is not None or fn.cls.lookup('__hash__') is not None):
            n += 1
            for site in namespace_reads(fn.node):
                ctx.fail('R-CACHEDEP', fn, f'memoised by the structurally compared object but resolving through its attribute namespace (`{core.src(site)}`): equal objects with different attribute keys get each other\'s cached answers', site)
        if any(d in ('lru_cache', 'cache') for d in decos):
            for a in fn.node.args.args + fn.node.args.kwonlyargs:
                ann = core.src(a.annotation).replace("'", '') if a.annotation is not None else ''
                if ann in ('typing.Any', 'Any', 'dsl.Native', 'Native'):
                    ctx.fail('R-CACHEDEP', fn, f'memoised by the native python value `{a.arg}: {ann}`: the cache conflates equal values of different types (1 == 1.0 == True, (1, 2) == (1.0, 2.0) - `typed=True` separates the top level only), so the kind/feature derived from the first one is served for the others', fn.node, key=f'native-key:{a.arg}')
        if any(d in ('lru_cache', 'cache') for d in decos) and fn.name in ('__getitem__', '__getattr__', '__iter__', '__getattribute__'):
            ctx.fail('R-CACHEDEP', fn, f'{fn.qual} is memoised by the structurally compared object: element/attribute access hands out objects *of this instance* (its schema object, its attribute keys), which equality does not fully compare - an equal instance would be served the other one\'s', fn.node, key=f'accessor-memo:{fn.qual}')
        for z in schema_feature_zips(fn.node):
            if prog.func_of_node(z) is fn:
                ctx.fail('R-ZIPALIGN', fn, f'`{core.src(z)}` pairs a name-keyed schema (equally named fields collapse) with a positional feature sequence: positions disagree as soon as two features share a name', z)
    ctx.ok('R-CACHEDEP', 'forml.io.dsl', f'{n} memoised methods of structurally compared DSL classes checked for namespace reads; family scanned for schema/feature zips (matchers self-checked on an embedded example)')
    # no floor: after the repairs no memoised method of a structurally compared class is left; the matchers are kept honest by the
    # embedded positive example above and by the reverted fixes in the self-test


def eqhash_agreement(ctx, prefixes: tuple[str, ...], rule: str = 'R-EQHASH', floor: int = 1) -> None:
    """Outside the DSL: for every class of the given modules defining both __eq__ and __hash__, whatever the hash reads (attributes,
    the class) is compared by the equality - so that equal objects hash equal - and the equality compares the class."""
    prog = ctx.prog
    n = 0
    for ci in sorted(prog.classes.values(), key=lambda c: c.ref):
        if not ci.module.name.startswith(prefixes) or '__eq__' not in ci.methods or '__hash__' not in ci.methods:
            continue
        n += 1
        h, e = _tokens(prog, ci, ci.methods['__hash__']), _tokens(prog, ci, ci.methods['__eq__'])
        extra = sorted(h - e)
        ctx.check(not extra, rule, ci.ref, f'{ci.qual}: the hash depends on {sorted(h)}, equality compares {sorted(e)}' + (f' - {extra} is hashed but not compared (equal objects may hash differently / identity is decided by something else than what is hashed)' if extra else ''), key=f'{ci.qual}:eqhash', loc=f'{ci.module.relpath}:{ci.methods["__eq__"].lineno}')
        ctx.check('CLASS' in e, rule, ci.ref, f'{ci.qual}: equality compares the class of the other object', key=f'{ci.qual}:eq-class', loc=f'{ci.module.relpath}:{ci.methods["__eq__"].lineno}')
    ctx.floor(f'{rule}.classes', n, floor)


def eq_total(ctx) -> None:
    """Equality is total: asking whether a DSL object equals *anything* answers True or False, it does not raise.  The operable
    equality casts the other operand to a literal first; every ``raise`` reachable from there (bounded call depth, resolved
    callees) that is not a NotImplementedError / internal AssertionError makes ``==`` against that kind of value an exception - e.g. comparing two
    queries of which one has no prefilter compares None with a predicate."""
    from .. import calls as callsmod

    prog = ctx.prog
    resolver = callsmod.Resolver(prog)
    eq = prog.func(f'{SERIES}:Operable.__eq__')
    seen, raises = set(), []

    def walk(fn, depth, path):
        if fn.ref in seen or depth > 4:
            return
        seen.add(fn.ref)
        for x in core.walk_local(fn.node):
            if isinstance(x, ast.Raise) and x.exc is not None and 'NotImplemented' not in core.src(x.exc) and 'AssertionError' not in core.src(x.exc) and not any(isinstance(a, ast.ExceptHandler) for a in core.ancestors(x)):
                raises.append((fn, x, path))
        for c in core.calls_in(fn.node, deep=False):
            if core.src(c.func).startswith('Comparison.Pythonic'):
                continue  # the proxy constructor stores its operands untouched
            callee = resolver.resolve(fn, c)
            target = callee.func if callee is not None and getattr(callee, 'func', None) is not None else None
            if target is None:
                name = core.call_name(c) or ''
                res = prog.resolve(fn.module, name, scope=fn.qual.rsplit('.', 1)[0] if '.' in fn.qual else None) if name else None
                if isinstance(res, core.FuncInfo):
                    target = res
                elif isinstance(res, core.ClassInfo) and '__new__' in res.methods:
                    target = prog.func(f'{res.ref}.__new__')
            if target is not None and target.module.name in FAMILY_MODULES:
                walk(target, depth + 1, path + [target.ref.split(':')[1]])

    walk(eq, 0, ['Operable.__eq__'])
    ctx.floor('C08.eq-total.functions', len(seen), 2)
    for fn, x, path in raises:
        ctx.fail('C08.eq-total', fn, f'`{core.src(x)[:70]}` is reachable from the equality of operables ({" -> ".join(path)}): `==` against such a value raises instead of answering False', x, key=f'eq-raises:{fn.qual}:{core.call_tail(x.exc) if isinstance(x.exc, ast.Call) else core.src(x.exc)}')
    if not raises:
        ctx.ok('C08.eq-total', eq, f'no raise reachable from Operable.__eq__ through {sorted(seen)}')


def stored_values(ctx) -> None:
    """What a DSL node stores *is* its identity: every element handed to the tuple constructor is a materialised value - never
    a generator (object identity, single use, unpicklable).  Generator functions of the family (those containing ``yield``) and
    generator expressions must be wrapped in tuple()/list()/frozenset() before being stored."""
    prog = ctx.prog
    gens = {fn.name for fn in prog.functions([m for m in prog.modules if m in FAMILY_MODULES]) if any(isinstance(x, (ast.Yield, ast.YieldFrom)) for x in core.walk_local(fn.node))}
    ctx.floor('C08.generators-known', len(gens), 1)
    n = 0
    for ci in prog.classes.values():
        if ci.module.name not in FAMILY_MODULES or '__new__' not in ci.methods:
            continue
        new = ci.methods['__new__']
        local = {}
        for a in core.walk_local(new):
            if isinstance(a, ast.Assign) and isinstance(a.targets[0], ast.Name):
                local[a.targets[0].id] = a.value
        for c in core.calls_in(new):
            if not (isinstance(c.func, ast.Attribute) and c.func.attr == '__new__' and isinstance(c.func.value, ast.Call) and core.call_name(c.func.value) == 'super'):
                continue
            for a in c.args[1:]:
                n += 1
                v = local.get(a.id, a) if isinstance(a, ast.Name) else a
                lazy = isinstance(v, ast.GeneratorExp) or (isinstance(v, ast.Call) and core.call_tail(v) in gens and core.call_tail(v) not in ('tuple', 'list', 'frozenset'))
                ctx.check(not lazy, 'C08.stored', ci.ref, f'{ci.qual} stores `{core.src(v)[:60]}`' + (' - a generator: identity by address, usable once, not picklable' if lazy else ''), a, key=f'{ci.qual}:stored:{core.src(a)[:30]}')
    ctx.floor('C08.stored', n, 20)
    # a container argument is stored as a tuple (frozenset): Window(f, [a]) and Window(f, (a,)) are one structure, and a list
    # would make the node unhashable
    m = 0
    for ci in prog.classes.values():
        if ci.module.name not in FAMILY_MODULES or '__new__' not in ci.methods:
            continue
        new = ci.methods['__new__']
        containers = {a.arg for a in new.args.args + new.args.kwonlyargs if a.annotation is not None and any(k in core.src(a.annotation) for k in ('Sequence', 'Iterable', 'Collection', 'list[', 'List['))}
        if not containers:
            continue
        local = {}
        for a in core.walk_local(new):
            if isinstance(a, ast.Assign) and len(a.targets) == 1 and isinstance(a.targets[0], ast.Name):
                local.setdefault(a.targets[0].id, []).append(a.value)
        for c in core.calls_in(new):
            if not (isinstance(c.func, ast.Attribute) and c.func.attr == '__new__' and isinstance(c.func.value, ast.Call) and core.call_name(c.func.value) == 'super'):
                continue
            for a in c.args[1:]:
                vals = local.get(a.id, [a]) if isinstance(a, ast.Name) else [a]
                if not (core.names_in(a) & containers or any(core.names_in(v) & containers for v in vals)):
                    continue
                m += 1
                frozen = all(isinstance(v, ast.Call) and isinstance(v.func, ast.Name) and v.func.id in ('tuple', 'frozenset') for v in vals) and not (isinstance(a, ast.Name) and a.id in containers and a.id not in local)
                ctx.check(frozen, 'C08.stored', ci.ref, f'{ci.qual} stores the container argument behind `{core.src(a)[:40]}` as a tuple / frozenset (its type must not take part in identity)', a, key=f'{ci.qual}:frozen:{core.src(a)[:30]}')
    ctx.floor('C08.stored-containers', m, 4)


# constructors that may put their arguments into another order before storing them (one reason each)
REORDER_OK: dict = {}


def declared_order(ctx) -> None:
    """A DSL node stores its constructor arguments in the order given: two statements/kinds differing only in the order of
    their terms are different structures (a struct lists its elements as declared, a selection its columns as selected).  No
    ``__new__`` of the family hands the tuple constructor something that went through sorted()/reversed()/set()/frozenset()
    (directly or through a local)."""
    prog = ctx.prog
    n = 0
    for ci in prog.classes.values():
        if ci.module.name not in FAMILY_MODULES or '__new__' not in ci.methods:
            continue
        new = ci.methods['__new__']
        args = new.args
        params = {a.arg for a in args.posonlyargs + args.args + args.kwonlyargs} | ({args.vararg.arg} if args.vararg else set()) | ({args.kwarg.arg} if args.kwarg else set())
        local: dict = {}
        for a in core.walk_local(new):
            if isinstance(a, ast.Assign) and len(a.targets) == 1 and isinstance(a.targets[0], ast.Name):
                local.setdefault(a.targets[0].id, []).append(a.value)
        for c in core.calls_in(new):
            f = c.func
            if not (isinstance(f, ast.Attribute) and f.attr == '__new__' and ((isinstance(f.value, ast.Call) and core.call_name(f.value) == 'super') or core.src(f.value) == 'tuple')):
                continue
            for a in c.args[1:]:
                seen, todo, exprs = set(), [a], []
                while todo:
                    e = todo.pop()
                    exprs.append(e)
                    for x in ast.walk(e):
                        if isinstance(x, ast.Name) and x.id in local and x.id not in seen:
                            seen.add(x.id)
                            todo.extend(local[x.id])
                n += 1
                bad = [x for e in exprs for x in ast.walk(e) if ((isinstance(x, ast.Call) and isinstance(x.func, ast.Name) and x.func.id in ('sorted', 'reversed', 'set', 'frozenset')) or isinstance(x, ast.SetComp)) and (core.names_in(x) & (params | seen))]
                bad = [x for x in bad if f'{ci.ref}:{core.src(x)}' not in REORDER_OK]
                ctx.check(not bad, 'C08.order', ci.ref, f'{ci.qual} stores `{core.src(a)[:50]}` in the order it was given' + (f' (re-ordered by `{core.src(bad[0])[:60]}`)' if bad else ''), bad[0] if bad else a, key=f'{ci.qual}:order:{core.src(a)[:30]}')
    ctx.floor('C08.order', n, 20)


def structure(ctx) -> None:
    prog = ctx.prog
    stored_values(ctx)
    fam = [m for m in prog.modules if m in FAMILY_MODULES]
    n = shared.r_operand(ctx, list(prog.functions(fam)))
    ctx.floor('R-OPERAND', n, 25)
    n = shared.r_fieldpos(ctx, [c for c in prog.classes.values() if c.module.name in FAMILY_MODULES])
    ctx.floor('R-FIELDPOS', n, 20)
    shared.r_paramflow(ctx, list(prog.functions(fam)))
    no_call_memo(ctx)
    ne_pairing(ctx)
    ctx.floor('R-REBUILD', shared.r_rebuild(ctx, [c for c in prog.classes.values() if c.module.name in FAMILY_MODULES]), 3)
    class_exact_eq(ctx)
    declared_order(ctx)


def class_exact_eq(ctx) -> None:
    """Equality of the value family is decided between objects of the *same* class: an ``__eq__`` that admits the other operand
    by ``isinstance`` / ``issubclass`` (or compares nothing about the class) makes a kind equal to its sub-kind in one or both
    directions - Date() == Timestamp() - and everything built on kind equality (operand checks of comparisons, set
    operations, schema equality) accepts the mixed pair.  ``kind.py``: every ``__eq__`` names ``__class__`` on both sides."""
    prog = ctx.prog
    n = 0
    for fn in prog.functions(['forml.io.dsl._struct.kind']):
        if fn.name != '__eq__':
            continue
        n += 1
        text = core.src(fn.node)
        loose = [c for c in core.walk_local(fn.node) if isinstance(c, ast.Call) and isinstance(c.func, ast.Name) and c.func.id in ('isinstance', 'issubclass')]
        delegates = any(isinstance(c, ast.Call) and isinstance(c.func, ast.Attribute) and c.func.attr == '__eq__' for c in core.walk_local(fn.node))
        exact = ('other.__class__' in text and 'self.__class__' in text) or delegates
        ctx.check(exact and not loose, 'C08.class-exact', fn, f'{fn.qual} compares the classes of both operands exactly (no isinstance/issubclass admission)', loose[0] if loose else fn.node, key=f'exact:{fn.qual}')
    ctx.floor('C08.class-exact', n, 2)


def no_call_memo(ctx) -> None:
    """The DSL memoises per *object* (``cached_property``), never per *call*: ``lru_cache``/``cache`` on a function of the value
    family hashes its arguments - array and map literals are unhashable (a conforming statement would raise TypeError), and a
    hit is decided by hash-then-eq of operands whose ``==`` builds expressions."""
    prog = ctx.prog
    n = 0
    for fn in prog.functions([m for m in prog.modules if m in FAMILY_MODULES]):
        n += 1
        memo = [d for d in core.decorator_names(fn.node) if d.split('.')[-1] in ('lru_cache', 'cache')]
        ctx.check(not memo, 'C08.call-memo', fn, f'{fn.qual} is memoised per call ({memo}): its arguments are DSL values / native literals (unhashable arrays and maps raise, hash-equal operands alias)', fn.node, key=f'memo:{fn.qual}')
    ctx.floor('C08.call-memo', n, 100)


def ne_pairing(ctx) -> None:
    """A tuple-backed class that defines ``__eq__`` defines ``__ne__`` with it (itself or an in-repo ancestor below the one that
    brought the tuple in): otherwise ``!=`` is ``tuple.__ne__`` - element-wise, blind to whatever ``__eq__`` adds (the source
    type, the alias) - and ``a == b`` and ``a != b`` can both be False."""
    prog = ctx.prog
    n = 0
    for ci in [c for c in prog.classes.values() if c.module.name in FAMILY_MODULES]:
        if '__eq__' not in ci.methods:
            continue
        tupled = any(b.split('.')[-1] in ('tuple', 'NamedTuple', 'namedtuple') for c in ci.mro_classes() for b in c.external_bases()) or any(isinstance(b, ast.Call) and (core.call_name(b) or '').endswith('namedtuple') for c in ci.mro_classes() for b in c.node.bases)
        if not tupled:
            continue
        n += 1
        got = ci.lookup('__ne__')
        ctx.check(got is not None, 'C08.ne-pairing', ci.ref, f'{ci.qual} defines __eq__ over a tuple base but no __ne__ is defined in the class hierarchy: `!=` falls back to tuple.__ne__', ci.methods['__eq__'], key=f'ne:{ci.qual}')
    ctx.floor('C08.ne-pairing', n, 1)


def run(ctx) -> None:
    # a generator over terms/features yields for each element what that element says (Ordering.make, dissect, ...)
    ctx.floor('R-ITERCARRIED', shared.r_itercarried(ctx, ctx.prog.functions([m for m in ctx.prog.modules if m.startswith(('forml.io.dsl',))])), 2)
    tenv = types.TypeEnv(ctx.prog)
    structure(ctx)
    eq_total(ctx)
    r_memokey(ctx)
    r_cachedep(ctx)
    native_identity(ctx)
    r_hasheq(ctx)
    r_eqhash(ctx)
    singletons(ctx)
    r_pickle(ctx)
    identity_repr(ctx, tenv)
    cache_census(ctx)
    shared.argname_scope(ctx, ('forml.io.dsl._struct',), floor=2)
