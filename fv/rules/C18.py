"""C18 - persisted metadata and keys read back exactly as written (DESIGN.md section 4/C18)."""
from __future__ import annotations

import ast
import re

from .. import calls, cfg, core, types
from . import shared
from . import C05, C08

EXPLANATION = (
    'Static decision of the structural clauses of C18: (1) writer/reader table agreement - the sections and keys of the '
    'literal written by Tag.dumps are exactly those read by Tag.loads, each read value is bound to the constructor keyword of '
    'its own name in the mode class of its own section, a key whose written value may be None (Optional annotation; the TOML '
    'encoder omits None) is read with .get(), states are written as str and read through uuid.UUID in the same order; the '
    'Manifest template placeholders = substitute() keywords = attributes read back, bound to the constructor parameters of '
    'the same meaning; (2) keys - Release.Key inherits its ordering from packaging Version and defines no comparison of its '
    'own, Generation.Key is an int with MIN = 1 rejecting < MIN and non-integers with Invalid, next = self + 1, listings are '
    'sorted(set()) with last = maximum; (3) R-PICKLE for Tag, Manifest, Package, Artifact. Round trips of particular ordinal '
    'values through TOML and package install equivalence are not decided.'
)
ASSUMPTIONS = ['toml.dumps omits None values and writes empty sections; toml.loads returns the written scalars unchanged']
MANIFEST = {
    'level': 'Exhaustive static agreement check between each writer and its reader (every section/key/placeholder), plus '
             'class-table rules for the key types. A round-trip defect is a key the reader demands but the writer may omit, '
             'or a crossed binding - both visible by comparing the two tables, for all field values at once.',
    'note': 'Trusted: stdlib ast, toml omitting None, packaging.version ordering. Not decided: value-level round trips, '
            'installing a package yields equal components.',
    'technique': 'static analysis: writer/reader table extraction and agreement, annotation-driven optional-read rule, '
                 'class-table/MRO rules for key classes, constructor-arity vs __getnewargs__ audit (R-PICKLE)',
}

MINOR = C05.MINOR
MAJOR = C05.MAJOR
DIST = 'forml.project._distribution'
BODY = 'forml.project._body'


def tag_tables(ctx) -> None:
    prog = ctx.prog
    tenv = types.TypeEnv(prog)
    tag = prog.cls(f'{MINOR}:Tag')
    dumps, loads = prog.func(f'{tag.ref}.dumps'), prog.func(f'{tag.ref}.loads')
    lit = next((n for n in ast.walk(dumps.node) if isinstance(n, ast.Dict) and any(isinstance(k, ast.Constant) and k.value == 'states' for k in n.keys)), None)
    if lit is None:
        raise core.AnalysisError('Tag.dumps literal not found')
    written: dict[tuple[str, str], ast.AST] = {}
    sections = []
    for k, v in zip(lit.keys, lit.values):
        if isinstance(v, ast.Dict):
            sections.append(k.value)
            for kk, vv in zip(v.keys, v.values):
                written[(k.value, kk.value)] = vv
        elif isinstance(v, ast.Call) and isinstance(v.func, ast.Name) and v.keywords and not v.args:
            # section built by a local helper: section(timestamp=..., ordinal=...)
            helper = next((n for n in ast.walk(dumps.node) if isinstance(n, core.FUNC) and n.name == v.func.id), None)
            if helper is None:
                continue
            sections.append(k.value)
            for kw in v.keywords:
                written[(k.value, kw.arg)] = kw.value
            for comp in [n for n in ast.walk(helper) if isinstance(n, ast.DictComp)]:
                for g in comp.generators:
                    for cond in g.ifs:
                        txt = core.src(cond)
                        okc = bool(re.fullmatch(r'\w+ is not None', txt))
                        ctx.check(okc, 'C18.tag-table', dumps, f'a section helper may omit only absent (None) values; the filter `if {txt}` also drops present falsy values (ordinal 0, score 0.0, empty string) which then read back as None', cond, key=f'filter:{k.value}')
    ctx.floor('C18.tag-keys', len(written), 2)
    # reads in loads: meta[section][key] or meta[section].get(key), bound to keyword of a call cls.<Mode>(...)
    reads: dict[tuple[str, str], tuple[str, str, str, ast.AST]] = {}
    for call in core.calls_in(loads.node):
        cname = core.call_name(call) or ''
        for kw in call.keywords:
            v = kw.value
            sec = key = how = None
            if isinstance(v, ast.Call) and isinstance(v.func, ast.Attribute) and v.func.attr == 'get' and isinstance(v.func.value, ast.Subscript) and v.args and isinstance(v.args[0], ast.Constant):
                sec, key, how = core.src(v.func.value.slice).strip("'\""), v.args[0].value, 'get'
            elif isinstance(v, ast.Subscript) and isinstance(v.value, ast.Subscript) and isinstance(v.slice, ast.Constant):
                sec, key, how = core.src(v.value.slice).strip("'\""), v.slice.value, 'subscript'
            if sec is not None:
                reads[(sec, key)] = (kw.arg, how, cname, v)
    for (sec, key), wv in written.items():
        if (sec, key) not in reads:
            ctx.fail('C18.tag-table', loads, f'Tag.dumps writes [{sec}].{key} but Tag.loads never reads it back', loads.node, key=f'unread:{sec}.{key}')
            continue
        kwname, how, cname, node = reads[(sec, key)]
        ctx.check(kwname == key, 'C18.tag-table', loads, f'[{sec}].{key} is read back into the keyword of its own name (got `{kwname}`)', node, key=f'kw:{sec}.{key}')
        ctx.check(cname.lower().endswith(sec), 'C18.tag-table', loads, f'[{sec}].{key} is read into the {sec} mode class ({cname})', node, key=f'mode:{sec}.{key}')
        # what was written comes from the same attribute
        ctx.check(core.src(wv) == f'self.{sec}.{key}', 'C18.tag-table', dumps, f'[{sec}].{key} is written from self.{sec}.{key} (got `{core.src(wv)}`)', wv, key=f'written:{sec}.{key}')
        # optional values are omitted by the encoder: must be read with .get
        mode = prog.cls(f'{tag.ref}.{sec.capitalize()}')
        init = mode.methods.get('__init__')
        optional = True
        if init is not None:
            for a in init.args.args:
                if a.arg == key:
                    t = tenv.from_annotation(a.annotation, mode.module, mode.qual)
                    optional = types.opt(t)
        if optional:
            ctx.check(how == 'get', 'C18.tag-table', loads, f'[{sec}].{key} may be None (omitted by the TOML encoder) and is read with .get() (read by {how})', node, key=f'optional:{sec}.{key}')
        else:
            ctx.ok('C18.tag-table', loads, f'[{sec}].{key} is mandatory', node)
    for (sec, key) in reads:
        ctx.check((sec, key) in written, 'C18.tag-table', loads, f'Tag.loads reads [{sec}].{key} which Tag.dumps writes', reads[(sec, key)][3], key=f'unwritten:{sec}.{key}')
    # states: str <-> UUID, same order (shared with C05)
    sv = next(v for k, v in zip(lit.keys, lit.values) if k.value == 'states')
    ctx.check('str(' in core.src(sv), 'C18.tag-table', dumps, 'states are written as strings', sv, key='states:str')
    skw = next((k.value for c in core.calls_in(loads.node) for k in c.keywords if k.arg == 'states'), None)
    ctx.check(skw is not None and 'uuid.UUID(' in core.src(skw) and "meta['states']" in core.src(skw), 'C18.tag-table', loads, 'states are read back through uuid.UUID', skw or loads.node, key='states:uuid')
    for node, srcname, fn in ((sv, 'self.states', dumps), (skw, "meta['states']", loads)):
        if node is not None:
            okp, why = shared.order_preserving(node, srcname)
            ctx.check(okp, 'C18.tag-table', fn, f'state order is preserved ({why})', node, key=f'states-order:{fn.name}')
    text = core.src(loads.node)
    ctx.check("raw.decode('utf-8')" in text and ".encode('utf-8')" in core.src(dumps.node), 'C18.tag-table', loads, 'same text encoding on both sides', loads.node, key='encoding')
    # replace() refuses unknown / mode attributes
    rep = prog.func(f'{tag.ref}.replace')
    ctx.check('issuperset(kwargs.keys())' in core.src(rep.node) and 'raise ValueError' in core.src(rep.node), 'C18.tag-table', rep, 'Tag.replace refuses attributes that are not plain tag fields', rep.node, key='replace')
    trg = prog.func(f'{tag.ref}.Mode.Proxy.trigger')
    ctx.check('self.replace(timestamp=' in core.src(trg.node), 'C18.tag-table', trg, 'trigger() stamps the mode of its own proxy', trg.node, key='trigger')


def manifest_tables(ctx) -> None:
    prog = ctx.prog
    man = prog.cls(f'{DIST}:Manifest')
    tmpl = man.assigns.get('TEMPLATE')
    if tmpl is None:
        raise core.AnalysisError('Manifest.TEMPLATE vanished')
    lines = [n.value for n in ast.walk(tmpl) if isinstance(n, ast.Constant) and isinstance(n.value, str) and '=' in n.value]
    table = {}
    for ln in lines:
        m = re.match(r'\s*([A-Z_]+)\s*=\s*"?\$\{?([a-z_]+)\}?"?\s*$', ln)
        if m:
            table[m.group(1)] = m.group(2)
    ctx.floor('C18.manifest-lines', len(table), 4)
    write, read = prog.func(f'{man.ref}.write'), prog.func(f'{man.ref}.read')
    sub = next((c for c in core.calls_in(write.node) if isinstance(c.func, ast.Attribute) and c.func.attr == 'substitute'), None)
    if sub is None:
        raise core.AnalysisError('Manifest.write: substitute call not found')
    kws = {k.arg: k.value for k in sub.keywords}
    ctx.check(set(kws) == set(table.values()), 'C18.manifest', write, f'template placeholders {sorted(table.values())} = substitute keywords {sorted(kws)}', sub, key='placeholders')
    for ph, val in kws.items():
        ctx.check(f'self.{ph}' in core.src(val), 'C18.manifest', write, f'placeholder ${ph} is filled from self.{ph}', val, key=f'fill:{ph}')
    new = man.methods['__new__']
    params = [a.arg for a in new.args.args[1:]] + ([new.args.kwarg.arg] if new.args.kwarg else [])
    ctor = next((c for c in core.calls_in(read.node) if core.src(c.func) == 'cls'), None)
    if ctor is None:
        raise core.AnalysisError('Manifest.read: constructor call not found')
    bound = [core.src(a) for a in ctor.args] + [core.src(k.value) for k in ctor.keywords if k.arg is None]
    for i, expr in enumerate(bound):
        attr = expr.split('.')[-1]
        want = params[i] if i < len(params) else None
        ctx.check(table.get(attr) == want, 'C18.manifest', read, f'module.{attr} (written from ${table.get(attr)}) is read back as constructor parameter `{want}`', ctor, key=f'read:{attr}')
    ctx.check(len(bound) == len(table), 'C18.manifest', read, 'every written manifest attribute is read back', ctor, key='read:all')
    ctx.check('json.dumps(dict(self.modules))' in core.src(write.node), 'C18.manifest', write, 'the module map is written as a literal mapping', write.node, key='modules')
    ctx.check('Key(name)' in core.src(new) and 'Key(version)' in core.src(new), 'C18.manifest', man.ref, 'name and version are normalised to their key types', key='keys', loc=man.module.relpath)


def key_types(ctx) -> None:
    prog = ctx.prog
    rel = prog.cls(f'{MAJOR}:Release.Key')
    ext = rel.external_bases()
    ctx.check(any(b.endswith('Version') for b in ext), 'C18.keys', rel.ref, f'Release.Key derives its ordering from packaging Version (bases {ext})', key='release:base', loc=rel.module.relpath)
    own_cmp = [m for m in rel.methods if m in ('__lt__', '__le__', '__gt__', '__ge__', '__eq__', '__hash__', '_key', '__cmp__')]
    ctx.check(not own_cmp, 'C18.keys', rel.ref, f'Release.Key defines no comparison of its own ({own_cmp})', key='release:cmp', loc=rel.module.relpath)
    init = prog.func(f'{rel.ref}.__init__')
    ctx.check('InvalidVersion' in core.src(init.node) and 'raise self.Invalid' in core.src(init.node), 'C18.keys', init, 'a non PEP 440 release key is rejected with Invalid', init.node, key='release:invalid')
    gen = prog.cls(f'{MINOR}:Generation.Key')
    ctx.check('int' in gen.external_bases(), 'C18.keys', gen.ref, 'Generation.Key is an int (natural ordering)', key='generation:int', loc=gen.module.relpath)
    ctx.check(isinstance(gen.assigns.get('MIN'), ast.Constant) and gen.assigns['MIN'].value == 1, 'C18.keys', gen.ref, 'generation numbering starts at 1', key='generation:min', loc=gen.module.relpath)
    new = prog.func(f'{gen.ref}.__new__')
    conds = [(core.src(t).replace(' ', ''), pol) for r in core.walk_local(new.node) if isinstance(r, ast.Raise) for t, pol in cfg.guards(r, new.node)]
    ctx.check(any(c == 'instance<cls.MIN' and pol for c, pol in conds), 'C18.keys', new, 'keys below MIN are rejected', new.node, key='generation:natural')
    handlers = [h for h in ast.walk(new.node) if isinstance(h, ast.ExceptHandler)]
    ctx.check(any('ValueError' in core.src(h.type) and any(isinstance(s, ast.Raise) and 'Invalid' in core.src(s) for s in h.body) for h in handlers), 'C18.keys', new, 'non-integer keys are rejected with Invalid', new.node, key='generation:integer')
    own_cmp = [m for m in gen.methods if m in ('__lt__', '__le__', '__gt__', '__ge__', '__eq__', '__hash__')]
    ctx.check(not own_cmp, 'C18.keys', gen.ref, f'Generation.Key defines no comparison of its own ({own_cmp})', key='generation:cmp', loc=gen.module.relpath)
    lst = prog.func(f'{C05.DIRECTORY}:Level.Listing.__new__')
    ctx.check('sorted(set(items))' in core.src(lst.node), 'C18.keys', lst, 'listings are sorted and duplicate-free', lst.node, key='listing')
    last = prog.func(f'{C05.DIRECTORY}:Level.Listing.last')
    ctx.check('return self[-1]' in core.src(last.node) or 'return max(self)' in core.src(last.node), 'C18.keys', last, '"latest" is the maximum', last.node, key='last')
    nxt = prog.func(f'{gen.ref}.next')
    ctx.check('self + 1' in core.src(nxt.node), 'C18.keys', nxt, 'next generation key = self + 1', nxt.node, key='next')


def listing_keys(ctx) -> None:
    """Every Level.list converts each registry item with the key type of the listed level before sorting (raw registry
    items - e.g. strings - would sort lexicographically, keep duplicates and skip key validation)."""
    prog = ctx.prog
    want = {
        f'{C05.CASE}:Project.list': ('releases', 'Release.Key'),
        f'{MAJOR}:Release.list': ('generations', 'Generation.Key'),
    }
    root = 'forml.io.asset._directory.root:Directory.list'
    if prog.has_func(root):
        want[root] = ('projects', 'Project.Key')
    for ref, (listing, key) in want.items():
        fn = prog.func(ref)
        ret = next((r for r in core.walk_local(fn.node) if isinstance(r, ast.Return)), None)
        if not (ret is not None and isinstance(ret.value, ast.Call) and ret.value.args and isinstance(ret.value.args[0], (ast.GeneratorExp, ast.ListComp))):
            ret = next((r for r in core.walk_local(fn.normal().node) if isinstance(r, ast.Return)), None)  # an accumulating loop or a temporary
        ok = False
        if ret is not None and isinstance(ret.value, ast.Call) and core.src(ret.value.func) == 'self.Listing' and ret.value.args:
            arg = ret.value.args[0]
            if isinstance(arg, (ast.GeneratorExp, ast.ListComp)) and len(arg.generators) == 1:
                g = arg.generators[0]
                conv = arg.elt
                ok = isinstance(conv, ast.Call) and (core.dotted(conv.func) or '').endswith(key) and [core.src(a) for a in conv.args] == [core.src(g.target)] and f'self.registry.{listing}(' in core.src(g.iter)
        ctx.check(ok, 'C18.keys', fn, f'{ref.split(":")[1]} converts every registry item with {key} before building the sorted, duplicate-free listing', fn.node, key='list:key-conversion')


IO_CALLS = {'open', 'read_bytes', 'read_text', 'isolated', 'load', 'loads', 'iterdir', 'exists', 'listdir', 'glob', 'stat', 'is_file', 'is_dir', 'import_module'}


def io_caches(ctx) -> None:
    """A memoised function must not read mutable storage: the second read after a write would return the first content."""
    prog = ctx.prog
    n = 0
    for fn in prog.functions([m for m in prog.modules if m.startswith(('forml.project', 'forml.io.asset', 'forml.provider.registry', 'forml.setup'))]):
        decos = core.decorator_names(fn.node)
        if not any(d.split('.')[-1] in ('lru_cache', 'cache') for d in decos):
            continue  # cached_property is a per-instance cache bound to the lifetime of one reader object
        n += 1
        io = sorted({core.call_tail(c) for c in core.calls_in(fn.node, deep=True) if core.call_tail(c) in IO_CALLS})
        allowed = fn.ref.endswith('_directory:Cache.__call__')  # wraps only immutable committed content (C05 R-CACHE)
        ctx.check(not io or allowed, 'R-CACHE', fn, f'memoised `{fn.qual}` reads storage ({io}): what is read back after a later write would be the cached earlier content', fn.node, key=f'io-cache:{fn.qual}')
    ctx.floor('R-CACHE.io', n, 5)


def pickling(ctx) -> None:
    prog = ctx.prog
    n = 0
    for ref in (f'{MINOR}:Tag', f'{DIST}:Manifest', f'{DIST}:Package', f'{BODY}:Artifact'):
        ci = prog.cls(ref)
        new = ci.methods.get('__new__')
        if new is None:
            raise core.AnalysisError(f'{ref}.__new__ vanished')
        n += 1
        params = [a.arg for a in new.args.args[1:]]
        fields = calls.namedtuple_fields(ci) or []
        sup = [c for c in core.calls_in(new) if isinstance(c.func, ast.Attribute) and c.func.attr == '__new__']
        stored = None
        if sup:
            # positional values after cls, plus keywords naming the remaining fields (each field once)
            given = fields[:max(len(sup[-1].args) - 1, 0)] + [k.arg for k in sup[-1].keywords]
            stored = len(given) if len(set(given)) == len(given) and all(g in fields for g in given) and len(sup[-1].args) - 1 <= len(fields) else len(sup[-1].args) - 1
        ctx.check(stored == len(fields), 'R-PICKLE', ci.ref, f'{ci.name}.__new__ stores {stored} values for fields {fields}', key=f'{ci.name}:fields', loc=f'{ci.module.relpath}:{new.lineno}')
        transforms = new.args.kwarg is not None or len(params) != len(fields)
        own = [m for m in ('__getnewargs__', '__getnewargs_ex__', '__reduce__') if m in ci.methods]
        if transforms:
            ctx.check(bool(own), 'R-PICKLE', ci.ref, f'{ci.name}.__new__({", ".join(params)}{", **" + new.args.kwarg.arg if new.args.kwarg else ""}) differs from the stored tuple and defines {own}', key=f'{ci.name}:getnewargs', loc=f'{ci.module.relpath}:{new.lineno}')
            if '__getnewargs_ex__' in ci.methods:
                g = ci.methods['__getnewargs_ex__']
                ret = next((s for s in g.body if isinstance(s, ast.Return)), None)
                ok = ret is not None and isinstance(ret.value, ast.Tuple) and len(ret.value.elts) == 2 and isinstance(ret.value.elts[0], ast.Tuple) and [core.src(e) for e in ret.value.elts[0].elts] == [f'self.{p}' for p in params]
                ctx.check(ok, 'R-PICKLE', ci.ref, f'{ci.name}.__getnewargs_ex__ returns the positional constructor arguments {params} in order plus the keyword map', key=f'{ci.name}:getnewargs-order', loc=f'{ci.module.relpath}:{g.lineno}')
            elif '__getnewargs__' in ci.methods:
                g = ci.methods['__getnewargs__']
                text = core.src(g)
                ctx.check(all(f'self.{p}' in text for p in params), 'R-PICKLE', ci.ref, f'{ci.name}.__getnewargs__ returns the constructor arguments {params}', key=f'{ci.name}:getnewargs-order', loc=f'{ci.module.relpath}:{g.lineno}')
        else:
            ctx.ok('R-PICKLE', ci.ref, f'{ci.name}: constructor parameters = stored fields (default namedtuple pickling applies)')
    ctx.floor('R-PICKLE', n, 4)


def key_gate(ctx) -> None:
    """Every way out of Generation.Key.__new__ with a key passes the natural-number gate: each return hands out the *checked*
    instance and stands behind ``instance < cls.MIN`` being false (no early return for some input representation)."""
    prog = ctx.prog
    new = prog.func(f'{MINOR}:Generation.Key.__new__')
    rets = [r for r in core.walk_local(new.node) if isinstance(r, ast.Return)]
    ctx.floor('C18.key-gate', len(rets), 1)
    for r in rets:
        g = cfg.cguards(r, new.node, siblings=True)
        ok = r.value is not None and core.src(r.value) == 'instance' and ('instance < cls.MIN', False) in g
        ctx.check(ok, 'C18.keys', new, f'a generation key is handed out only after the natural-number check (return `{core.src(r.value) if r.value else None}` under {g})', r, key='generation:gate')
    asg = [a for a in core.walk_local(new.node) if isinstance(a, ast.Assign) and core.src(a.targets[0]) == 'instance']
    ctx.check(len(asg) == 1 and core.src(asg[0].value) == f'super().__new__(cls, str({new.param_names[1]}))', 'C18.keys', new, 'the key is parsed from its textual form (so that "1", 1 and Key(1) are the same key, floats and garbage are refused)', asg[0] if asg else new.node, key='generation:parse')


def package_content(ctx) -> None:
    """The written manifest is the only manifest of a package: the source tree is archived under tree-relative names, and the
    filter that skips the tree's own descriptor judges the very name the entry gets in the archive."""
    prog = ctx.prog
    create = prog.func(f'{DIST}:Package.create')
    wa = create.nested('writeall').inlined()
    valid = create.nested('writeall').nested('valid')
    writes = [c for c in core.calls_in(wa.node) if isinstance(c.func, ast.Attribute) and c.func.attr == 'write' and len(c.args) == 2]
    valids = [c for c in core.calls_in(wa.node) if core.src(c.func) == 'valid' and len(c.args) == 1]
    ok = len(writes) == 1 and len(valids) == 1 and core.src(valids[0].args[0]) == core.src(writes[0].args[1])
    ctx.check(ok, 'C18.package', wa, f'the entry filter judges the archive name of the entry (valid({core.src(valids[0].args[0]) if valids else None}) vs write(..., {core.src(writes[0].args[1]) if writes else None}))', writes[0] if writes else wa.node, key='writeall:filter-vs-arcname')
    if writes:
        arc = core.src(writes[0].args[1])
        ctx.check(arc.endswith('.relative_to(root)') and core.src(writes[0].args[0]) == arc[:-len('.relative_to(root)')], 'C18.package', wa, 'entries are archived under their tree-relative names', writes[0], key='writeall:relative')
        g = cfg.cguards(writes[0], wa.node, siblings=True)
        ctx.check((f'valid({arc})', True) in g, 'C18.package', wa, f'only valid entries are written (guards {g})', writes[0], key='writeall:guard')
    ret = next((r for r in core.walk_local(valid.node) if isinstance(r, ast.Return)), None)
    f = valid.param_names[0]
    ctx.check(ret is not None and f'{f} != descriptor' in core.src(ret.value) and isinstance(ret.value, ast.BoolOp) and isinstance(ret.value.op, ast.And), 'C18.package', valid, 'the tree\'s own descriptor is skipped', valid.node, key='valid:descriptor')
    # the whole tree is archived: the walk starts at the source root, recurses into every valid directory, writes every valid
    # file; byte-code caches and dist-info directories are the only other exclusions
    wa0 = create.nested('writeall')
    rec = [c for c in core.calls_in(wa0.node) if core.src(c.func) == 'writeall']
    okr = len(rec) == 1 and [core.src(a) for a in rec[0].args] == ['item', 'archive', 'root']
    if okr:
        g = cfg.cguards(rec[0], wa0.node, siblings=True)
        okr = ('item.is_dir()', True) in g or ('not item.is_dir()', False) in g or ('item.is_dir()', True) in [(t.replace('not ', ''), not p_) for t, p_ in g if t.startswith('not ')]
    ctx.check(okr, 'C18.package', wa0, 'directories are descended into (recursively, with the same archive and root)', rec[0] if rec else wa0.node, key='writeall:recursion')
    top = [c for c in core.calls_in(create.node, deep=False) if core.src(c.func) == 'writeall']
    ctx.check(len(top) == 1 and [core.src(a) for a in top[0].args] == ['pathlib.Path(source)', 'package'], 'C18.package', create, 'the walk starts at the source root and writes into the package being created', top[0] if top else create.node, key='create:walk')
    if ret is not None and isinstance(ret.value, ast.BoolOp):
        terms = sorted(core.src(v) for v in ret.value.values)
        ctx.check(terms == sorted([f"{f}.name != '__pycache__'", f"{f}.suffix != '.dist-info'", f'{f} != descriptor']), 'C18.package', valid, f'the exclusions are exactly byte-code caches, dist-info and the descriptor ({terms})', ret, key='valid:terms')
    text = core.src(create.node)
    ctx.check("descriptor = Manifest.path('.')" in text and 'package.write(Manifest.path(temp), descriptor)' in text, 'C18.package', create, 'the freshly written manifest is stored under the (relative) descriptor name the filter skips', create.node, key='create:descriptor')


def component_names(ctx) -> None:
    """A component module is taken as absolute only when it lies *inside* the package: the prefix test includes the dot, so a
    sibling whose name merely starts with the package name (package ``churn``, module ``churn_source``) stays relative."""
    prog = ctx.prog
    load = prog.func(f'{BODY}:Components.load')
    sw = [c for c in core.calls_in(load.node) if isinstance(c.func, ast.Attribute) and c.func.attr == 'startswith' and core.src(c.func.value) == 'name' and len(c.args) == 1 and 'err' not in core.src(c.args[0])]
    ctx.floor('C18.components', len(sw), 1)
    # ... and is imported from the artifact's own directory: the loader call carries the `path` the components were asked for
    # (without it the module resolves through sys.path - with two releases installed, the first one found serves both)
    loads = [c for c in core.calls_in(load.node) if core.src(c.func) == 'setup.load']
    ctx.floor('C18.components.load', len(loads), 1)
    for c in loads:
        bound = [core.src(a) for a in c.args] + [f'{k.arg}={core.src(k.value)}' for k in c.keywords]
        ctx.check(len(c.args) >= 3 and core.src(c.args[2]) == 'path' or any(k.arg == 'path' and core.src(k.value) == 'path' for k in c.keywords), 'C18.components', load, f'setup.load imports the component from the requested path ({bound})', c, key='load:path')
    for c in sw:
        arg = c.args[0]
        defs = [a.value for a in core.walk_local(load.node) if isinstance(a, ast.Assign) and core.src(a.targets[0]) == core.src(arg)] if isinstance(arg, ast.Name) else [arg]

        def dotted_end(e: ast.AST) -> bool:
            if isinstance(e, ast.IfExp):
                return dotted_end(e.body) and (dotted_end(e.orelse) or core.is_const(e.orelse, ''))
            if isinstance(e, ast.JoinedStr):
                return bool(e.values) and isinstance(e.values[-1], ast.Constant) and str(e.values[-1].value).endswith('.')
            if isinstance(e, ast.BinOp) and isinstance(e.op, ast.Add):
                return isinstance(e.right, ast.Constant) and str(e.right.value).endswith('.')
            return False

        ctx.check(bool(defs) and all(dotted_end(d) for d in defs), 'C18.components', load, f'the "already absolute" test compares against the package prefix *including the dot* (`{core.src(arg)}` = {[core.src(d) for d in defs]})', c, key='load:prefix-dot')


def level_key(ctx) -> None:
    """An explicit level key is always validated: Level.__init__ converts whatever is not None through the level's Key type
    (0, '' and other falsy spellings are *invalid keys*, not "no key" - they must be refused, never resolved to the latest)."""
    prog = ctx.prog
    init = prog.func(f'{C05.DIRECTORY}:Level.__init__')
    shared.stmt_under(ctx, 'C18.keys', init, 'key = self.Key(key)', [('key is not None', True)], 'every given key goes through the key constructor', 'Level.__init__:convert', inlined=False, siblings=False)
    st = [a for a in core.walk_local(init.node) if isinstance(a, (ast.Assign, ast.AnnAssign)) and core.src(a.target if isinstance(a, ast.AnnAssign) else a.targets[0]) == 'self._key']
    ctx.check(len(st) == 1 and core.src(st[0].value) == 'key' and not cfg.cguards(st[0], init.node), 'C18.keys', init, 'and is stored as converted', st[0] if st else init.node, key='Level.__init__:store')


def install_guard(ctx) -> None:
    """"already installed" is decided by the *whole* manifest read back from the target (name, version, package and module map):
    a different build under the same name/version must replace the stale tree."""
    prog = ctx.prog
    un = prog.func(f'{DIST}:Package.install').nested('uninstalled').inlined()
    rets = [r for r in core.walk_local(un.node) if isinstance(r, ast.Return) and core.is_const(r.value, False)]
    ctx.floor('C18.install', len(rets), 1)
    for r in rets:
        g = cfg.cguards(r, un.node)
        ok = g in ([('Manifest.read(path) == self.manifest', True)], [('self.manifest == Manifest.read(path)', True)])
        ctx.check(ok, 'C18.package', un, f'the existing installation is kept only when its manifest equals the package manifest as a whole (guards {g})', r, key='install:same-manifest')
    un0 = prog.func(f'{DIST}:Package.install').nested('uninstalled')
    hs = [h for h in ast.walk(un0.node) if isinstance(h, ast.ExceptHandler)]
    ctx.check(len(hs) == 1 and core.src(hs[0].type) == 'forml.InvalidError' and not any(isinstance(x, ast.Return) for x in ast.walk(hs[0])), 'C18.package', un0, 'an unreadable manifest at the target only falls through to the prune (no handler returns early: whatever is there is removed before the new content lands)', hs[0] if hs else un0.node, key='install:handlers')
    rt = [r for r in core.walk_local(un0.node) if isinstance(r, ast.Return) and core.is_const(r.value, True)]
    g0 = cfg.CFG(un0.node)
    prune = [st for st in g0.statements() if isinstance(st, ast.If) and core.src(st.test) == 'path.exists()']
    ctx.check(len(rt) == 1 and len(prune) == 1 and g0.dominates(prune[0], rt[0]), 'C18.package', un0, 'the "go ahead and install" answer is given only after the existing content was checked and pruned', rt[0] if rt else un0.node, key='install:prune-first')
    inst = prog.func(f'{DIST}:Package.install')
    ct = [c for c in core.calls_in(inst.node) if core.call_tail(c) == 'copytree']
    ctx.check(all(not c.keywords and [core.src(a) for a in c.args] == ['self.path', 'path'] for c in ct) and len(ct) == 1, 'C18.package', inst, 'a directory package is copied into a fresh location (no merging into existing content)', ct[0] if ct else inst.node, key='install:copytree')
    ret = [r for r in inst.body if isinstance(r, ast.Return)]
    ctx.check(len(ret) == 1 and core.src(ret[0].value) == '_body.Artifact(path, self.manifest.package, **self.manifest.modules)', 'C18.package', inst, 'the artifact is described by the package\'s own manifest (package and module map)', inst.node, key='install:artifact')


def zip_safe(ctx) -> None:
    """A zip package is installed *as a zip file* only when every member can be used from inside one - python sources and
    byte code, which zipimport serves; anything else (data files a component reads relative to ``__file__``, native
    libraries) needs a real directory, so the package is extracted.  The as-is branch (``write_bytes`` of the package file)
    must stand under a universally quantified whitelist test over ``namelist()`` whose pattern admits .py/.pyc/.pyo only."""
    import re

    prog = ctx.prog
    inst = prog.func(f'{DIST}:Package.install')
    asis = [c for c in core.calls_in(inst.node) if isinstance(c.func, ast.Attribute) and c.func.attr == 'write_bytes']
    extract = [c for c in core.calls_in(inst.node) if isinstance(c.func, ast.Attribute) and c.func.attr == 'extractall']
    ctx.check(len(extract) >= 1, 'C18.package', inst, 'a zip package that is not zip-safe is extracted into a directory', inst.node, key='install:extract')
    ci = prog.cls(f'{DIST}:Package')
    for c in asis:
        ok = False
        why = 'no whitelist test found'
        for test, pol in cfg.guards(c, inst.node, siblings=False):
            t, p = test, pol
            while isinstance(t, ast.UnaryOp) and isinstance(t.op, ast.Not):
                t, p = t.operand, not p
            if not (isinstance(t, ast.Call) and isinstance(t.func, ast.Name) and t.func.id in ('all', 'any') and len(t.args) == 1 and isinstance(t.args[0], (ast.GeneratorExp, ast.ListComp)) and len(t.args[0].generators) == 1):
                continue
            gen = t.args[0]
            if 'namelist()' not in core.src(gen.generators[0].iter) or gen.generators[0].ifs:
                continue
            elt, neg = gen.elt, False
            while isinstance(elt, ast.UnaryOp) and isinstance(elt.op, ast.Not):
                elt, neg = elt.operand, not neg
            # all(match) held positively, or any(not match) held negatively
            universal = (t.func.id == 'all' and p and not neg) or (t.func.id == 'any' and not p and neg)
            if not (universal and isinstance(elt, ast.Call) and isinstance(elt.func, ast.Attribute) and elt.func.attr in ('search', 'match', 'fullmatch') and [core.src(a) for a in elt.args] == [core.src(gen.generators[0].target)]):
                why = f'`{core.src(test)[:60]}` is not a whitelist test of every member'
                continue
            const = elt.func.value.attr if isinstance(elt.func.value, ast.Attribute) else (elt.func.value.id if isinstance(elt.func.value, ast.Name) else None)
            pat = ci.assigns.get(const) if const else None
            if pat is None and const:
                pat = ci.module.assigns.get(const)
            if not (isinstance(pat, ast.Call) and core.call_name(pat) == 're.compile' and pat.args and isinstance(pat.args[0], ast.Constant) and isinstance(pat.args[0].value, str)):
                why = f'pattern constant `{const}` not found as a re.compile literal'
                continue
            try:
                rx = re.compile(pat.args[0].value)
            except re.error:
                why = 'pattern does not compile'
                continue
            fn_ = getattr(rx, elt.func.attr)
            admits = [m for m in ('pkg/mod.py', 'pkg/mod.pyc', 'pkg/mod.pyo') if fn_(m)]
            refuses = [m for m in ('pkg/columns.json', 'pkg/lib.so', 'pkg/data.csv', 'pkg/mod.pyx', 'pkg/mod.pyd', 'pkg/README', 'pkg/model.bin', 'pkg/py') if not fn_(m)]
            ok = len(admits) >= 1 and len(refuses) == 8
            why = f'pattern {pat.args[0].value!r} admits {admits}, refuses {refuses}'
        ctx.check(ok, 'C18.package', inst, f'the package file is installed as it is only when every member is a python source / byte code file ({why})', c, key='install:zip-safe')
    ctx.floor('C18.zip-safe', len(asis), 1)


def manifest_read(ctx) -> None:
    """Reading a manifest always imports the descriptor module afresh from the given path: the module is evicted from
    sys.modules on every way out (otherwise the next read - of another package - gets the first one's module back), and the
    manifest is built from that module's own four attributes."""
    prog = ctx.prog
    rd = prog.func(f'{DIST}:Manifest.read')
    tr = next((x for x in rd.body if isinstance(x, ast.Try)), None)
    fin = [core.src(x) for x in tr.finalbody] if tr is not None else []
    dels = [d for x in (tr.finalbody if tr is not None else []) for d in ast.walk(x) if isinstance(d, ast.Delete)]
    ctx.check(len(dels) == 1 and core.src(dels[0]) == 'del sys.modules[cls.MODULE]' and cfg.cguards(dels[0], rd.node) == [('cls.MODULE in sys.modules', True)], 'C18.manifest', rd, f'the descriptor module is evicted from sys.modules in a finally block ({fin})', tr or rd.node, key='read:evict')
    ctx.check('module = setup.isolated(cls.MODULE, path)' in core.src(rd.node) and 'cls(module.NAME, module.VERSION, module.PACKAGE, **module.MODULES)' in core.src(rd.node), 'C18.manifest', rd, 'the manifest is built from the isolated import of the descriptor at the given path', rd.node, key='read:fields')
    inst = prog.func(f'{DIST}:Package.install')
    sr = [st for st in inst.body if isinstance(st, ast.Expr) and core.src(st.value) == 'setup.search(path)']
    ctx.check(len(sr) == 1, 'C18.package', inst, 'the installed location is put on the module search path unconditionally (its components must be importable)', inst.node, key='install:search')


def run(ctx) -> None:
    # nothing is computed from a loop variable after its loop ran to completion (it would be the last element's value)
    shared.r_staleloop(ctx, ctx.prog.functions([m for m in ctx.prog.modules if m.startswith(('forml.io.asset', 'forml.project'))]))
    from . import C08
    manifest_read(ctx)

    C08.eqhash_agreement(ctx, ('forml.io.asset', 'forml.project'), floor=3)
    C05.gap_free(ctx)
    C05.key_paths(ctx)
    # a release equal under PEP 440 to an existing one ('1.0' / '1.0.0') is refused: the listing is a set of keys, two spellings
    # of one version share one key and one of the two packages becomes unreachable
    C05.monotonic_release(ctx)
    install_guard(ctx)
    zip_safe(ctx)
    level_key(ctx)
    key_gate(ctx)
    package_content(ctx)
    component_names(ctx)
    tag_tables(ctx)
    manifest_tables(ctx)
    key_types(ctx)
    listing_keys(ctx)
    io_caches(ctx)
    pickling(ctx)
    shared.argname_scope(ctx, ('forml.io.asset', 'forml.project._distribution', 'forml.project._body', 'forml.provider.registry.filesystem'), floor=2)
