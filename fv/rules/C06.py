"""C06 - feed reads return what the statement denotes over its own storage (DESIGN.md section 4/C06)."""
from __future__ import annotations

import ast

from .. import calls, casesplit, cfg, core, types
from . import shared

EXPLANATION = (
    'Static decision of the structural clauses of C06: (1) R-TABLE - the SQL translation tables of the alchemy parser '
    '(EXPRESSION, KIND, SET, ORDER) are total over the expression classes / primitive kinds / enum members they translate, '
    'every operator class maps to the python operator of its own `symbol`, named functions map to the SQL function of '
    'their own name, and no entry is a truthiness-forcing builtin (which makes parsing of any statement using it fail); '
    '(2) join flags - a complete case split of generate_join over all Join.Kind members yields the expected '
    '(isouter, full, swapped) flags; (3) push-down automaton discipline (R-EXACTLY-ONE) - on every non-raising path each '
    'visit_* of the parser pops exactly as many symbols as the base visitor descends into children and pushes exactly one, '
    'pops bind children in reverse order, a query is assembled in a fresh context; (4) independence - process-global mutable '
    'state consulted on the read path of feed readers is enumerated; every item must be a listed known finding; (5) '
    'R-TRUTHY / R-ELEMENT inside the parser. Semantic equality of the SQL with a reference evaluator is not decided.'
)
ASSUMPTIONS = [
    'sqlalchemy operator overloading maps python operators on column elements to the SQL operator of the same meaning',
    'sqlalchemy func.<name> renders the SQL function <name>',
]
MANIFEST = {
    'level': 'Exhaustive static table-agreement and case-split checks (every expression class, kind, enum member and join '
             'kind) plus path-counting over the CFG of every visit_* method and a census of process-global reader state. '
             'These are necessary conditions of "parsing never fails" and of the per-construct translation; they hold for '
             'every statement the grammar can build because they quantify over the grammar\'s constructors, not examples.',
    'note': 'Trusted: stdlib ast, the symbol attribute of each operator class as its meaning, sqlalchemy semantics. Not '
            'decided: equality of the SQL result with a reference evaluation on two engines, limit/offset/order semantics.',
    'technique': 'static analysis: translation-table extraction and totality/semantic agreement (R-TABLE), enum case split '
                 'with AST constant folding, CFG path counting (R-EXACTLY-ONE), shared-state census, typed truthiness lint',
}

ALCHEMY = shared.ALCHEMY
PARSER = 'forml.io.dsl.parser'
FRAME = shared.FRAME
SERIES = shared.SERIES
KIND = 'forml.io.dsl._struct.kind'

SET_EXPECT = {'UNION': {'union'}, 'INTERSECTION': {'intersect'}, 'DIFFERENCE': {'except_'}}
ORDER_EXPECT = {'ASCENDING': {'asc'}, 'DESCENDING': {'desc'}}
JOIN_EXPECT = {
    'INNER': (frozenset(), False),
    'LEFT': (frozenset({'isouter'}), False),
    'RIGHT': (frozenset({'isouter'}), True),
    'FULL': (frozenset({'full'}), False),
    'CROSS': (frozenset(), False),
}


def _table(parser: core.ClassInfo, name: str):
    node = parser.assigns.get(name)
    if node is None:
        raise core.AnalysisError(f'anchor vanished: alchemy.Parser.{name}')
    return shared.dict_entries(node)


def tables(ctx) -> None:
    prog = ctx.prog
    parser = prog.cls(f'{ALCHEMY}:Parser')
    loc = lambda n: f'{parser.module.relpath}:{getattr(n, "lineno", 0)}'
    # --- EXPRESSION: totality over concrete Expression classes exported by dsl.function
    fmod = prog.module('forml.io.dsl.function')
    expression = prog.cls(f'{SERIES}:Expression')
    window = prog.cls(f'{SERIES}:Window')
    exported = []
    for name in fmod.imports:
        res = prog.resolve(fmod, name)
        if isinstance(res, core.ClassInfo) and res.is_subclass_of(expression) and not res.is_subclass_of(window):
            exported.append(res)
    ctx.floor('C06.expression-classes', len(exported), 20)
    entries = _table(parser, 'EXPRESSION')
    mapped = {}
    for k, v in entries:
        res = prog.resolve(parser.module, core.dotted(k) or '', scope=parser.qual)
        if not isinstance(res, core.ClassInfo):
            ctx.fail('R-TABLE', parser.ref, f'EXPRESSION key `{core.src(k)}` does not resolve to an expression class', key=f'EXPRESSION[{core.src(k)}]', loc=loc(k))
            continue
        mapped[res.ref] = (res, v)
    for ci in sorted(exported, key=lambda c: c.name):
        ctx.check(ci.ref in mapped, 'R-TABLE', parser.ref, f'EXPRESSION is total: {ci.name} has a translation', key=f'EXPRESSION[{ci.name}] missing', loc=parser.module.relpath)
    for ref, (ci, v) in mapped.items():
        kind = shared.classify_translation(v)
        key = f'EXPRESSION[{ci.name}]'
        if kind.startswith('TRUTH-FORCING'):
            ctx.fail('R-TABLE', parser.ref, f'{key} = {core.src(v)} forces bool() of a SQL clause (TypeError at parse time for every statement using {ci.name})', key=key, loc=loc(v))
            continue
        sym = shared.class_symbol(ci)
        if sym in shared.SYMBOL_OPERATOR:
            ctx.check(kind in shared.SYMBOL_OPERATOR[sym], 'R-TABLE', parser.ref, f'{key} = {core.src(v)} implements operator {sym!r}', key=key, loc=loc(v))
        elif sym in ('IS NULL', 'NOT NULL'):
            text = core.src(v)
            want_not = sym == 'NOT NULL'
            is_null = isinstance(v, ast.Lambda) and 'None' in text and ('.is_(' in text) and not want_not
            not_null = isinstance(v, ast.Lambda) and 'None' in text and ('.is_not(' in text or '.isnot(' in text) and want_not
            ctx.check(is_null or not_null, 'R-TABLE', parser.ref, f'{key} = {text} implements {sym}', key=key, loc=loc(v))
        elif kind.startswith('func.'):
            ctx.check(kind.split('.')[-1] == ci.name.lower(), 'R-TABLE', parser.ref, f'{key} = {kind} is the SQL function named after the class', key=key, loc=loc(v))
        elif ci.name == 'Abs':
            ctx.check(kind in ('abs', 'func.abs'), 'R-TABLE', parser.ref, f'{key} = {core.src(v)} implements abs', key=key, loc=loc(v))
        elif ci.name == 'Cast':
            text = core.src(v)
            ctx.check(isinstance(v, ast.Lambda) and 'cast(' in text and 'KIND' in text, 'R-TABLE', parser.ref, f'{key} casts through the KIND table', key=key, loc=loc(v))
        else:
            ctx.ok('R-TABLE', parser.ref, f'{key} = {core.src(v)} (no semantic class known: presence only)')
        ctx.sample({'table': 'EXPRESSION', 'class': ci.name, 'symbol': sym, 'translation': core.src(v), 'class_of_translation': kind})
    # --- KIND: total over concrete primitive kinds
    primitive = prog.cls(f'{KIND}:Primitive')
    concrete = [c for c in prog.subclasses(primitive) if (c.metaclass or '') != 'abc.ABCMeta']
    ctx.floor('C06.primitive-kinds', len(concrete), 7)
    kinds = set()
    for k, v in _table(parser, 'KIND'):
        if isinstance(k, ast.Call):
            res = prog.resolve(parser.module, core.dotted(k.func) or '', scope=parser.qual)
            if isinstance(res, core.ClassInfo):
                kinds.add(res.ref)
    for c in concrete:
        ctx.check(c.ref in kinds, 'R-TABLE', parser.ref, f'KIND is total: {c.name}', key=f'KIND[{c.name}] missing', loc=parser.module.relpath)
    # --- SET / ORDER
    for tname, enum_ref, expect in (('SET', f'{FRAME}:Set.Kind', SET_EXPECT), ('ORDER', f'{SERIES}:Ordering.Direction', ORDER_EXPECT)):
        enum = prog.cls(enum_ref)
        members = casesplit.enum_members(enum)
        got = {}
        for k, v in _table(parser, tname):
            name = (core.dotted(k) or '').split('.')[-1]
            got[name] = v
        for m in members:
            if m not in expect:
                raise core.AnalysisError(f'new {enum_ref} member {m}: extend the expectation table')
            if m not in got:
                ctx.fail('R-TABLE', parser.ref, f'{tname} is total: {m} missing', key=f'{tname}[{m}] missing', loc=parser.module.relpath)
                continue
            last = (core.dotted(got[m]) or core.src(got[m])).split('.')[-1]
            ctx.check(last in expect[m], 'R-TABLE', parser.ref, f'{tname}[{m}] = {core.src(got[m])}', key=f'{tname}[{m}]', loc=loc(got[m]))
    # generate_expression / generate_set look the tables up with their own argument
    ge = prog.func(f'{ALCHEMY}:Parser.generate_expression')
    text = core.src(ge.node)
    ctx.check('self.EXPRESSION[expression](*arguments)' in text, 'R-TABLE', ge, 'generate_expression applies EXPRESSION[expression] to the arguments in order', ge.node, key='generate_expression')
    gs = prog.func(f'{ALCHEMY}:Parser.generate_set')
    gsr = [r for r in core.walk_local(gs.node) if isinstance(r, ast.Return)]
    l_, r_, k_ = gs.param_names[1:4]
    ctx.check(len(gsr) == 1 and core.src(gsr[0].value) == f'self.SET[{k_}]({l_}, {r_})', 'R-TABLE', gs, f'generate_set returns SET[kind](left, right): exactly the two operands, in order, under the operator of their own kind (`{core.src(gsr[0].value)[:80] if gsr else None}`)', gs.node, key='generate_set')


def join_flags(ctx) -> None:
    prog = ctx.prog
    fn = prog.func(f'{ALCHEMY}:Parser.generate_join')
    kind_enum = prog.cls(f'{FRAME}:Join.Kind')
    members = casesplit.enum_members(kind_enum)
    ctx.floor('C06.join-kinds', len(members), 5)
    for m in members:
        if m not in JOIN_EXPECT:
            raise core.AnalysisError(f'new Join.Kind member {m}: extend the expectation table')
        decide = casesplit.member_test(prog, fn, 'kind', f'{kind_enum.ref}.{m}')
        outcomes = set()
        for stmts, exit_ in casesplit.paths(fn.body, decide):
            if exit_ != 'return':
                continue
            flags: set[str] = set()
            names = {'left': 'left', 'right': 'right'}
            optsvar = None
            for s in stmts:
                if isinstance(s, ast.Assign) and len(s.targets) == 1:
                    t = s.targets[0]
                    if isinstance(t, ast.Name) and isinstance(s.value, ast.Dict):
                        optsvar = t.id
                        for k in s.value.keys:
                            if isinstance(k, ast.Constant) and k.value != 'onclause':
                                flags.add(k.value)
                    elif isinstance(t, ast.Subscript) and isinstance(t.value, ast.Name) and t.value.id == optsvar and isinstance(t.slice, ast.Constant):
                        if core.is_const(s.value, True):
                            flags.add(t.slice.value)
                        elif t.slice.value != 'onclause':
                            flags.add(f'{t.slice.value}={core.src(s.value)}')
                    elif isinstance(t, ast.Tuple) and isinstance(s.value, ast.Tuple):
                        tn = [core.src(e) for e in t.elts]
                        vn = [core.src(e) for e in s.value.elts]
                        if set(tn) == {'left', 'right'}:
                            new = {a: names.get(b, b) for a, b in zip(tn, vn)}
                            names.update(new)
            ret = stmts[-1].value
            swapped = None
            if isinstance(ret, ast.Call) and isinstance(ret.func, ast.Attribute) and ret.func.attr in ('join', 'outerjoin'):
                recv = names.get(core.src(ret.func.value), core.src(ret.func.value))
                arg = names.get(core.src(ret.args[0]), core.src(ret.args[0])) if ret.args else None
                for kw in ret.keywords:
                    if kw.arg in ('isouter', 'full') and core.is_const(kw.value, True):
                        flags.add(kw.arg)
                if ret.func.attr == 'outerjoin':
                    flags.add('isouter')
                if (recv, arg) == ('left', 'right'):
                    swapped = False
                elif (recv, arg) == ('right', 'left'):
                    swapped = True
            outcomes.add((frozenset(flags), swapped))
        ctx.sample({'join_kind': m, 'generated': sorted((sorted(f), s) for f, s in outcomes)})
        good = outcomes == {JOIN_EXPECT[m]}
        ctx.check(
            good, 'C06.join-flags', fn,
            f'Join.Kind.{m} generates flags {[(sorted(f), "swapped" if s else "in order") for f, s in outcomes]}; expected {(sorted(JOIN_EXPECT[m][0]), "swapped" if JOIN_EXPECT[m][1] else "in order")}',
            fn.node, key=f'join-kind:{m}',
        )
    # on-clause: condition when present, literal true otherwise
    text = core.src(fn.node)
    ctx.check('condition if condition is not None else' in text, 'C06.join-flags', fn, 'on-clause is the condition when present (None-test)', fn.node, key='onclause')


QUERY_CLAUSES = {
    'where': [('where is not None', True)],
    'group_by': [('groupby', True)],
    'having': [('having is not None', True)],
    'order_by': [('orderby', True)],
    'limit': [('rows', True)],
    'offset': [('rows', True), ('rows.offset', True)],
}


def query_clauses(ctx) -> None:
    """Every clause of the generated SELECT is applied exactly when its own argument is present (a HAVING without GROUP BY
    - a global aggregate - is legal and must not be dropped; LIMIT needs no ORDER BY ...)."""
    prog = ctx.prog
    fn = prog.func(f'{ALCHEMY}:Parser.generate_query')
    seen = set()
    for c in core.calls_in(fn.node):
        if isinstance(c.func, ast.Attribute) and c.func.attr in QUERY_CLAUSES and core.src(c.func.value) == 'query':
            name = c.func.attr
            seen.add(name)
            gs = cfg.cguards(c, fn.node)
            ctx.check(sorted(gs) == cfg.cg(*QUERY_CLAUSES[name]), 'C06.query-clauses', fn, f'.{name}() is applied exactly when its own argument is present (guards {gs}, expected {QUERY_CLAUSES[name]})', c, key=f'clause:{name}')
    ctx.check(seen == set(QUERY_CLAUSES), 'C06.query-clauses', fn, f'all clauses are generated ({sorted(seen)})', fn.node, key='clauses:all')
    sel = [c for c in core.calls_in(fn.node) if core.src(c.func) == 'sql.select']
    ctx.check(len(sel) == 1 and core.src(sel[0].args[0]) == '*features' and '.select_from(source)' in core.src(fn.node), 'C06.query-clauses', fn, 'SELECT <features> FROM <source>', fn.node, key='clauses:select')
    vq = prog.func(f'{PARSER}:Visitor.visit_query')
    call = next((c for c in core.calls_in(vq.node) if core.call_tail(c) == 'generate_query'), None)
    okq = call is not None and [core.src(a) for a in call.args[1:]] == ['features', 'where', 'groupby', 'having', 'orderby', 'source.rows']
    ctx.check(okq, 'C06.query-clauses', vq, 'visit_query hands (features, where, groupby, having, orderby, rows) over in declaration order', call or vq.node, key='visit_query:args')
    defs = {core.src(s.targets[0]): core.src(s.value) for s in core.walk_local(vq.node) if isinstance(s, ast.Assign) and isinstance(s.targets[0], ast.Name)}
    want = {'where': 'source.prefilter', 'having': 'source.postfilter', 'groupby': 'source.grouping', 'orderby': 'source.ordering', 'features': 'source.features'}
    for var, member in want.items():
        ctx.check(var in defs and member in defs[var], 'C06.query-clauses', vq, f'`{var}` is generated from {member}', vq.node, key=f'visit_query:{var}')
    # ... from the whole member, unconditionally (a presence test of the optional filters is the only accepted condition):
    # ordering/grouping of a nested statement matters as soon as it is limited, so it is never dropped by context
    exact = {
        'features': '[self.generate_feature(c) for c in source.features]',
        'where': 'self.generate_feature(source.prefilter) if source.prefilter is not None else None',
        'groupby': '[self.generate_feature(c) for c in source.grouping]',
        'having': 'self.generate_feature(source.postfilter) if source.postfilter is not None else None',
        'orderby': '[(self.generate_feature(c), o) for c, o in source.ordering]',
    }
    for var, text in exact.items():
        ctx.check(defs.get(var) == text, 'C06.query-clauses', vq, f'`{var}` = `{text}` (found `{defs.get(var)}`)', vq.node, key=f'visit_query:{var}:exact')


def context_caches(ctx) -> None:
    """A memoised method of the parser/reader must not read per-query state (self.context: origins, table segments,
    alias depth): the cache key is the argument only, so a second occurrence in another context would get the first
    context's result (stale alias handles, stale push-down hints)."""
    prog = ctx.prog
    n = 0
    for fn in prog.functions([m for m in prog.modules if m.startswith(('forml.io.dsl.parser', 'forml.provider.feed.reader'))]):
        decos = core.decorator_names(fn.node)
        if not any(d.split('.')[-1] in ('lru_cache', 'cache') for d in decos):
            continue
        n += 1
        reads = 'self.context' in core.src(fn.node) or any(core.call_tail(c) == 'accept' and any(core.src(a) == 'self' for a in c.args) for c in core.calls_in(fn.node))
        ctx.check(not reads, 'C06.context-cache', fn, f'memoised `{fn.qual}` depends on the per-query parsing context (visits with self / reads self.context) that is not part of its cache key', fn.node, key=f'context-cache:{fn.qual}')
    ctx.ok('C06.context-cache', PARSER, f'{n} memoised parser methods inspected')


def defaults_precedence(ctx) -> None:
    """User supplied reader/feed options override class-level defaults: in ``DEFAULTS | kwargs`` (and {**a, **b}) the
    right operand wins, so the class constant must be the left one."""
    prog = ctx.prog
    n = 0
    for fn in prog.functions([m for m in prog.modules if m.startswith(('forml.provider.feed', 'forml.provider.runner', 'forml.io._input'))]):
        params = set(fn.param_names)
        for node in core.walk_local(fn.node):
            if isinstance(node, ast.BinOp) and isinstance(node.op, ast.BitOr):
                l, r = node.left, node.right
                def is_default(x):
                    d = core.dotted(x) or ''
                    return d.split('.')[0] in ('self', 'cls') and d.split('.')[-1].isupper()
                def is_user(x):
                    return isinstance(x, ast.Name) and x.id in params
                if (is_default(l) and is_user(r)) or (is_default(r) and is_user(l)):
                    n += 1
                    ctx.check(is_default(l), 'C06.defaults', fn, f'`{core.src(node)}`: caller supplied options take precedence over the class defaults (right operand of | wins)', node)
    ctx.floor('C06.defaults', n, 1)


def _is_pop(call: ast.Call) -> bool:
    return isinstance(call.func, ast.Attribute) and call.func.attr == 'pop' and (core.dotted(call.func) or '').endswith('symbols.pop')


def _is_push(call: ast.Call) -> bool:
    return isinstance(call.func, ast.Attribute) and call.func.attr == 'push' and (core.dotted(call.func) or '').endswith('symbols.push')


# what a parser object itself may hold (beyond the per-statement ``self.context``), one reason each
PARSER_STATE_OK = {
    '_sources': 'the source mapping the parser was created with (read-only afterwards)',
    '_features': 'the feature mapping the parser was created with (read-only afterwards)',
}


def parser_stateless(ctx) -> None:
    """What a parser produces is a function of the statement and the mappings it was created with: everything per statement
    lives in ``self.context`` (a fresh one per nested statement, see context_isolation).  No method of ``parser.Visitor`` or of a
    subclass stores to, or mutates a container held in, any other attribute of the parser - a memo of generated aliases,
    tables or clauses would hand the objects of an earlier (sub)statement to the next one (a self-join then reads one alias
    twice)."""
    prog = ctx.prog
    vis = prog.cls(f'{PARSER}:Visitor')
    mut = {'setdefault', 'append', 'add', 'update', 'pop', 'clear', 'extend', 'insert', 'remove', 'popitem', 'discard', 'appendleft'}
    n = 0
    for ci in prog.subclasses(vis, strict=False):
        for m, node in ci.methods.items():
            fn = prog.func(f'{ci.ref}.{m}')
            for x in ast.walk(node):
                roots = []
                if isinstance(x, (ast.Assign, ast.AugAssign, ast.AnnAssign, ast.Delete)):
                    targets = x.targets if isinstance(x, (ast.Assign, ast.Delete)) else [x.target]
                    roots = [t for tt in targets for t in (tt.elts if isinstance(tt, (ast.Tuple, ast.List)) else [tt])]
                elif isinstance(x, ast.Call) and isinstance(x.func, ast.Attribute) and x.func.attr in mut:
                    roots = [x.func.value]
                for t in roots:
                    chain = []
                    base = t
                    while isinstance(base, (ast.Subscript, ast.Attribute)):
                        if isinstance(base, ast.Attribute):
                            chain.append(base.attr)
                        base = base.value
                    if not (isinstance(base, ast.Name) and base.id == 'self' and chain):
                        continue
                    first = chain[-1]
                    n += 1
                    ok = first == 'context' or (first in PARSER_STATE_OK and m == '__init__' and ci is vis)
                    ctx.check(ok, 'C06.context', fn, f'`{core.src(t)[:60]}`: a parser keeps nothing across statements but the mappings it was created with; per-statement data lives in self.context', x, key=f'parser-state:{ci.qual}.{m}:{first}')
    ctx.floor('C06.parser-state', n, 10)


def context_isolation(ctx) -> None:
    """Every (nested) statement is parsed in a context of its own: entering pushes the current context and installs a *fresh*
    one; the per-statement tables (symbols, push-down segments, opened origins, alias depth) are bound in Context.__init__
    and never re-bound from another context (a shared ``origins`` dict leaks a nested statement's aliases into its parent)."""
    prog = ctx.prog
    enter = prog.func(f'{PARSER}:Container.__enter__').inlined()
    body = [core.src(st) for st in enter.node.body if not (isinstance(st, ast.Expr) and isinstance(st.value, ast.Constant))]
    ctx.check(body == ['self._stack.append(self._context)', 'self._context = self.Context()', 'return self'], 'C06.context', enter, f'__enter__ pushes the current context and installs a fresh, empty one ({body})', enter.node, key='enter:fresh')
    ex = prog.func(f'{PARSER}:Container.__exit__')
    shared.stmt_under(ctx, 'C06.context', ex, 'self._context = self._stack.pop()', [('exc_type or exc_val or exc_tb', False), ('self._context and self._context.dirty', False)], 'a clean exit restores the enclosing context', 'exit:restore')
    cinit = prog.func(f'{PARSER}:Container.Context.__init__')
    fields = sorted(t.attr for st in cinit.body if isinstance(st, (ast.Assign, ast.AnnAssign)) for t in ([st.target] if isinstance(st, ast.AnnAssign) else st.targets) if isinstance(t, ast.Attribute) and core.src(t.value) == 'self')
    ctx.floor('C06.context-fields', len(fields), 3)
    n = 0
    for fn in prog.functions([m for m in prog.modules if m.startswith(('forml.io.dsl.parser', 'forml.provider.feed'))]):
        if fn.ref == cinit.ref:
            continue
        for st in core.walk_local(fn.node):
            if isinstance(st, (ast.Assign, ast.AnnAssign)):
                for t in ([st.target] if isinstance(st, ast.AnnAssign) else st.targets):
                    if isinstance(t, ast.Attribute) and t.attr in fields and 'context' in core.src(t.value).lower() and t.attr != 'aliased':
                        n += 1
                        ctx.fail('C06.context', fn, f'`{core.src(st)[:80]}` re-binds the per-statement table `{t.attr}` of a context outside Context.__init__', st)
    ctx.ok('C06.context', PARSER, f'context tables {fields} are bound in Context.__init__ only ({n} re-bindings elsewhere)')


def automaton(ctx) -> None:
    prog = ctx.prog
    visitor = prog.cls(f'{PARSER}:Visitor')
    bases = {'source': prog.cls(f'{FRAME}:Source.Visitor'), 'feature': prog.cls(f'{SERIES}:Feature.Visitor')}
    nvisit = 0
    for fam, base in bases.items():
        for name, bnode in base.methods.items():
            if not name.startswith('visit_') or name in ('visit_source', 'visit_feature'):
                continue
            if name not in visitor.methods:
                ctx.fail('R-EXACTLY-ONE', visitor.ref, f'parser does not implement {name}', key=name, loc=visitor.module.relpath)
                continue
            fn = prog.func(f'{visitor.ref}.{name}')
            nvisit += 1
            # children the base visitor descends into (accept calls); a loop => variable arity
            accepts = [c for c in core.calls_in(bnode) if isinstance(c.func, ast.Attribute) and c.func.attr == 'accept']
            in_loop = any(isinstance(a, (ast.For, ast.While)) for c in accepts for a in core.ancestors(c) if a is not bnode)
            children = [core.src(c.func.value).split('.')[-1] for c in accepts]
            graph = cfg.CFG(fn.node)
            if all(isinstance(s, (ast.Raise, ast.Expr)) for s in fn.body) and any(isinstance(s, ast.Raise) for s in fn.body):
                ctx.ok('R-EXACTLY-ONE', fn, f'{name} refuses (raises) - nothing pushed', fn.node)
                continue

            def w_push(st):
                return sum(1 for c in cfg.header_calls(st) if _is_push(c))

            def w_pop(st):
                return sum(1 for c in cfg.header_calls(st) if _is_pop(c))

            pushes = cfg.count_events(graph, cfg.ENTRY, cfg.EXIT, w_push)
            ctx.check(pushes == (1, 1), 'R-EXACTLY-ONE', fn, f'{name}: pushes per non-raising path (min, max) = {pushes}; expected exactly one', fn.node, key=f'{name}:push')
            pops = cfg.count_events(graph, cfg.ENTRY, cfg.EXIT, w_pop)
            if in_loop:
                # variable arity: pops must happen once per Feature child inside a comprehension/loop over the subject
                comp_pops = [c for c in core.calls_in(fn.node) if _is_pop(c) and any(isinstance(a, (ast.ListComp, ast.GeneratorExp, ast.For)) for a in core.ancestors(c))]
                guarded = all(any('isinstance' in core.src(t) and 'Feature' in core.src(t) for t, pol in cfg.guards(c, fn.node) if pol) for c in comp_pops)
                ctx.check(bool(comp_pops) and guarded, 'R-EXACTLY-ONE', fn, f'{name}: one pop per Feature-typed term (same guard as the base visitor descent)', fn.node, key=f'{name}:pop')
                text = core.src(fn.node)
                ctx.check(text.count('reversed(') == 2, 'R-EXACTLY-ONE', fn, f'{name}: terms popped in reverse and restored to declaration order', fn.node, key=f'{name}:order')
            else:
                ctx.check(pops == (len(children), len(children)), 'R-EXACTLY-ONE', fn, f'{name}: pops per path {pops}; base visitor descends into {children}', fn.node, key=f'{name}:pop')
            # the descent (super().visit_x) happens exactly once, before the pops
            supers = [c for c in core.calls_in(fn.node) if isinstance(c.func, ast.Attribute) and c.func.attr == name and core.src(c.func.value) == 'super()']
            ctx.check(len(supers) == 1, 'R-EXACTLY-ONE', fn, f'{name}: descends through super().{name} exactly once', fn.node, key=f'{name}:super')
            if supers and len(children) >= 1 and not in_loop:
                sup_stmt = core.enclosing_stmt(supers[0])
                pop_stmts = [core.enclosing_stmt(c) for c in core.calls_in(fn.node) if _is_pop(c)]
                ordered = all(graph.has(p) and graph.has(sup_stmt) and (p is sup_stmt or graph.dominates(sup_stmt, p)) for p in pop_stmts)
                ctx.check(ordered, 'R-EXACTLY-ONE', fn, f'{name}: children are popped only after the descent', fn.node, key=f'{name}:pop-after-descent')
            # reverse binding of two children
            if len(children) == 2 and not in_loop:
                assigns = []
                for st in sorted((s for s in core.walk_local(fn.node) if isinstance(s, ast.Assign)), key=lambda s: s.lineno):
                    if isinstance(st.value, ast.Call) and _is_pop(st.value) and isinstance(st.targets[0], ast.Name):
                        assigns.append(st.targets[0].id)
                ctx.check(assigns == children[::-1], 'R-EXACTLY-ONE', fn, f'{name}: pops bound in reverse child order {assigns} (children {children})', fn.node, key=f'{name}:reverse')
    ctx.floor('R-EXACTLY-ONE', nvisit, 10)
    # visit_query: fresh context, push after it closed
    vq = prog.func(f'{visitor.ref}.visit_query')
    withs = [s for s in vq.body if isinstance(s, ast.With) and any(core.src(i.context_expr) == 'self' for i in s.items)]
    ctx.check(len(withs) == 1, 'C06.context', vq, 'query assembled inside a fresh context (`with self`)', vq.node, key='visit_query:with')
    if withs:
        inner_push = [c for c in core.calls_in(withs[0]) if _is_push(c)]
        ctx.check(not inner_push, 'C06.context', vq, 'the query symbol is pushed to the outer context after the inner context closed', vq.node, key='visit_query:push-outside')
        inner_pops = [c for c in core.calls_in(withs[0]) if _is_pop(c)]
        ctx.check(len(inner_pops) == 1, 'C06.context', vq, 'the inner context is drained by exactly one pop', vq.node, key='visit_query:pop-inside')
    ex = prog.func(f'{PARSER}:Container.__exit__')
    raises = [n for n in core.walk_local(ex.node) if isinstance(n, ast.Raise)]
    ctx.check(any('dirty' in core.src(t) for r in raises for t, pol in cfg.guards(r, ex.node) if pol), 'C06.context', ex, 'closing a dirty context raises', ex.node, key='exit:dirty')
    # generate_feature drains exactly what accept pushed
    gf = prog.func(f'{visitor.ref}.generate_feature')
    text = core.src(gf.node)
    ctx.check('feature.accept(self)' in text and 'return self.context.symbols.pop()' in text, 'C06.context', gf, 'generate_feature = accept + one pop', gf.node, key='generate_feature')
    # bypass: override replaces the symbol pushed by the wrapped method (pop then push)
    wrapped = prog.func(f'{PARSER}:bypass.decorator.wrapped')
    g = cfg.CFG(wrapped.node)
    tr = next((s for s in wrapped.body if isinstance(s, ast.Try)), None)
    if tr is None:
        raise core.AnalysisError('bypass.wrapped: try/except/else idiom not found')
    else_pops = sum(1 for s in tr.orelse for c in core.calls_in(s) if _is_pop(c)) + sum(1 for s in tr.orelse if isinstance(s, ast.Assign) for c in [s.value] if isinstance(c, ast.Call) and _is_pop(c))
    else_push = sum(1 for s in tr.orelse for c in cfg.header_calls(s) if _is_push(c))
    npop = sum(1 for s in tr.orelse for c in cfg.header_calls(s) if _is_pop(c))
    ctx.check(npop == else_push == 1, 'C06.context', wrapped, f'override replaces one symbol by one (pops {npop}, pushes {else_push})', wrapped.node, key='bypass:replace')


MUTABLE_OK_CALLS = {'re.compile', 'frozenset', 'tuple', 'types.MappingProxyType', 'typing.TypeVar', 'collections.namedtuple', 'logging.getLogger', 'property', 'operator.itemgetter', 'typing.NewType'}
READER_MODULES = ('forml.provider.feed', 'forml.io._input')


def cache_key(ctx) -> None:
    """The result cache of the SQL feeds is keyed by the statement *including its literal values* (two ordinal windows of the
    same shape differ in their bound literals only)."""
    prog = ctx.prog
    # the result cache key must at least determine the statement *including its literal values*
    key_fn = prog.func('forml.provider.feed.alchemy:Results._statement2key')
    ctx.sample({'result_cache_key_params': key_fn.param_names})
    compiles = [c for c in core.calls_in(key_fn.node) if isinstance(c.func, ast.Attribute) and c.func.attr == 'compile']
    literal = False
    for c in compiles:
        for kw in c.keywords:
            if kw.arg == 'compile_kwargs' and isinstance(kw.value, ast.Dict):
                for k, v in zip(kw.value.keys, kw.value.values):
                    if isinstance(k, ast.Constant) and k.value == 'literal_binds' and core.is_const(v, True):
                        literal = True
    text = core.src(key_fn.node)
    values_in_key = literal or 'params.items()' in text or 'params.values()' in text
    whole = any(isinstance(c, ast.Call) and core.call_name(c) == 'str' and c.args and any(x in compiles for x in ast.walk(c.args[0])) for c in core.calls_in(key_fn.node)) if literal else values_in_key
    ctx.check(bool(compiles) and values_in_key and whole, 'C06.cache-key', key_fn, 'the result-cache key is a digest of the whole compiled statement with its literal values bound (statements differing in a literal must not share a cached result)', key_fn.node, key='statement2key:literals')


def shared_state(ctx) -> None:
    """Process-global mutable state held at class level by feed readers and consulted on the read path."""
    prog = ctx.prog
    n = 0
    for ci in prog.classes.values():
        if not ci.module.name.startswith(READER_MODULES):
            continue
        for name, val in ci.assigns.items():
            if not name.isupper():
                continue
            n += 1
            mutable = False
            why = ''
            if isinstance(val, ast.Call):
                cname = core.call_name(val) or ''
                if cname not in MUTABLE_OK_CALLS:
                    mutable, why = True, f'instance created at class definition: {core.src(val)[:60]}'
            elif isinstance(val, (ast.Dict, ast.List, ast.Set)):
                # mutable literal: only a finding when something writes it at call time
                writes = []
                for fn in prog.functions([m for m in prog.modules if m.startswith(READER_MODULES)]):
                    for node in core.walk_local(fn.node):
                        tgt = None
                        if isinstance(node, (ast.Assign, ast.AugAssign, ast.Delete)):
                            tgts = node.targets if isinstance(node, (ast.Assign, ast.Delete)) else [node.target]
                            for t in tgts:
                                if isinstance(t, ast.Subscript) and (core.dotted(t.value) or '').endswith('.' + name):
                                    tgt = t
                        if isinstance(node, ast.Call) and isinstance(node.func, ast.Attribute) and node.func.attr in ('update', 'add', 'append', 'pop', 'setdefault', 'clear', 'extend', 'remove') and (core.dotted(node.func.value) or '').endswith('.' + name):
                            tgt = node
                        if tgt is not None:
                            writes.append(fn.loc(node))
                if writes:
                    mutable, why = True, f'class-level {type(val).__name__.lower()} written at call time ({writes[0]})'
            if mutable:
                ctx.fail(
                    'C06.shared-state', ci.ref,
                    f'{ci.qual}.{name}: process-global mutable reader state ({why}) - results may depend on other feeds/storages or earlier reads unless keyed by the storage identity',
                    key=name, loc=f'{ci.module.relpath}:{val.lineno}',
                )
            else:
                ctx.ok('C06.shared-state', ci.ref, f'{ci.qual}.{name} is immutable or never written at call time')
    ctx.floor('C06.shared-state', n, 4)
    cache_key(ctx)
    # lazy origins: an origin is recorded as registered only after the registration succeeded (no stale "done" mark)
    lz = prog.func('forml.provider.feed.lazy:Feed.Reader.__call__')
    graph = cfg.CFG(lz.node)
    marks = [s for s in graph.statements() if isinstance(s, ast.Assign) and any(isinstance(tg, ast.Subscript) and core.src(tg.value).endswith('PARTITIONS') for tg in s.targets)]
    regs = [s for s in graph.statements() if any(isinstance(c.func, ast.Attribute) and c.func.attr == 'execute' and 'BACKEND' in core.src(c.func.value) for c in cfg.header_calls(s))]
    # every table of the statement is provisioned: the loop that registers origins runs over all of them - wherever it lives
    # in the reader class - without an early ``return`` / ``break`` (an already registered origin is *skipped*, not the end)
    reader = prog.cls('forml.provider.feed.lazy:Feed.Reader')
    loops = []
    for mname in reader.methods:
        m = prog.func(f'{reader.ref}.{mname}')
        for lp in ast.walk(m.node):  # nested helper functions included
            if isinstance(lp, ast.For) and any(isinstance(c, ast.Call) and isinstance(c.func, ast.Attribute) and ((c.func.attr == 'execute' and 'BACKEND' in core.src(c.func.value)) or (c.func.attr in reader.methods and c.func.attr != '__call__' and core.src(c.func.value) == 'self')) for c in ast.walk(lp)):
                loops.append((m, lp))
    ctx.floor('C06.provision-all', len(loops), 1)
    for m, lp in loops:
        early = [x for b in lp.body for x in core.walk_local(b) if isinstance(x, (ast.Return, ast.Break))]
        ctx.check(not early, 'C06.provision-all', m, 'the origin registration loop visits every table of the statement: no early return/break (a registered origin is skipped with continue)', early[0] if early else lp, key='lazy:all-tables')
    if not marks or not regs:
        ctx.fail('C06.register-then-mark', lz, 'the reader entry point no longer shows the registration of origins followed by the PARTITIONS bookkeeping (after undoing helper extractions): it cannot be established that an origin is marked only after it was registered', lz.node, key='lazy:idiom')
        return
    ordered = all(graph.must_pass(cfg.ENTRY, m, via=regs, normal_only=True) and not any(graph.reaches(m, r, normal_only=True, no_back=True) for r in regs) for m in marks)
    ctx.check(ordered, 'C06.register-then-mark', lz, 'PARTITIONS records an origin only after its data was registered with the backend (a failed load must not leave the origin marked as present)', marks[0], key='lazy:mark-after-register')


def alchemy_addressing(ctx) -> None:
    """Values and tables keep their identity on the way into SQL: (1) every literal is its own anonymous bind parameter
    (``bindparam(None, value, type)``) - a fixed name makes all literals of a statement share one value at execution while the
    printed SQL (what the tests and the result-cache key see) still shows each of them; (2) a source mapped to
    ``schema.table`` is read from that schema: the table clause carries the parsed ``schema`` next to the quoted name."""
    prog = ctx.prog
    lit = prog.func('forml.provider.feed.reader.alchemy:Parser.generate_literal')
    binds = [c for c in core.calls_in(lit.node) if core.call_tail(c) == 'bindparam']
    ctx.floor('C06.addressing.bind', len(binds), 1)
    for c in binds:
        key = c.args[0] if c.args else next((k.value for k in c.keywords if k.arg == 'key'), None)
        unique = any(k.arg == 'unique' and core.is_const(k.value, True) for k in c.keywords)
        ctx.check((key is not None and core.is_const(key, None)) or unique, 'C06.addressing', lit, f'a literal is bound anonymously (bindparam(None, ...) or unique=True): `{core.src(c)[:70]}`', c, key='literal:anonymous')
        ctx.check(len(c.args) >= 2 and core.src(c.args[1]) == 'value', 'C06.addressing', lit, 'the bound value is the literal value', c, key='literal:value')
    init = prog.func('forml.provider.feed.alchemy:Feed.__init__')
    tabs = [c for c in ast.walk(init.node) if isinstance(c, ast.Call) and core.src(c.func) == 'sqlalchemy.table']
    ctx.floor('C06.addressing.table', len(tabs), 1)
    for c in tabs:
        ctx.check(any(k.arg == 'schema' and core.src(k.value) == 'schema' for k in c.keywords), 'C06.addressing', init, f'the table clause is qualified with the schema parsed from the mapping (`{core.src(c)[:80]}`)', c, key='table:schema')
        groups = [st for st in ast.walk(init.node) if isinstance(st, ast.Assign) and core.src(st.value).endswith('.groups()')]
        ctx.check(len(groups) == 1 and [core.src(e) for e in getattr(groups[0].targets[0], 'elts', [])][:1] == ['schema'], 'C06.addressing', init, 'schema is the first group of the table-name pattern, the name the second', groups[0] if groups else init.node, key='table:groups')


def run(ctx) -> None:
    alchemy_addressing(ctx)
    # a generator over terms/features yields for each element what that element says (Ordering.make, dissect, ...)
    ctx.floor('R-ITERCARRIED', shared.r_itercarried(ctx, ctx.prog.functions([m for m in ctx.prog.modules if m.startswith(('forml.io.dsl', 'forml.provider.feed', 'forml.io._input'))])), 2)
    # nothing is computed from a loop variable after its loop ran to completion (it would be the last element's value)
    shared.r_staleloop(ctx, ctx.prog.functions([m for m in ctx.prog.modules if m.startswith(('forml.io.dsl', 'forml.provider.feed', 'forml.io._input'))]))
    prog = ctx.prog
    tenv = types.TypeEnv(prog)
    tables(ctx)
    shared.operator_chain(ctx, 'C06.chain')
    join_flags(ctx)
    query_clauses(ctx)
    context_caches(ctx)
    defaults_precedence(ctx)
    automaton(ctx)
    shared_state(ctx)
    parser_stateless(ctx)
    mods = [m for m in prog.modules if m.startswith(('forml.io.dsl.parser', 'forml.provider.feed', 'forml.io._input'))]
    n = shared.r_truthy(ctx, tenv, prog.functions(mods), rule='R-TRUTHY')
    shared.r_element(ctx, [f'{PARSER}:Container.Context.Tables.select'])
    from . import C14

    C14.own_key_rule(ctx, 'C06.parse-never-fails')
    shared.r_reduce(ctx, [c for c in prog.classes.values() if c.module.name.startswith('forml.provider.feed')])  # readers travel to workers by pickle
    C14.logical_factors(ctx)
    context_isolation(ctx)
    C14.lazy_columns(ctx)
    from . import C08

    C08.structure(ctx)
    shared.argname_scope(ctx, ('forml.io.dsl.parser', 'forml.provider.feed'), floor=2)
