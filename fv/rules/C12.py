"""C12 - cross-validated evaluation and stacking never leak held-out data (DESIGN.md section 4/C12)."""
from __future__ import annotations

import ast

from .. import cfg, core, roles
from ..roles import APPLY, LABEL, TRAIN, Role
from . import shared

EXPLANATION = (
    'Static decision of C12 by role typing: the wiring code of CrossVal.produce, Ensembler.compose, FullStack.Builder.build '
    'and Fold.publish is abstractly interpreted (each loop once with a symbolic fold index) and every publisher gets a role '
    '(data stream TRAIN/APPLY/LABEL x part WHOLE / FOLD_TRAIN(k) / FOLD_TEST(k)); fold parts arise from subscripting a fork of '
    'the splitter group with an affine index (2k => train part, 2k+1 => test part). Rules: T1 every train() gets TRAIN features '
    'and LABEL labels of one part; the fold graph of index k trains on (TRAIN, FOLD_TRAIN(k)) + (LABEL, FOLD_TRAIN(k)) and its '
    'held-out path is fed (TRAIN, FOLD_TEST(k)) with the same k; T4 Outcome(true, pred): true is (LABEL, FOLD_TEST(k)) and pred '
    'the output of the held-out path of the same fold; T5 stacking: per base and fold a fresh expansion, the train-mode stack '
    'takes the held-out copy of fold k at position k, labels are stacked in the same fold order, the apply-mode reducer takes '
    'every fold model of its base; features and labels are split by forks of one splitter group trained on (features, labels) '
    'with 2*nsplits outputs; each fold index contributes exactly once (also in the metric reduction); the splitter actor '
    'emits train part then test part per fold. The splitter index arithmetic on data (iloc) is not decided.'
)
ASSUMPTIONS = [
    'a pipeline segment passes its input part on to its output (provenance is inherited along a segment)',
    'CVFoldable.apply emits, per fold, the train part at port 2k and the test part at port 2k+1 (checked on PandasCVFolds)',
]
MANIFEST = {
    'level': 'Abstract interpretation of the wiring code over a finite role domain with a symbolic fold index: leakage is a '
             'provenance property of every prediction in every configuration (fold counts, base counts), and the wiring '
             'code is the same for all of them - one symbolic pass covers all k. A wrong port index yields plausible numbers '
             'that example tests do not flag but changes the role of a publisher.',
    'note': 'Trusted: stdlib ast; the abstract semantics of the flow API used by the wiring code (fv/roles.py). Not decided: '
            'the splitter index arithmetic on data, user supplied cross-validators.',
    'technique': 'static analysis: abstract interpretation (role/typestate typing) of operator wiring code with affine '
                 'index normalisation, plus argument-order and exactly-once loop rules',
}

METHOD = 'forml.evaluation._method'
METRIC = 'forml.evaluation._metric'
STAGE = 'forml.evaluation._stage'
STACK = 'forml.pipeline.ensemble._stacking'
SPLIT = 'forml.pipeline.payload._split'


def _short(r: Role) -> str:
    return r.short()


def fold_rules(ctx, fn: core.FuncInfo, it: roles.Interpreter, R: roles.Roles, composable: str, label: str) -> None:
    """Rules shared by CrossVal.produce and Ensembler.compose for the trunk expanded per fold."""
    if it.incomplete:
        ctx.fail('C12.roles', fn, f'wiring construct outside the interpreter vocabulary: {it.incomplete}', fn.node, key='incomplete')
        return
    expands = [e for e in it.events if e.kind == 'expand' and e.data['source'].name == composable]
    ctx.check(len(expands) == 1 and len(expands[0].loops) == 1 and 'range(self._nsplits)' in (expands[0].loops[0][1] if expands[0].loops else ''), 'C12.fold', fn, f'{label}: the scope is expanded afresh inside the fold loop over range(nsplits) (independent graph per fold)', expands[0].node if expands else fn.node, key='expand-in-loop')
    if not expands or not expands[0].loops:
        return
    trunk = expands[0].data['trunk']
    k = expands[0].loops[0][0]
    want = {'train': (TRAIN, ('FOLD_TRAIN', k)), 'label': (LABEL, ('FOLD_TRAIN', k))}
    for mode, (m, p) in want.items():
        ins = R.inputs(trunk.segs[mode])
        r = R.role(ins[-1]) if ins else Role(None, None)
        ctx.sample({'function': fn.ref, 'segment': f'fold.{mode}', 'fed_by': _short(r)})
        ctx.check(len(ins) == 1 and (r.mode, r.part) == (m, p), 'C12.fold', fn, f'{label}: fold {k} {mode} segment is fed {_short(r)}; required {m}/FOLD_TRAIN({k}) (models train only on the training part of their own fold)', expands[0].node, key=f'fold.{mode}')
    # splitter: one group, trained on (features, labels), forks for features and labels, 2*nsplits outputs
    trains = [e for e in it.events if e.kind == 'train']
    ctx.check(len(trains) == 1, 'C12.splitter', fn, f'{label}: exactly one trained splitter', fn.node, key='splitter:one')
    if trains:
        t = trains[0]
        fr, lr = R.role(t.data['features']), R.role(t.data['labels'])
        ctx.check((fr.mode, fr.part, lr.mode, lr.part) == (TRAIN, 'WHOLE', LABEL, 'WHOLE'), 'C12.splitter', fn, f'{label}: the splitter is trained on the whole (features, labels) = ({_short(fr)}, {_short(lr)})', t.node, key='splitter:trained-on')
        g = t.data['worker'].group
        so = core.src(g.node.args[2]) if len(g.node.args) > 2 else ''
        ctx.check(so.replace(' ', '') in ('2*self._nsplits', 'self._nsplits*2'), 'C12.splitter', fn, f'{label}: the splitter has two outputs per fold ({so})', g.node, key='splitter:szout')
        feeders = set()
        for mode in ('train', 'label'):
            for pub in R.inputs(trunk.segs[mode]):
                if isinstance(pub, roles.VPub) and pub.kind == 'port':
                    feeders.add(pub.ref.worker.group.uid)
        ctx.check(feeders == {g.uid}, 'C12.splitter', fn, f'{label}: features and labels are split by forks of the one trained splitter group (same fold indices)', t.node, key='splitter:same-group')
        ctx.check(not any(w is t.data['worker'] for w in [p.ref.worker for mode in ('train', 'label', 'apply') for p in R.inputs(trunk.segs[mode]) if isinstance(p, roles.VPub) and p.kind == 'port']), 'C12.splitter', fn, f'{label}: the trained splitter member itself publishes nothing', t.node, key='splitter:trained-silent')


def crossval(ctx) -> None:
    prog = ctx.prog
    fn = prog.func(f'{METHOD}:CrossVal.produce')
    it = roles.interpret(prog, fn)
    R = roles.Roles(it, {'features': Role(TRAIN, 'WHOLE'), 'labels': Role(LABEL, 'WHOLE')})
    if not it.incomplete:
        from . import C03

        C03.connected(ctx, fn, it, R, rule='C12.fold')  # every splitter fork that feeds a fold has its own input fed
    fold_rules(ctx, fn, it, R, 'pipeline', 'CrossVal')
    expands = [e for e in it.events if e.kind == 'expand']
    if not expands or not expands[0].loops:
        return
    trunk, k = expands[0].data['trunk'], expands[0].loops[0][0]
    ins = R.inputs(trunk.segs['apply'])
    r = R.role(ins[-1]) if ins else Role(None, None)
    ctx.check(len(ins) == 1 and (r.mode, r.part) == (TRAIN, ('FOLD_TEST', k)), 'C12.fold', fn, f'CrossVal: fold {k} apply segment predicts on {_short(r)}; required TRAIN/FOLD_TEST({k}) (held-out part of the same fold)', expands[0].node, key='fold.apply')
    outs = [e for e in it.events if e.kind == 'construct' and e.data['cls'] == 'Outcome']
    ctx.check(len(outs) == 1 and [l[0] for l in outs[0].loops] == [k], 'C12.outcome', fn, 'CrossVal: one Outcome per fold', outs[0].node if outs else fn.node, key='outcome:once')
    if outs:
        v = outs[0].data['value']
        tr, pr = R.role(v.fields.get('true')), R.role(v.fields.get('pred'))
        ctx.sample({'Outcome.true': _short(tr), 'Outcome.pred': _short(pr)})
        ctx.check((tr.mode, tr.part) == (LABEL, ('FOLD_TEST', k)), 'C12.outcome', fn, f'Outcome.true is {_short(tr)}; required LABEL/FOLD_TEST({k}) (true outcomes of the same fold\'s held-out part)', outs[0].node, key='outcome:true')
        pred = v.fields.get('pred')
        ok = isinstance(pred, roles.VPub) and pred.kind == 'seg' and pred.ref.root() is trunk.segs['apply'] and (pr.mode, pr.part) == (TRAIN, ('FOLD_TEST', k))
        ctx.check(ok, 'C12.outcome', fn, f'Outcome.pred is the output of this fold\'s apply segment fed with its held-out part ({_short(pr)})', outs[0].node, key='outcome:pred')
    # all outcomes are returned, in fold order
    ret = it.returned[-1][0] if it.returned else None
    ctx.check(isinstance(ret, roles.VSeq) and len(ret.items) == 1, 'C12.outcome', fn, 'every fold outcome is returned (tuple of the appended outcomes)', fn.node, key='outcome:returned')
    # call site: TrainTestScore hands (scope, head.train, head.label)
    tt = prog.func(f'{STAGE}:TrainTestScore.compose')
    call = next((c for c in core.calls_in(tt.node) if isinstance(c.func, ast.Attribute) and c.func.attr == 'produce'), None)
    ctx.check(call is not None and [core.src(a) for a in call.args] == ['scope', 'head.train.publisher', 'head.label.publisher'], 'C12.outcome', tt, 'the method receives (pipeline, train features, labels) of the evaluation head', call or tt.node, key='produce:args')
    ctx.check('self._metric.score(*outcomes)' in core.src(tt.node), 'C12.outcome', tt, 'all produced outcomes are scored', tt.node, key='score:all')
    ho = prog.func(f'{METHOD}:HoldOut.__init__')
    ctx.check(core.src(ho.body[-1]) == 'self._nsplits = 1', 'C12.outcome', ho, 'hold-out = the first fold only', ho.node, key='holdout')


def metric(ctx) -> None:
    prog = ctx.prog
    fn = prog.func(f'{METRIC}:Function.score')
    # decided on the wiring events of the abstract interpretation of score() (nested / extracted helpers followed, star
    # unpacking and slices resolved to element indices of `outcomes`): the spelling of the function does not matter
    from .. import roles

    it = roles.interpret(prog, fn)
    if it.incomplete:
        ctx.fail('C12.metric', fn, f'wiring construct outside the interpreter vocabulary: {it.incomplete}', fn.node, key='metric:incomplete')
        return
    subs = [e for e in it.events if e.kind == 'subscribe' and isinstance(e.data['target'], roles.VPort)]
    metric_workers = [w for w in it.workers if w.group.builder == 'self._metric']
    reducers = [w for w in it.workers if w.group.builder == 'self._reducer']
    elem_of = {}  # metric worker -> index (VInt key) of the outcome it scores
    okargs = bool(metric_workers)
    okfresh = True
    for w in metric_workers:
        got = {}
        for e in subs:
            tgt, pub = e.data['target'], e.data['pub']
            if tgt.worker is w and isinstance(tgt.index, roles.VInt) and tgt.index.var is None:
                if isinstance(pub, roles.VPub) and pub.kind == 'field' and isinstance(pub.ref[0], roles.VNamed) and pub.ref[0].cls == 'elem:outcomes' and isinstance(pub.ref[0].fields.get('#index'), roles.VInt):
                    got[tgt.index.b] = (pub.ref[1], pub.ref[0].fields['#index'].key())
                else:
                    got[tgt.index.b] = (repr(pub), None)
        okargs = okargs and set(got) == {0, 1} and got[0][0] == 'true' and got[1][0] == 'pred' and got[0][1] is not None and got[0][1] == got[1][1]
        if set(got) == {0, 1}:
            elem_of[id(w)] = got[0][1]
        szin, szout = w.group.szin, w.group.szout
        okfresh = okfresh and isinstance(szin, roles.VInt) and szin.key() == (0, None, 2) and isinstance(szout, roles.VInt) and szout.key() == (0, None, 1)
    ctx.check(okargs, 'C12.metric', fn, 'the metric receives (true, pred) of one and the same outcome, in that order', fn.node, key='metric:args')
    ctx.check(okfresh and len({id(w.group) for w in metric_workers}) == len(metric_workers) and all(w.forked_from is None for w in metric_workers), 'C12.metric', fn, 'a fresh 2-input metric worker per outcome', fn.node, key='metric:worker')
    # the reducer: one worker of width len(outcomes); the score of outcome i enters at port i; i = 0 and every i of 1..
    okred = len(reducers) == 1
    entered = []
    if okred:
        red = reducers[0]
        width = red.group.node.args[1] if isinstance(red.group.node, ast.Call) and len(red.group.node.args) > 1 else None
        wtext = core.src(width) if width is not None else ''
        if isinstance(width, ast.Name):
            walrus = [x for x in ast.walk(fn.node) if isinstance(x, ast.NamedExpr) and x.target.id == width.id] + [a for a in ast.walk(fn.node) if isinstance(a, ast.Assign) and core.src(a.targets[0]) == width.id]
            wtext = core.src(walrus[0].value) if len(walrus) == 1 else wtext
        ctx.check(wtext == 'len(outcomes)', 'C12.metric', fn, f'the reducer is as wide as there are outcomes ({wtext})', red.node, key='metric:width')
        for e in subs:
            tgt, pub = e.data['target'], e.data['pub']
            if tgt.worker is red:
                src_w = pub.ref.worker if isinstance(pub, roles.VPub) and pub.kind == 'port' else None
                port0 = isinstance(pub, roles.VPub) and pub.kind == 'port' and isinstance(pub.ref.index, roles.VInt) and pub.ref.index.key() == (0, None, 0)
                entered.append((tgt.index.key() if isinstance(tgt.index, roles.VInt) else None, elem_of.get(id(src_w)) if src_w is not None and port0 else 'other', e))
    ctx.check(okred and bool(entered) and all(p is not None and p == q for p, q, _ in entered), 'C12.metric', fn, f'a partition score enters the reducer at the index of its own outcome ({[(p, q) for p, q, _ in entered]})', fn.node, key='merge')
    consts = [p for p, q, _ in entered if p is not None and p[1] is None]
    symbolic = [(p, e) for p, q, e in entered if p is not None and p[1] is not None]
    okonce = consts == [(0, None, 0)] and len(symbolic) == 1 and symbolic[0][0][0] == 1 and symbolic[0][0][2] == 0
    if okonce:
        # the loop that feeds ports 1..: enumerate(<outcomes from 1 on>, start=1)
        var = symbolic[0][0][1]
        desc = next((d for v, d in symbolic[0][1].loops if v == var), '')
        okonce = desc.startswith('enumerate:1:')
    ctx.check(okonce, 'C12.metric', fn, 'every fold outcome is scored exactly once: outcome 0 at index 0, the others at indices 1.. (enumerate from 1 over the outcomes from 1 on)', fn.node, key='metric:exactly-once')
    rets = [v for v, _ in it.returned]
    ctx.check(bool(rets) and all((okred and v is reducers[0]) or (id(v) in elem_of and elem_of[id(v)] == (0, None, 0)) for v in rets), 'C12.metric', fn, 'score() returns the reducer (several outcomes) or the single metric worker (one outcome)', fn.node, key='metric:return')
    # every Outcome built in forml.evaluation binds the *true* labels to `true` and the predictions to `pred` (both are
    # publishers: the metric of swapped operands is silently wrong for every asymmetric metric)
    nout = 0
    for ofn in prog.functions([m for m in prog.modules if m.startswith('forml.evaluation')]):
        for c in core.calls_in(ofn.node, deep=False):
            if core.call_tail(c) != 'Outcome' or len(c.args) + len(c.keywords) != 2:
                continue
            nout += 1
            b = {'true': None, 'pred': None}
            for name, a in zip(('true', 'pred'), c.args):
                b[name] = core.src(a)
            for k in c.keywords:
                b[k.arg] = core.src(k.value)
            lab = 'label' in (b['true'] or '').lower()
            prd = 'label' not in (b['pred'] or '').lower()
            ctx.check(lab and prd, 'C12.metric', ofn, f'Outcome(true={b["true"]}, pred={b["pred"]}): `true` comes from a label path, `pred` from a prediction path', c, key=f'Outcome:{ofn.qual}')
    ctx.floor('C12.outcome-sites', nout, 2)
    mn = prog.func(f'{METRIC}:mean')
    vb = [core.src(x) for x in mn.body if not (isinstance(x, ast.Expr) and isinstance(x.value, ast.Constant))]
    va = mn.node.args.vararg.arg if mn.node.args.vararg else None
    ctx.check(va is not None and vb == [f'return statistics.mean({va})'], 'C12.metric', mn, f'the default reducer averages *all* fold scores (a fold scoring 0.0 counts like any other): {vb}', mn.node, key='mean:all-values')
    oc = prog.cls('forml.evaluation._api:Outcome')
    ctx.check(list(oc.annotations)[:2] == ['true', 'pred'], 'C12.metric', oc.ref, 'Outcome fields are (true, pred)', key='Outcome:fields', loc=oc.module.relpath)


def ensembler(ctx) -> None:
    prog = ctx.prog
    fn = prog.func(f'{STACK}:Ensembler.compose')
    it = roles.interpret(prog, fn)
    R = roles.Roles(it)
    fold_rules(ctx, fn, it, R, 'scope', 'Ensembler')
    expands = [e for e in it.events if e.kind == 'expand']
    if not expands or not expands[0].loops:
        return
    trunk, k = expands[0].data['trunk'], expands[0].loops[0][0]
    ins = R.inputs(trunk.segs['apply'])
    r = R.role(ins[-1]) if ins else Role(None, None)
    ctx.check(len(ins) == 1 and (r.mode, r.part) == (APPLY, 'WHOLE'), 'C12.fold', fn, f'Ensembler: in apply mode every fold model sees the whole apply input ({_short(r)})', expands[0].node, key='fold.apply')
    folds = [e for e in it.events if e.kind == 'construct' and e.data['cls'] == 'Fold']
    ctx.check(len(folds) == 1 and [l[0] for l in folds[0].loops] == [k], 'C12.fold', fn, 'one Fold descriptor per fold index', folds[0].node if folds else fn.node, key='Fold:once')
    if folds:
        v = folds[0].data['value']
        want = {'train_apply': (APPLY, 'WHOLE'), 'train_train': (TRAIN, ('FOLD_TRAIN', k)), 'train_label': (LABEL, ('FOLD_TRAIN', k)), 'test_train': (TRAIN, ('FOLD_TEST', k)), 'test_label': (LABEL, ('FOLD_TEST', k))}
        for f, (m, p) in want.items():
            rr = R.role(v.fields.get(f))
            ctx.sample({'Fold.' + f: _short(rr)})
            ctx.check((rr.mode, rr.part) == (m, p), 'C12.fold', fn, f'Fold.{f} carries {_short(rr)}; required {m}/{p if isinstance(p, str) else p[0] + "(" + p[1] + ")"}', folds[0].node, key=f'Fold.{f}')
        # the held-out stream is a copy of this fold's apply segment (same trained groups), fed with the test part
        tt = v.fields.get('test_train')
        ok = isinstance(tt, roles.VPub) and tt.kind == 'seg' and tt.ref.copy_of is trunk.segs['apply']
        ctx.check(ok, 'C12.fold', fn, 'the held-out predictions come from a copy of the same fold\'s apply segment (models trained on that fold\'s training part)', folds[0].node, key='Fold.test:copy')
        ta, tn, tl = v.fields.get('train_apply'), v.fields.get('train_train'), v.fields.get('train_label')
        ok = all(isinstance(x, roles.VPub) and x.kind == 'seg' and x.ref.root() is trunk.segs[m] for x, m in ((ta, 'apply'), (tn, 'train'), (tl, 'label')))
        ctx.check(ok, 'C12.fold', fn, 'the fold hands on the outputs of its own (apply, train, label) segments', folds[0].node, key='Fold.train:segments')
    bc = [e for e in it.events if e.kind == 'self-call' and e.data['method'] == '_builder']
    ctx.check(len(bc) == 1 and not bc[0].loops and isinstance(bc[0].data['args'][0], roles.VSeq), 'C12.fold', fn, 'all folds are handed to the stacking builder once', bc[0].node if bc else fn.node, key='builder:call')
    # Fold constructor keeps the field meaning
    fold = prog.cls(f'{STACK}:Fold')
    new = prog.func(f'{fold.ref}.__new__')
    ctx.check('cls.Train(train_apply, train_train, train_label), cls.Test(test_train, test_label)' in core.src(new.node), 'C12.fold', new, 'Fold(train_apply, train_train, train_label, test_train, test_label) stores (Train(apply, train, label), Test(train, label))', new.node, key='Fold:new')
    ctx.check(list(prog.cls(f'{fold.ref}.Train').annotations) == ['apply', 'train', 'label'] and list(prog.cls(f'{fold.ref}.Test').annotations) == ['train', 'label'], 'C12.fold', fold.ref, 'Fold.Train/Fold.Test field order', key='Fold:fields', loc=fold.module.relpath)
    pub = prog.func(f'{fold.ref}.publish')
    body = [core.src(s) for s in pub.body if not (isinstance(s, ast.Expr) and isinstance(s.value, ast.Constant))]
    ctx.check(body == ['apply.subscribe(self.train.apply)', 'train.subscribe(self.train.train)', 'label.subscribe(self.train.label)', 'test.subscribe(self.test.train)'], 'C12.fold', pub, 'Fold.publish feeds (apply, train, label) from the training part and the test copy from the held-out part', pub.node, key='Fold.publish')


def fullstack(ctx) -> None:
    prog = ctx.prog
    fn = prog.func(f'{STACK}:FullStack.Builder.build')
    it = roles.interpret(prog, fn)
    R = roles.Roles(it)
    if it.incomplete:
        ctx.fail('C12.roles', fn, f'wiring construct outside the interpreter vocabulary: {it.incomplete}', fn.node, key='incomplete')
        return
    expands = [e for e in it.events if e.kind == 'expand']
    ok = len(expands) == 1 and [l[0] for l in expands[0].loops] == ['base_idx', 'fold_idx'] if expands else False
    ctx.check(bool(expands) and len(expands[0].loops) == 2, 'C12.stack', fn, 'each base model is expanded afresh per (base, fold): fold models never share trainers', expands[0].node if expands else fn.node, key='expand:per-base-fold')
    if not expands:
        return
    bvar, kvar = expands[0].loops[0][0], expands[0].loops[1][0]
    trunk = expands[0].data['trunk']
    want = {'apply': (APPLY, 'WHOLE'), 'train': (TRAIN, ('FOLD_TRAIN', kvar)), 'label': (LABEL, ('FOLD_TRAIN', kvar))}
    for mode, (m, p) in want.items():
        ins = R.inputs(trunk.segs[mode])
        r = R.role(ins[-1]) if ins else Role(None, None)
        ctx.check(len(ins) == 1 and (r.mode, r.part) == (m, p), 'C12.stack', fn, f'base fold model {mode} segment is fed {_short(r)} (required {m}/{p if isinstance(p, str) else p[0] + "(" + kvar + ")"})', expands[0].node, key=f'base.{mode}')
    subs = [e for e in it.events if e.kind == 'subscribe']
    from . import C03
    C03.connected(ctx, fn, it, R, rule='C12.stack')

    def port_subs(builder_text):
        return [e for e in subs if isinstance(e.data['target'], roles.VPort) and builder_text in e.data['target'].worker.group.builder]

    # train-mode stack: stacker[fold] <- held-out copy of that fold ; appender[base] <- stacker ; labels stacked by fold
    st = [e for e in port_subs("kwargs['stacker']") if len(e.loops) == 2]
    ok = len(st) == 1 and repr(st[0].data['target'].index) == f'1*{kvar}+0'
    if ok:
        pub = st[0].data['pub']
        r = R.role(pub)
        ok = isinstance(pub, roles.VPub) and pub.kind == 'seg' and pub.ref.copy_of is trunk.segs['apply'] and (r.mode, r.part) == (TRAIN, ('FOLD_TEST', kvar))
        ctx.sample({'stacker_input': _short(r)})
    ctx.check(ok, 'C12.stack', fn, 'train mode: position k of a base stack is the prediction of that base\'s fold-k model on fold k\'s held-out part (copy of the apply segment fed with the test part)', st[0].node if st else fn.node, key='stack:heldout')
    lb = [e for e in port_subs("kwargs['stacker']") if len(e.loops) == 1 and e.loops[0][0] != bvar]
    ok = len(lb) == 1 and repr(lb[0].data['target'].index).startswith('1*') and (R.role(lb[0].data['pub']).mode, R.role(lb[0].data['pub']).part[0] if isinstance(R.role(lb[0].data['pub']).part, tuple) else None) == (LABEL, 'FOLD_TEST')
    if ok:
        ok = R.role(lb[0].data['pub']).part[1] == lb[0].data['target'].index.var
    ctx.check(ok, 'C12.stack', fn, 'labels are stacked in the same fold order: position k holds the held-out labels of fold k', lb[0].node if lb else fn.node, key='stack:labels')
    rd = [e for e in port_subs("kwargs['reducer']") if len(e.loops) == 2]
    ok = len(rd) == 1 and repr(rd[0].data['target'].index) == f'1*{kvar}+0'
    if ok:
        pub = rd[0].data['pub']
        ok = isinstance(pub, roles.VPub) and pub.kind == 'seg' and pub.ref.root() is trunk.segs['apply'] and pub.ref.copy_of is None
    ctx.check(ok, 'C12.stack', fn, 'apply mode: the reducer of a base combines every fold model of that base on the same apply input', rd[0].node if rd else fn.node, key='stack:reduce')
    ap = [e for e in port_subs("kwargs['appender']")]
    okp = len(ap) == 2 and all(repr(e.data['target'].index) == f'1*{bvar}+0' for e in ap)
    srcs = sorted(e.data['pub'].ref.worker.group.builder for e in ap if isinstance(e.data['pub'], roles.VPub) and e.data['pub'].kind == 'port')
    ctx.check(okp and srcs == ["kwargs['reducer']", "kwargs['stacker']"], 'C12.stack', fn, 'per base: the train output appends its stack, the apply output appends its reduction, at the base position', ap[0].node if ap else fn.node, key='stack:append')
    # train and apply outputs are forks of one appender; stacker/reducer forks one per base
    text = core.src(fn.node)
    ctx.check('apply_output: \'flow.Worker\' = train_output.fork()' in text or 'apply_output = train_output.fork()' in text, 'C12.stack', fn, 'train and apply outputs are forks of one appender', fn.node, key='stack:appender-fork')
    # the default apply-mode reducer itself: a symmetric n-ary aggregate over *all* fold predictions of one column
    pm = prog.func(f'{STACK}:pandas_mean')
    means = [c for c in ast.walk(pm.node) if isinstance(c, ast.Call) and core.call_tail(c) == 'mean' and any(k.arg == 'axis' and isinstance(k.value, ast.Constant) and k.value.value in ('columns', 1) for k in c.keywords)]
    lendiv = [b for b in ast.walk(pm.node) if isinstance(b, ast.BinOp) and isinstance(b.op, ast.Div) and isinstance(b.right, ast.Call) and core.call_tail(b.right) == 'len']
    constdiv = [b for b in ast.walk(pm.node) if isinstance(b, ast.BinOp) and isinstance(b.op, (ast.Div, ast.Mult)) and any(isinstance(x, ast.Constant) and isinstance(x.value, (int, float)) and not isinstance(x.value, bool) and x.value not in (0, 1) for x in (b.left, b.right))]
    pairwise = [c for c in ast.walk(pm.node) if isinstance(c, ast.Call) and core.call_tail(c) in ('reduce', 'accumulate')]
    ctx.check(bool(means or lendiv) and not (constdiv and pairwise), 'C12.stack', pm, 'the default reducer is the mean over all fold models (an n-ary aggregate: .mean(axis=columns) or sum/len; a pairwise fold with a constant weight is not)', (constdiv or pairwise or [pm.node])[0], key='stack:pandas-mean')
    ctx.check("flowmod.Worker(kwargs['stacker'], nsplits, 1)" in text and "flowmod.Worker.fgen(kwargs['stacker'], nsplits, 1)" in text and "flowmod.Worker.fgen(kwargs['reducer'], nsplits, 1)" in text and 'nsplits = len(folds)' in text, 'C12.stack', fn, 'stackers/reducers have one input per fold', fn.node, key='stack:width')
    ret = next((r for r in core.walk_local(fn.node) if isinstance(r, ast.Return)), None)
    ctx.check(ret is not None and core.src(ret.value) == '(train_output, apply_output, label_output)', 'C12.stack', fn, 'build returns (train, apply, label) tails', ret or fn.node, key='stack:return')
    ec = prog.func(f'{STACK}:Ensembler.compose')
    t = core.src(ec.node)
    ctx.check('train_tail, apply_tail, label_tail = self._builder(data_folds)' in t and 'apply=head.apply.extend(tail=apply_tail)' in t and 'train=head.train.extend(tail=train_tail)' in t and 'label=head.label.extend(tail=label_tail)' in t, 'C12.stack', ec, 'the builder tails close the segments of their own mode', ec.node, key='stack:tails')


def splitter_actor(ctx) -> None:
    prog = ctx.prog
    sp = prog.func(f'{SPLIT}:PandasCVFolds.split')
    text = core.src(sp.node)
    ok = 'for train_index, test_index in indices' in text.replace('  ', ' ') or 'for train_idx, test_idx in indices' in text
    ret = next((r for r in core.walk_local(sp.node) if isinstance(r, ast.Return)), None)
    ctx.sample({'PandasCVFolds.split': core.src(ret.value)[:160] if ret else None})
    # each index pair (train, test) yields the train slice first, then the test slice
    pair_order = False
    for comp in [n for n in ast.walk(sp.node) if isinstance(n, (ast.GeneratorExp, ast.ListComp))]:
        gens = comp.generators
        if len(gens) == 2 and isinstance(gens[0].target, ast.Tuple) and len(gens[0].target.elts) == 2 and core.src(gens[0].iter) == 'indices':
            a, b = [core.src(x) for x in gens[0].target.elts]
            inner = gens[1].iter
            if isinstance(inner, (ast.Tuple, ast.List)) and len(inner.elts) == 2:
                n0, n1 = core.names_in(inner.elts[0]), core.names_in(inner.elts[1])
                pair_order = a in n0 and b not in n0 and b in n1 and a not in n1 and core.src(comp.elt) == core.src(gens[1].target)
    subs = [n for n in ast.walk(sp.node) if isinstance(n, ast.Subscript) and isinstance(n.value, ast.Attribute) and n.value.attr in ('iloc', 'loc', 'take', 'reindex')]
    ctx.check(len(subs) >= 2 and all(n.value.attr == 'iloc' for n in subs), 'C12.split-actor', sp, 'fold parts are cut by *position* (iloc): the cross-validator yields positional indices, features and labels share positions, not index labels', sp.node, key='split:positional')
    ctx.check(pair_order, 'C12.split-actor', sp, 'the splitter emits, per (train, test) index pair, the train part first and the test part second (ports 2k / 2k+1)', sp.node, key='split:order')
    tr = prog.func(f'{SPLIT}:CVFoldable.train')
    ctx.check('self._indices' in core.src(tr.node) and 'split(' in core.src(tr.node), 'C12.split-actor', tr, 'fold indices are fixed at training time and reused for features and labels', tr.node, key='split:train')
    f, l = tr.param_names[1:3]
    shared.stmt_under(ctx, 'C12.split-actor', tr, f'self._indices = tuple(self._crossvalidator.split({f}, {l}, self._groups_extractor({f}) if self._groups_extractor else None))', [], 'training fixes the fold indices from the cross-validator over (features, labels, groups)', 'split:train-indices')
    ap = prog.func(f'{SPLIT}:CVFoldable.apply')
    x = ap.param_names[1]
    rets = [r for r in core.walk_local(ap.node) if isinstance(r, ast.Return)]
    ctx.check(len(rets) == 1 and core.src(rets[0].value) == f'self.split({x}, self._indices)', 'C12.split-actor', ap, 'every application cuts the input by the indices fixed at training (features and labels get the same folds)', ap.node, key='split:apply')
    rs = [r for r in core.walk_local(ap.node) if isinstance(r, ast.Raise)]
    ctx.check(len(rs) == 1 and cfg.cguards(rs[0], ap.node) in ([('self._indices', False)], [('self._indices is None', True)]), 'C12.split-actor', ap, 'an untrained splitter refuses to split', ap.node, key='split:untrained')
    base = prog.cls(f'{SPLIT}:CVFoldable')
    nsub = 0
    for ci in prog.subclasses(base):
        for m, want in (('train', 'super().train({0}, {1})'), ('apply', 'return super().apply({0})')):
            if m not in ci.methods:
                continue
            nsub += 1
            fn = prog.func(f'{ci.ref}.{m}')
            body = [core.src(st) for st in fn.body if not (isinstance(st, ast.Expr) and isinstance(st.value, ast.Constant))]
            ps = [p for p in fn.param_names if p != 'self']
            ctx.check(body == [want.format(*ps)], 'C12.split-actor', fn, f'{ci.qual}.{m} only adapts the payload and delegates to the base implementation with its own arguments ({body})', fn.node, key=f'{ci.qual}.{m}:delegates')
    ctx.floor('C12.split-subclasses', nsub, 2)


def run(ctx) -> None:
    crossval(ctx)
    metric(ctx)
    ensembler(ctx)
    fullstack(ctx)
    splitter_actor(ctx)
    shared.argname_scope(ctx, ('forml.evaluation', 'forml.pipeline.ensemble', 'forml.pipeline.payload._split'), floor=2)
    # one model / held-out branch per fold: a fold variable read after its loop is the last fold for everybody
    mods = [m for m in ctx.prog.modules if m.startswith(('forml.evaluation', 'forml.pipeline.ensemble', 'forml.pipeline.payload'))]
    ctx.floor('R-STALELOOP', shared.r_staleloop(ctx, ctx.prog.functions(mods)), 4)
