"""C07 - a query statement is constructible exactly when it obeys the DSL grammar (DESIGN.md section 4/C07)."""
from __future__ import annotations

import ast
import typing

from .. import cfg, core, types
from . import shared

EXPLANATION = (
    'Static decision of the structural clauses of C07: (1) sanitiser must-pass-through - the value stored in the statement '
    'tuple for every clause of dsl.Query/Join/Set has flowed through the validators the documented grammar requires '
    '(table frozen in this rule module), each validator raises the grammar error under its own condition; (2) who-may-raise '
    '- GrammarError is raised only inside validators, constructors, the Schema metaclass and operand checks; (3) operand '
    'kinds - every concrete expression class mixing in Comparison/Arithmetic/Logical resolves __init__ (static C3 MRO) to the '
    'checking mixin; R-ABSTRACT - every concrete Feature resolves kind/accept, predicates factors, operators symbol; (4) '
    'R-ATTR - schema derivation reads only attributes every Feature provides or guards the partial ones. The "only if" '
    'direction over all statements (completeness of the grammar table) is not decided.'
)
ASSUMPTIONS = ['the documented grammar rules are the ones listed in the property statement (table GRAMMAR in this module)']
MANIFEST = {
    'level': 'Static must-pass-through (sanitiser) analysis of the three statement constructors plus class-table rules over '
             'all 60+ feature classes. Acceptance is a property of the constructors\' code on every path, so a dropped or '
             'reordered validator is visible structurally for all statements at once.',
    'note': 'Trusted: stdlib ast; the grammar table frozen from the documentation. Not decided: completeness of that table '
            'against all feature interactions (alias inside grouping, literal-only predicates).',
    'technique': 'static analysis: def-use sanitiser must-pass-through, who-may-raise census, static C3 MRO resolution '
                 '(R-ABSTRACT / mixin __init__), attribute-resolution lint over annotated types (R-ATTR)',
}

SERIES, FRAME = shared.SERIES, shared.FRAME
KIND = 'forml.io.dsl._struct.kind'

# clause -> validators that must enclose the stored value (documented grammar; one line of reason each)
GRAMMAR = {
    'selection': ['Feature.ensure_is', 'ensure_subset'],  # features of the queried source only
    'prefilter': ['Operable.ensure_is', 'ensure_subset', 'Predicate.ensure_is', 'Cumulative.ensure_notin'],  # boolean, no aggregates/windows in WHERE
    'grouping': ['Operable.ensure_is', 'Cumulative.ensure_notin', 'ensure_subset'],  # no aggregates in GROUP BY
    'postfilter': ['Operable.ensure_is', 'ensure_subset', 'Predicate.ensure_is', 'Window.ensure_notin'],  # boolean, no windows in HAVING
    'ordering': ['Ordering.make'],  # ordering terms; subset check is a separate statement
}


def _call_tails(node: ast.AST) -> set[str]:
    out = set()
    for c in ast.walk(node):
        if isinstance(c, ast.Call):
            name = core.call_name(c)
            if name:
                parts = name.split('.')
                out.add('.'.join(parts[-2:]) if len(parts) >= 2 else parts[-1])
                out.add(parts[-1])
    return out


def query_sanitisers(ctx) -> None:
    prog = ctx.prog
    fn = prog.func(f'{FRAME}:Query.__new__')
    graph = cfg.CFG(fn.node)
    rets = [s for s in core.walk_local(fn.node) if isinstance(s, ast.Return) and isinstance(s.value, ast.Call) and '__new__' in core.src(s.value.func)]
    if len(rets) != 1:
        raise core.AnalysisError('Query.__new__: single constructing return not found')
    store = rets[0].value
    stored = [core.src(a) for a in store.args[1:]]
    fields = ['source', 'selection', 'prefilter', 'grouping', 'postfilter', 'ordering', 'rows']
    ctx.check(len(stored) == 7 and all(f in s for f, s in zip(fields, stored)), 'C07.sanitiser', fn, f'statement tuple stored in declared field order {stored}', store, key='store-order')
    nob = 0
    for clause, required in GRAMMAR.items():
        assigns = [s for s in core.walk_local(fn.node) if isinstance(s, ast.Assign) and any(isinstance(t, ast.Name) and t.id == clause for t in s.targets)]
        if not assigns:
            ctx.fail('C07.sanitiser', fn, f'clause `{clause}` is stored without passing any validator', store, key=f'{clause}:unvalidated')
            continue
        applied = set()
        # the validated value must derive from the clause parameter itself - directly or through temporaries derived from it
        derived = {clause}
        local_assigns = [s for s in core.walk_local(fn.node) if isinstance(s, ast.Assign) and len(s.targets) == 1 and isinstance(s.targets[0], ast.Name)]
        grew = True
        while grew:
            grew = False
            for s in local_assigns:
                if s.targets[0].id not in derived and derived & core.names_in(s.value) and s.targets[0].id not in GRAMMAR and any(s.targets[0].id in core.names_in(a.value) for a in local_assigns if a.targets[0].id in derived):
                    derived.add(s.targets[0].id)
                    grew = True
        for a in local_assigns:
            if a.targets[0].id in derived and derived & core.names_in(a.value):
                applied |= _call_tails(a.value)
        # a pure validator (raises or hands its arguments back unchanged) may also be called for its check alone
        for st in core.walk_local(fn.node):
            if isinstance(st, ast.Expr) and isinstance(st.value, ast.Call) and core.call_name(st.value) == 'ensure_subset' and (derived - {clause}) & core.names_in(st.value):
                if all(graph.dominates(st, a) or not (isinstance(a.targets[0], ast.Name) and a.targets[0].id == clause) for a in assigns if derived & core.names_in(a.value)):
                    applied.add('ensure_subset')
        for v in required:
            nob += 1
            ctx.check(v in applied, 'C07.sanitiser', fn, f'`{clause}` passes through {v} before being stored', assigns[0], key=f'{clause}:{v}')
        for a in assigns:
            # the assignment is unconditional or guarded only by the presence of the clause
            gs = cfg.guards(a, fn.node, siblings=False)
            only_presence = all(core.src(t) in (f'{clause} is not None', clause) and pol for t, pol in gs)
            ctx.check(only_presence, 'C07.sanitiser', fn, f'`{clause}` validation is skipped only when the clause is absent (guards: {[core.src(t) for t, _ in gs]})', a, key=f'{clause}:guard')
            ctx.check(graph.reaches(a, rets[0]), 'C07.sanitiser', fn, f'validated `{clause}` reaches the store', a, key=f'{clause}:reaches')
    # ordering subset: a statement ensure_subset(... ordering ...) between the ordering assignment and the return on every path
    ords = [s for s in core.walk_local(fn.node) if isinstance(s, ast.Expr) and isinstance(s.value, ast.Call) and core.call_name(s.value) == 'ensure_subset' and 'ordering' in core.names_in(s.value)]
    ctx.check(bool(ords) and all(graph.dominates(o, rets[0]) for o in ords), 'C07.sanitiser', fn, 'ordering features are checked against the source (ensure_subset) on every path', ords[0] if ords else fn.node, key='ordering:ensure_subset')
    # grouping: every selected feature outside the grouping contains an aggregate
    agg = [c for c in core.calls_in(fn.node) if (core.call_name(c) or '').endswith('Aggregate.ensure_in')]
    good = False
    for c in agg:
        loop = next((a for a in core.ancestors(c) if isinstance(a, ast.For)), None)
        gs = [core.src(t) for t, pol in cfg.guards(c, fn.node) if pol]
        it = core.src(loop.iter) if loop is not None else ''
        # the *effective* selection: an empty selection means every feature of the source (cf. Query.features)
        effective = 'selection or source.features' in it or ('selection' in it and 'source.features' in it)
        if loop is not None and 'difference(grouping)' in it and effective and any(g == 'grouping' or g == 'grouping is not None' for g in gs):
            good = core.src(c.args[0]) == core.src(loop.target)
    ctx.check(good, 'C07.sanitiser', fn, 'with grouping, every selected feature outside the grouping must contain an aggregate (Aggregate.ensure_in over (selection or source.features) - grouping; an empty selection selects every source feature)', agg[0] if agg else fn.node, key='grouping:aggregate')
    # ensure_subset closure raises when the dissected elements are not within the source
    es = fn.nested('ensure_subset')
    raises = [n for n in core.walk_local(es.node) if isinstance(n, ast.Raise)]
    cond = cfg.cguards(raises[0], es.node) if raises else []
    ctx.check(any((not pol) and c.endswith('.issubset(superset)') and 'dissect(*features)' in c for c, pol in cond), 'C07.sanitiser', es, 'ensure_subset raises unless the dissected elements are a subset of the source elements', es.node, key='ensure_subset:raise')
    sup = [s for s in core.walk_local(fn.node) if isinstance(s, ast.Assign) and core.src(s.targets[0]) == 'superset']
    ctx.check(len(sup) == 1 and 'dissect(*source.features)' in core.src(sup[0].value), 'C07.sanitiser', fn, 'the superset is the element set of the queried source', sup[0] if sup else fn.node, key='superset')
    ctx.floor('C07.sanitiser', nob, 10)


def join_set(ctx) -> None:
    prog = ctx.prog
    fn = prog.func(f'{FRAME}:Join.__new__')
    raises = [n for n in core.walk_local(fn.node) if isinstance(n, ast.Raise)]
    conds = [(r, cfg.cguards(r, fn.node, siblings=True)) for r in raises]
    xor = any(any(pol and t.replace(' ', '') in ('(kindiscls.Kind.CROSS)^(conditionisNone)', '(conditionisNone)^(kindiscls.Kind.CROSS)') for t, pol in gs[-1:]) for _, gs in conds)
    ctx.check(xor, 'C07.join', fn, 'a cross join has no condition and every other join has one: raise under (kind is CROSS) xor (condition is None)', fn.node, key='join:xor')
    assigns = [s for s in core.walk_local(fn.node) if isinstance(s, ast.Assign) and core.src(s.targets[0]) == 'condition']
    ctx.check(len(assigns) >= 1, 'C07.join', fn, 'join condition is validated', fn.node, key='join:validated')
    applied = set()
    for a in assigns:
        if 'condition' in core.names_in(a.value):
            applied |= _call_tails(a.value)
        gs = cfg.guards(a, fn.node, siblings=False)
        ctx.check(all(core.src(t) == 'condition is not None' and pol for t, pol in gs), 'C07.join', fn, 'condition validation skipped only when absent', a, key='join:guard')
    for v in ('Predicate.ensure_is', 'Cumulative.ensure_notin'):
        ctx.check(v in applied, 'C07.join', fn, f'join condition passes through {v}', assigns[0] if assigns else fn.node, key=f'join:{v}')
    subset = any(any((not pol) and 'dissect(condition).issubset(' in t and 'left.features' in t and 'right.features' in t for t, pol in gs) for _, gs in conds)
    ctx.check(subset, 'C07.join', fn, 'join condition uses only elements of the two joined sources', fn.node, key='join:subset')
    ret = next((s for s in core.walk_local(fn.node) if isinstance(s, ast.Return)), None)
    ctx.check(ret is not None and [core.src(a) for a in ret.value.args[1:]] == ['left', 'right', 'kind', 'condition'], 'C07.join', fn, 'join tuple stored as (left, right, kind, condition)', ret, key='join:store')
    # the xor check precedes everything
    sfn = prog.func(f'{FRAME}:Set.__new__')
    sraises = [n for n in core.walk_local(sfn.node) if isinstance(n, ast.Raise)]
    sc = [(c.replace(' ', ''), pol) for r in sraises for c, pol in cfg.cguards(r, sfn.node)]
    ctx.check(any((c in ('left.schema!=right.schema', 'right.schema!=left.schema') and pol) or (c in ('left.schema==right.schema', 'right.schema==left.schema') and not pol) for c, pol in sc), 'C07.set', sfn, 'set operands must have equal schemas', sfn.node, key='set:schema')


def schema_equality(ctx) -> None:
    """Set operands must have *equal* schemas: the element-wise comparison through zip() must be paired with a length
    comparison (zip stops at the shorter operand, so a strict prefix would compare equal)."""
    prog = ctx.prog
    fn = prog.func(f'{FRAME}:Source.Schema.__eq__')
    shared.r_zipeq(ctx, fn, 'C07.schema-eq')
    feq = prog.func(f'{FRAME}:Query.features')
    text = core.src(feq.node)
    ctx.check('self.selection' in text and 'self.source.features' in text, 'C07.schema', feq, 'Query.features = selection, or every source feature when nothing is selected', feq.node, key='Query.features')


def validators(ctx) -> None:
    prog = ctx.prog
    feature = prog.cls(f'{SERIES}:Feature')
    spec = {
        'ensure_is': (('isinstance(feature, cls)', False), None),
        'ensure_in': (('cls.dissect(feature)', False), None),
        'ensure_notin': (('cls.dissect(feature)', True), None),
    }
    for name, (cond, _) in spec.items():
        fn = prog.func(f'{feature.ref}.{name}')
        raises = [n for n in core.walk_local(fn.node) if isinstance(n, ast.Raise)]
        got = [g for r in raises for g in cfg.cguards(r, fn.node)]
        ctx.check(got == [cond] and all('GrammarError' in core.src(r) for r in raises), 'C07.validator', fn, f'Feature.{name} raises GrammarError exactly when `{cond[0]}` is {cond[1]}', fn.node, key=f'Feature.{name}')
        rets = [s for s in core.walk_local(fn.node) if isinstance(s, ast.Return)]
        ctx.check(all(core.src(r.value) == 'feature' for r in rets), 'C07.validator', fn, f'Feature.{name} returns the feature unchanged', fn.node, key=f'Feature.{name}:return')
    pe = prog.func(f'{SERIES}:Predicate.ensure_is')
    text = core.src(pe.node)
    ctx.check('Boolean.ensure(feature.kind)' in text and 'cls is Predicate' in text, 'C07.validator', pe, 'bare Predicate.ensure_is demands a boolean kind', pe.node, key='Predicate.ensure_is')
    ke = prog.func(f'{KIND}:Any.ensure')
    raises = [n for n in core.walk_local(ke.node) if isinstance(n, ast.Raise)]
    got = [g for r in raises for g in cfg.cguards(r, ke.node)]
    ctx.check(got == [('cls.match(kind)', False)], 'C07.validator', ke, 'kind.ensure raises GrammarError for a mismatching kind', ke.node, key='Any.ensure')


ALLOWED_RAISERS = (
    f'{SERIES}:Feature.ensure_is', f'{SERIES}:Feature.ensure_in', f'{SERIES}:Feature.ensure_notin', f'{SERIES}:Predicate.ensure_is',
    f'{SERIES}:Ordering.make', f'{SERIES}:Comparison.__init__', f'{SERIES}:Arithmetic.__init__', f'{SERIES}:Window',
    f'{FRAME}:Source.Schema.__new__', f'{FRAME}:Query.__new__', f'{FRAME}:Join.__new__', f'{FRAME}:Set.__new__', f'{KIND}:Any.ensure',
    'forml.io.dsl.function',
)


def who_may_raise(ctx) -> None:
    prog = ctx.prog
    n = 0
    for fn in prog.functions([m for m in prog.modules if m.startswith('forml.io.dsl')]):
        for r in core.walk_local(fn.node):
            if isinstance(r, ast.Raise) and r.exc is not None and 'GrammarError' in core.src(r.exc):
                n += 1
                ok = fn.ref.startswith(ALLOWED_RAISERS)
                ctx.check(ok, 'C07.who-may-raise', fn, 'GrammarError raised inside a validator / constructor / operand check (a conforming statement cannot hit a stray raise)', r)
    ctx.floor('C07.who-may-raise', n, 9)


def operand_checks(ctx) -> None:
    prog = ctx.prog
    feature = prog.cls(f'{SERIES}:Feature')
    mixins = {n: prog.cls(f'{SERIES}:{n}') for n in ('Comparison', 'Arithmetic', 'Logical')}
    n = 0
    nabs = 0
    for ci in prog.subclasses(feature):
        abstract_left = ci.abstract_names()
        is_abstract_decl = (ci.metaclass or '').endswith('ABCMeta') or bool(abstract_left)
        for mname, mixin in mixins.items():
            if ci is not mixin and ci.is_subclass_of(mixin) and not is_abstract_decl:
                found = ci.lookup('__init__')
                n += 1
                owner = found[0] if found else None
                ctx.check(owner is not None and owner.is_subclass_of(mixin) if owner is not mixin else True, 'C07.operands', ci.ref, f'{ci.name}.__init__ resolves to the {mname} operand check (resolved: {owner.qual if owner else None})', key=f'{ci.name}:init', loc=f'{ci.module.relpath}:{ci.node.lineno}')
        if not is_abstract_decl and ci.module.name.startswith('forml.io.dsl'):
            nabs += 1
            ctx.check(not abstract_left, 'R-ABSTRACT', ci.ref, f'{ci.name} resolves every abstract member (unresolved: {sorted(abstract_left)})', key=f'{ci.name}:abstract', loc=f'{ci.module.relpath}:{ci.node.lineno}')
    ctx.floor('C07.operands', n, 15)
    # the checking __init__ bodies raise under the kind conditions
    cmp_init = prog.func(f'{SERIES}:Comparison.__init__')
    text = core.src(cmp_init.node)
    ctx.check('Numeric.match(o.kind)' in text and 'o.kind == operands[0].kind' in text and 'GrammarError' in text, 'C07.operands', cmp_init, 'comparison operands must be all numeric or of one kind', cmp_init.node, key='Comparison.__init__')
    # ... as a disjunction of two *universally quantified* conditions: all numeric, or all of the first operand's kind. Folding
    # the disjunction into one quantifier (all(numeric(o) or same(o))) accepts mixed pairs such as (String, Integer)
    raises = [r for r in core.walk_local(cmp_init.node) if isinstance(r, ast.Raise)]
    okq = False
    if len(raises) == 1:
        gs = cfg.cguards(raises[0], cmp_init.node)
        if len(gs) == 2 and all(pol is False for _, pol in gs):
            try:
                t = ast.BoolOp(op=ast.Or(), values=[ast.parse(g, mode='eval').body for g, _ in gs])
            except SyntaxError:
                t = None
            if isinstance(t, ast.BoolOp) and isinstance(t.op, ast.Or) and len(t.values) == 2 and all(isinstance(v, ast.Call) and core.call_name(v) == 'all' and len(v.args) == 1 and isinstance(v.args[0], ast.GeneratorExp) and not isinstance(v.args[0].elt, ast.BoolOp) and not v.args[0].generators[0].ifs for v in t.values):
                elts = sorted(core.src(v.args[0].elt) for v in t.values)
                okq = any('Numeric.match(' in e for e in elts) and any('.kind == operands[0].kind' in e or 'operands[0].kind ==' in e for e in elts)
    ctx.check(okq, 'C07.operands', cmp_init, 'the operand test is `all numeric` OR `all of the first operand\'s kind` - two separate quantifiers, refused otherwise', raises[0] if raises else cmp_init.node, key='Comparison.__init__:quantifiers')
    ar_init = prog.func(f'{SERIES}:Arithmetic.__init__')
    text = core.src(ar_init.node)
    ctx.check('not all(' in text and 'Numeric.match(o.kind)' in text and 'GrammarError' in text, 'C07.operands', ar_init, 'arithmetic operands must be numeric', ar_init.node, key='Arithmetic.__init__')
    # validators run for *every* operand: never inside a short-circuiting construct (all()/any() stop at the first falsy/truthy
    # value - and an Equal predicate is falsy unless its operands are identical; `and`/`or` likewise)
    nv = 0
    for vfn in prog.functions([m for m in prog.modules if m.startswith('forml.io.dsl._struct')]):
        for c in core.calls_in(vfn.node, deep=False):
            if isinstance(c.func, ast.Attribute) and c.func.attr in ('ensure_is', 'ensure_in', 'ensure_notin'):
                nv += 1
                lazy = None
                for a in core.ancestors(c):
                    if a is vfn.node:
                        break
                    if isinstance(a, ast.Call) and core.call_name(a) in ('all', 'any') and a.args and isinstance(a.args[0], (ast.GeneratorExp, ast.ListComp)) and (a.args[0].elt is c or any(c is x for x in ast.walk(a.args[0].elt))):
                        lazy = a
                    if isinstance(a, ast.BoolOp) and any(c is x for v in a.values[1:] for x in ast.walk(v)):
                        lazy = a
                ctx.check(lazy is None, 'C07.operands', vfn, f'`{core.src(c)[:50]}` validates unconditionally (found inside the short-circuiting `{core.src(lazy)[:60] if lazy is not None else ""}`)', c)
    ctx.floor('C07.validator-calls', nv, 10)
    lg_init = prog.func(f'{SERIES}:Logical.__init__')
    lf = [x for x in lg_init.body if isinstance(x, ast.For)]
    ctx.check(len(lf) == 1 and core.src(lf[0].iter) == 'operands' and [core.src(b) for b in lf[0].body] == [f'Predicate.ensure_is({core.src(lf[0].target)})'], 'C07.operands', lg_init, 'every logical operand is checked to be a predicate', lg_init.node, key='Logical.__init__:each')
    ctx.check('Predicate.ensure_is(arg)' in core.src(lg_init.node), 'C07.operands', lg_init, 'logical operands must be predicates', lg_init.node, key='Logical.__init__')


def r_attr(ctx, tenv) -> None:
    """Attribute reads on values typed as a DSL family class resolve on that class (or are guarded)."""
    prog = ctx.prog
    n = 0
    roots = {f'{SERIES}:Feature', f'{SERIES}:Operable', f'{FRAME}:Source', f'{FRAME}:Statement', f'{FRAME}:Queryable', f'{FRAME}:Origin'}
    # scope: the source family code that derives schemas/features (frame.py); series.py relies on constructor-validated
    # operand kinds that the annotations do not express (self.left.factors), which would be false alarms
    for fn in prog.functions([FRAME, 'forml.io.dsl._struct']):
        env = tenv.locals(fn)
        for node in core.walk_local(fn.node):
            if not isinstance(node, ast.Attribute) or not isinstance(node.ctx, ast.Load):
                continue
            bt = types.strip_opt(tenv.expr_type(fn, node.value, env))
            if not bt or bt[0] != 'cls' or bt[1] not in roots:
                continue
            ci = prog.classes[bt[1]]
            n += 1
            if node.attr.startswith('__') or ci.lookup(node.attr) is not None or ci.annotation(node.attr) is not None:
                continue
            # defined only on some subclasses: needs a guard
            partial = [c.name for c in prog.subclasses(ci) if node.attr in c.methods or node.attr in c.assigns or node.attr in c.annotations]
            gs = [core.src(t) for t, pol in cfg.guards(node, fn.node) if pol]
            guarded = any(('isinstance' in g or 'hasattr' in g) and core.src(node.value) in g for g in gs)
            in_try = any(isinstance(a, ast.Try) and any('AttributeError' in core.src(h.type) for h in a.handlers if h.type) for a in core.ancestors(node))
            if isinstance(core.parent(node), ast.Call) and core.call_name(core.parent(node)) == 'getattr':
                guarded = True
            ctx.check(
                guarded or in_try or not partial, 'R-ATTR', fn,
                f'`{core.src(node)}`: attribute `{node.attr}` is not defined on {ci.name} (only on {partial[:6]}); an un-named feature raises AttributeError here',
                node,
            )
    ctx.floor('R-ATTR', n, 12)
    sch = prog.func(f'{FRAME}:Source.schema')
    text = core.src(sch.node)
    ctx.check('enumerate(self.features)' in text and '.kind' in text, 'C07.schema', sch, 'schema lists the output features in order with their kinds', sch.node, key='schema:order')
    # ... in *one pass*: the field mapping handed to the schema class is a single unfiltered comprehension (or loop) over
    # enumerate(self.features); a union of a "named" and an "anonymous" part lists all named fields first
    body = sch.node
    merges = [n for n in core.walk_local(body) if (isinstance(n, ast.BinOp) and isinstance(n.op, ast.BitOr) and any(isinstance(x, (ast.Dict, ast.DictComp, ast.Name)) for x in (n.left, n.right))) or (isinstance(n, ast.Dict) and any(k is None for k in n.keys)) or (isinstance(n, ast.Call) and isinstance(n.func, ast.Attribute) and n.func.attr == 'update')]
    filtered = [n for n in core.walk_local(body) if isinstance(n, (ast.DictComp, ast.ListComp, ast.GeneratorExp, ast.SetComp)) and any(g.ifs for g in n.generators) and 'features' in core.src(n)]
    passes = [n for n in core.walk_local(body) if (isinstance(n, (ast.DictComp, ast.ListComp, ast.GeneratorExp)) and any('self.features' in core.src(g.iter) for g in n.generators)) or (isinstance(n, ast.For) and 'self.features' in core.src(n.iter))]
    ctx.check(not merges and not filtered and len(passes) == 1, 'C07.schema', sch, f'the schema namespace is built in one unfiltered pass over the features - no merge of partial mappings ({[core.src(m)[:40] for m in merges + filtered]}; passes: {len(passes)})', (merges + filtered + [sch.node])[0], key='schema:one-pass')


def element_scope(ctx) -> None:
    """Membership of a condition / selection in the features of its source is judged over *elements* (every origin-bound
    feature, including those bound to a reference), never over plain table columns only."""
    n = shared.r_element(ctx, [f'{FRAME}:Join.__new__', f'{FRAME}:Query.__new__', f'{FRAME}:Query.__new__.ensure_subset'] if ctx.prog.has_func(f'{FRAME}:Query.__new__.ensure_subset') else [f'{FRAME}:Join.__new__', f'{FRAME}:Query.__new__'], rule='R-ELEMENT')
    ctx.floor('R-ELEMENT', n, 3)
    element = ctx.prog.cls(f'{SERIES}:Element')
    for ref in (f'{FRAME}:Join.__new__', f'{FRAME}:Query.__new__'):
        fn = ctx.prog.func(ref)
        for c in core.calls_in(fn.node):
            if isinstance(c.func, ast.Attribute) and c.func.attr == 'dissect':
                recv = ctx.prog.resolve_expr(fn, c.func.value)
                ctx.check(recv is element, 'R-ELEMENT', fn, f'`{core.src(c)[:60]}`: subset validation dissects into Elements (a Column-only view skips reference-bound elements, so foreign references pass)', c)
    jn = ctx.prog.func(f'{FRAME}:Join.__new__')
    sub = [c for c in core.calls_in(jn.node) if isinstance(c.func, ast.Attribute) and c.func.attr == 'issubset']
    ok = len(sub) == 1 and 'dissect(condition)' in core.src(sub[0].func.value) and core.src(sub[0].args[0]).endswith('dissect(*left.features, *right.features)')
    ctx.check(ok, 'C07.join', jn, 'the join condition is checked against the elements of both joined sides', sub[0] if sub else jn.node, key='Join:subset')


def run(ctx) -> None:
    from . import C08 as _c08

    _c08.class_exact_eq(ctx)  # operand-kind checks of comparisons / set operations rest on exact kind equality
    _c08.no_call_memo(ctx)  # a conforming statement never raises: a per-call memo would hash array / map literals (TypeError)
    element_scope(ctx)
    tenv = types.TypeEnv(ctx.prog)
    query_sanitisers(ctx)
    join_set(ctx)
    schema_equality(ctx)
    validators(ctx)
    who_may_raise(ctx)
    operand_checks(ctx)
    from . import C08

    C08.r_eqhash(ctx)  # kind and schema equality are what "compatible kinds" / "equal schemas" are decided with
    r_attr(ctx, tenv)
    shared.argname_scope(ctx, ('forml.io.dsl._struct',), floor=2)
