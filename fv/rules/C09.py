"""C09 - a feed is selected exactly when it can resolve the statement (DESIGN.md section 4/C09)."""
from __future__ import annotations

import ast

from .. import cfg, core
from . import shared

EXPLANATION = (
    'Static decision of the structural clauses of C09: (1) R-SIBLING matcher <=> parser - for every source kind of the '
    'Source.Visitor interface the coverage matcher may accept the kind without descending (guard `source in sources`) only if '
    'the parser can resolve that kind from the source mapping without first resolving its children: visit_<kind> is wrapped '
    'by bypass(resolve_source) and inside the wrapper the override is consulted before the wrapped method runs; leaves '
    '(visit_table) resolve unconditionally in the parser and veto in the matcher; (2) priority order - the pool is sorted '
    'descending over Slot.__lt__ (priority comparison, explicit instances infinite), match() returns at the first feed whose '
    'matcher accepts and raises MissingError only after the loop; the matcher is fresh per feed, built from that feed\'s '
    'sources, and accepts only while no leaf vetoed. Feeds whose sources mapping is computed dynamically are not decided.'
)
ASSUMPTIONS = ['sorted() is stable and uses __lt__; feed.sources is the mapping the feed parser is built from']
MANIFEST = {
    'level': 'Static agreement check between two sibling implementations of one visitor interface (what the matcher treats '
             'as covered vs. what the parser can actually resolve), plus CFG rules on the selection loop. The agreement is '
             'relational over all (statement, advertised-set) pairs and decided per source kind from the two classes.',
    'note': 'Trusted: stdlib ast. The disagreement found on the pinned tree (advertised join/set/query/reference) is a listed '
            'known finding (K4). Not decided: dynamically computed source mappings.',
    'technique': 'static analysis: sibling visitor agreement over the class table (R-SIBLING), CFG order rule inside the '
                 'bypass wrapper, first-match / raise-after-loop rule, comparison-method resolution',
}

INPUT = 'forml.io._input'
PARSER = 'forml.io.dsl.parser'
FRAME = shared.FRAME


def sibling(ctx) -> None:
    prog = ctx.prog
    base = prog.cls(f'{FRAME}:Source.Visitor')
    matcher = prog.cls(f'{INPUT}:Importer.Matcher')
    parser = prog.cls(f'{PARSER}:Visitor')
    kinds = [m for m in base.methods if m.startswith('visit_') and m != 'visit_source']
    ctx.floor('C09.kinds', len(kinds), 5)
    # bypass wrapper: is the override consulted before the wrapped method?
    wrapped = prog.func(f'{PARSER}:bypass.decorator.wrapped')
    graph = cfg.CFG(wrapped.node)
    method_calls = [s for s in graph.statements() if any(core.src(c.func) == 'method' for c in cfg.header_calls(s))]
    tr = next((s for s in wrapped.body if isinstance(s, ast.Try)), None)
    if tr is None or not method_calls:
        raise core.AnalysisError('bypass.wrapped: try/override idiom not found')
    override_first = False
    if tr.orelse:
        success = tr.orelse[0]
        # override-first means: there is a path to the success arm that does not run the wrapped method
        override_first = graph.reaches(cfg.ENTRY, success, avoid=method_calls)
    ctx.sample({'bypass_override_consulted_before_wrapped_method': override_first})
    # only the override lookup is allowed to "miss": the wrapped visit itself runs outside every handler of UnprovisionedError,
    # so a source that really is unprovisioned below this node is reported, never swallowed
    handled = [c for t in ast.walk(wrapped.node) if isinstance(t, ast.Try) and any(h.type is None or 'Unprovisioned' in core.src(h.type) or core.src(h.type) in ('Exception', 'BaseException') for h in t.handlers) for st in t.body for c in core.calls_in(st) if core.src(c.func) == 'method']
    ctx.check(not handled, 'R-SIBLING', wrapped, 'the wrapped visit method is not called under a handler of UnprovisionedError (an unprovisioned source below the node must surface)', handled[0] if handled else wrapped.node, key='bypass:method-unhandled')
    inside = [core.src(st) for st in tr.body]
    ctx.check(len(inside) == 1 and 'override(self, subject)' in inside[0], 'R-SIBLING', wrapped, f'the try block holds the override lookup only ({inside})', tr, key='bypass:try-body')
    for k in kinds:
        mfn = matcher.methods.get(k)
        pfn = parser.methods.get(k)
        if pfn is None:
            ctx.fail('R-SIBLING', parser.ref, f'parser lacks {k}', key=k, loc=parser.module.relpath)
            continue
        pinfo = prog.func(f'{parser.ref}.{k}')
        decos = [core.src(d) for d in pfn.decorator_list]
        bypassed = any(d.replace(' ', '') in ('bypass(resolve_source)',) for d in decos)
        resolves_unconditionally = any(core.src(c.func) == 'self.resolve_source' for st in pfn.body[:2] for c in core.calls_in(st) + ([st.value] if isinstance(st, ast.Expr) and isinstance(st.value, ast.Call) else []))
        if mfn is None:
            ctx.ok('R-SIBLING', matcher.ref, f'matcher inherits {k}: always descends')
            continue
        minfo = prog.func(f'{matcher.ref}.{k}')
        supers = [c for c in core.calls_in(mfn) if isinstance(c.func, ast.Attribute) and c.func.attr == k and core.src(c.func.value) == 'super()']
        if not supers and k != 'visit_table':
            ctx.fail('R-SIBLING', minfo, f'the matcher overrides {k} without ever descending (no super().{k}(source)): the tables below a {k[6:]} are never checked against the advertised sources', mfn, key=f'{k}:no-descent')
            continue
        unadvertised = cfg.cg(('source not in self._sources', True))[0]
        skips = bool(supers) and any(unadvertised in cfg.cguards(c, mfn) for c in supers)
        if skips and any(g not in (unadvertised, ('self', True)) for c in supers for g in cfg.cguards(c, mfn)):
            skips = False
        if supers and not skips:
            # any other guard in front of the descent must be recognised, otherwise coverage is undecided
            odd = [g for c in supers for g in cfg.cguards(c, mfn)]
            if odd:
                ctx.fail('R-SIBLING', minfo, f'the descent into {k[6:]} is guarded by an unrecognised condition {odd}: an unadvertised source must be descended into (until a table vetoes), an advertised one may be skipped', mfn, key=f'{k}:guard')
        vetoes = any(isinstance(s, ast.Assign) and core.src(s.targets[0]) == 'self._matches' and core.is_const(s.value, False) for s in ast.walk(mfn))
        if k == 'visit_table':
            ok_veto = vetoes and all(cfg.cguards(s, mfn) == cfg.cg(('source not in self._sources', True)) for s in ast.walk(mfn) if isinstance(s, ast.Assign) and core.src(s.targets[0]) == 'self._matches')
            ctx.check(ok_veto, 'R-SIBLING', minfo, 'a table outside the advertised sources vetoes the match', mfn, key='visit_table:veto')
            ctx.check(resolves_unconditionally, 'R-SIBLING', pinfo, 'the parser resolves a table through the source mapping unconditionally', pfn, key='visit_table:resolve')
            continue
        if skips:
            good = bypassed and override_first
            why = []
            if not bypassed:
                why.append(f'parser.{k} is not wrapped by bypass(resolve_source)')
            elif not override_first:
                why.append('bypass runs the wrapped method (which resolves the leaves and raises UnprovisionedError) before consulting the override')
            ctx.check(
                good, 'R-SIBLING', minfo,
                f'matcher accepts an advertised {k[6:]} without descending, so the parser must resolve it from the mapping without resolving its children' + (': ' + '; '.join(why) if why else ''),
                mfn, key=f'{k}:skip-vs-bypass',
            )
        else:
            ctx.ok('R-SIBLING', minfo, f'matcher always descends into {k[6:]}', mfn)


def membership(ctx) -> None:
    """Matcher and parser decide "provisioned" by the same test - *key membership* in the advertised mapping: the matcher vetoes
    with ``source not in self._sources``; the parser's resolve_source raises UnprovisionedError exactly on a missing key
    (KeyError of the subscript, or an explicit membership test) - never on the *value* of the handle (a feed may map a source
    to None or to any falsy native object, e.g. forml.testing's Feed advertises {DataSet: None})."""
    prog = ctx.prog
    rs = prog.func(f'{PARSER}:Visitor.resolve_source')
    src_p = rs.param_names[1]
    raises = [r for r in core.walk_local(rs.node) if isinstance(r, ast.Raise) and r.exc is not None and 'UnprovisionedError' in core.src(r.exc)]
    ctx.floor('C09.membership', len(raises), 1)
    for r in raises:
        handler = next((a for a in core.ancestors(r) if isinstance(a, ast.ExceptHandler)), None)
        ok = False
        if handler is not None and handler.type is not None and core.src(handler.type) == 'KeyError':
            tr = next((a for a in core.ancestors(handler) if isinstance(a, ast.Try)), None)
            subs = [n for st in (tr.body if tr else []) for n in ast.walk(st) if isinstance(n, ast.Subscript) and core.src(n.value) == 'self._sources' and core.src(n.slice) == src_p]
            others = [c for st in (tr.body if tr else []) for c in core.calls_in(st)]
            ok = bool(subs) and not others  # the only KeyError source in the try body is the mapping subscript
        else:
            g = cfg.cguards(r, rs.node, siblings=True)
            ok = g in ([(f'{src_p} in self._sources', False)], [(f'{src_p} not in self._sources', True)])
        ctx.check(ok, 'C09.membership', rs, 'UnprovisionedError is raised exactly when the source is not a key of the mapping (membership, as in the matcher) - not depending on the mapped value', r, key='resolve_source:membership')
    rets = [r for r in core.walk_local(rs.node) if isinstance(r, ast.Return)]
    ctx.check(bool(rets) and all(core.src(r.value) == f'self._sources[{src_p}]' or (isinstance(r.value, ast.Name)) for r in rets), 'C09.membership', rs, 'the mapped handle is returned as it is', rs.node, key='resolve_source:return')
    # no truthiness / None test on the looked-up handle anywhere in resolve_source
    bad = [n for n in core.walk_local(rs.node) if isinstance(n, ast.Call) and isinstance(n.func, ast.Attribute) and n.func.attr == 'get' and core.src(n.func.value) == 'self._sources']
    ctx.check(not bad, 'C09.membership', rs, 'resolve_source does not use a defaulting lookup (a None default is indistinguishable from a None handle)', bad[0] if bad else rs.node, key='resolve_source:no-get')
    matcher = prog.cls(f'{INPUT}:Importer.Matcher')
    mi = prog.func(f'{matcher.ref}.__init__')
    ctx.check(any(core.src(n) in ("self._sources: frozenset['dsl.Source'] = frozenset(sources)", 'self._sources = frozenset(sources)') for n in core.walk_local(mi.node) if isinstance(n, (ast.Assign, ast.AnnAssign))), 'C09.membership', mi, 'the matcher tests membership in exactly the advertised sources (the keys of the feed mapping)', mi.node, key='matcher:sources')


def priority(ctx) -> None:
    prog = ctx.prog
    imp = prog.cls(f'{INPUT}:Importer')
    init = prog.func(f'{imp.ref}.__init__')
    srt = next((c for c in core.calls_in(init.node) if core.call_name(c) == 'sorted'), None)
    ok = srt is not None and any(k.arg == 'reverse' and core.is_const(k.value, True) for k in srt.keywords) and not any(k.arg == 'key' for k in srt.keywords)
    ctx.check(ok, 'C09.priority', init, 'the pool is ordered by descending slot priority (sorted(reverse=True) over Slot.__lt__)', init.node, key='init:sorted')
    lt = prog.func(f'{imp.ref}.Slot.__lt__')
    ctx.check(core.src(lt.body[-1]) == 'return self.priority < other.priority', 'C09.priority', lt, 'slots compare by priority', lt.node, key='slot:lt')
    pr = prog.func(f'{imp.ref}.Slot.priority')
    ctx.check("float('inf')" in core.src(pr.node) and 'self._descriptor.priority' in core.src(pr.node), 'C09.priority', pr, 'explicit instances outrank configured feeds; configured feeds use their configured priority', pr.node, key='slot:priority')
    # configured priorities keep their full (fractional) value and their field position
    fe = prog.func('forml.setup._provider:Feed._extract')
    ret = next((r for r in core.walk_local(fe.node) if isinstance(r, ast.Return)), None)
    okp = ret is not None and isinstance(ret.value, ast.Tuple) and isinstance(ret.value.elts[0], ast.List) and [core.src(e) for e in ret.value.elts[0].elts] == ['reference', 'float(priority)']
    ctx.check(okp, 'C09.priority', fe, 'the configured priority is kept as a float (no truncation: 1.2 and 1.7 are different priorities) in the (reference, priority) field order', ret or fe.node, key='feed:priority-float')
    # the pool priority is the section's own option: it is taken out *before* the generic extraction flattens `params` into the
    # keyword arguments (a provider parameter that happens to be called priority must neither override it nor be swallowed)
    g = cfg.CFG(fe.node)
    pops = [st for st in g.statements() if any(isinstance(c.func, ast.Attribute) and c.func.attr == 'pop' and c.args and 'PRIORITY' in core.src(c.args[0]).upper() for c in cfg.header_calls(st))]
    sups = [st for st in g.statements() if any(core.src(c.func) == 'super()._extract' for c in cfg.header_calls(st))]
    ctx.check(len(pops) == 1 and len(sups) == 1 and g.dominates(pops[0], sups[0]), 'C09.priority', fe, 'the priority option is popped before the generic extraction merges the provider params', fe.node, key='feed:priority-before-params')
    copies = [a for a in core.walk_local(fe.node) if isinstance(a, ast.Assign) and core.src(a.targets[0]) == 'kwargs' and core.src(a.value) == 'dict(kwargs)']
    ctx.check(len(copies) == 1 and bool(pops) and copies[0].lineno < pops[0].lineno, 'C09.priority', fe, 'the caller\'s option mapping is copied before anything is popped from it', fe.node, key='feed:copy-before-pop')
    rb = [a for a in core.walk_local(fe.node) if isinstance(a, ast.Assign) and any(core.src(c.func) == 'super()._extract' for c in core.calls_in(a))]
    ctx.check(len(rb) == 1 and core.src(rb[0].targets[0]) in ('([reference], kwargs)', '[reference], kwargs') and [core.src(x) for x in rb[0].value.args] == ['reference', 'kwargs'], 'C09.priority', fe, f'the provider reference is the one the generic extraction resolved (re-bound from its result: `{core.src(rb[0].targets[0]) if rb else None}`), not the section name', rb[0] if rb else fe.node, key='feed:reference-rebound')
    fields = prog.cls('forml.setup._provider:Feed').assigns.get('FIELDS')
    ctx.check(fields is not None and core.src(fields) == "('reference', 'priority', 'params')", 'C09.priority', 'forml.setup._provider:Feed', 'feed section fields are (reference, priority, params)', key='feed:fields', loc='forml/setup/_provider.py')
    flt = prog.func('forml.setup._provider:Feed.__lt__')
    ctx.check('self.priority < other.priority' in core.src(flt.node) and 'self.priority == other.priority' in core.src(flt.node), 'C09.priority', flt, 'feed descriptors order by priority (ties by reference)', flt.node, key='feed:lt')
    it = prog.func(f'{imp.ref}.__iter__')
    ctx.check('for feed in self._feeds' in core.src(it.node) and 'yield feed.instance' in core.src(it.node), 'C09.priority', it, 'iteration follows the sorted pool', it.node, key='iter')
    m = prog.func(f'{imp.ref}.match')
    loops = [s for s in m.body if isinstance(s, ast.For)]
    if len(loops) != 1:
        ctx.fail('C09.priority', m, 'selection loop not found', m.node, key='match:loop')
        return
    lp = loops[0]
    fvar = core.src(lp.target)
    ctx.check(core.src(lp.iter) == 'self', 'C09.priority', m, 'feeds are tried in pool order', lp, key='match:order')
    body = [core.src(s) for s in lp.body]
    mk = next((s for s in lp.body if isinstance(s, ast.Assign) and 'Matcher(' in core.src(s.value)), None)
    ctx.check(mk is not None and core.src(mk.value) == f'self.Matcher({fvar}.sources)', 'C09.priority', m, 'a fresh matcher per feed, built from that feed\'s advertised sources', mk or lp, key='match:matcher')
    mvar = core.src(mk.targets[0]) if mk is not None else 'matcher'
    ctx.check(f'source.accept({mvar})' in body, 'C09.priority', m, 'the statement is walked by the matcher', lp, key='match:accept')
    # every feed of the pool is put before the matcher: nothing leaves the round (continue / break / return) before the walk
    acc_at = next((k for k, s_ in enumerate(lp.body) if core.src(s_) == f'source.accept({mvar})'), None)
    early = [x for k, s_ in enumerate(lp.body) if acc_at is None or k < acc_at for x in ast.walk(s_) if isinstance(x, (ast.Continue, ast.Break, ast.Return))]
    ctx.check(acc_at is not None and not early, 'C09.priority', m, 'no feed is passed over without asking the matcher (a count or any other shortcut cannot know what an advertised join or sub-query covers)', early[0] if early else lp, key='match:every-feed')
    rets = [r for r in ast.walk(lp) if isinstance(r, ast.Return)]
    okr = len(rets) == 1 and core.src(rets[0].value) == fvar and [core.src(t) for t, pol in cfg.guards(rets[0], m.node, siblings=False) if pol] == [mvar]
    ctx.check(okr, 'C09.priority', m, 'the first (highest-priority) accepting feed is returned', lp, key='match:first')
    raises = [r for r in core.walk_local(m.node) if isinstance(r, ast.Raise)]
    ctx.check(bool(raises) and all('MissingError' in core.src(r) and not any(r is n for n in ast.walk(lp)) for r in raises), 'C09.priority', m, 'MissingError is raised only after every feed was tried', m.node, key='match:raise-after')
    matcher = prog.cls(f'{imp.ref}.Matcher')
    mi = prog.func(f'{matcher.ref}.__init__')
    ctx.check('self._matches: bool = True' in core.src(mi.node) or 'self._matches = True' in core.src(mi.node), 'C09.priority', mi, 'a matcher starts accepting', mi.node, key='matcher:init')
    mb = prog.func(f'{matcher.ref}.__bool__')
    ctx.check(core.src(mb.body[-1]) == 'return self._matches', 'C09.priority', mb, 'and reports whether any leaf vetoed', mb.node, key='matcher:bool')
    writes = [s for name, mm in matcher.methods.items() if name != '__init__' for s in ast.walk(mm) if isinstance(s, (ast.Assign, ast.AnnAssign)) and core.src(s.targets[0] if isinstance(s, ast.Assign) else s.target) == 'self._matches' and not core.is_const(s.value, False)]
    ctx.check(not writes, 'C09.priority', matcher.ref, 'a veto is never revoked', key='matcher:monotone', loc=matcher.module.relpath)


def pool_complete(ctx) -> None:
    """Every configured feed reference becomes a member of the pool: ``Multi._lookup`` builds one section per reference and
    keeps them all (sorted, not de-duplicated) - feed descriptors compare equal by provider (priority aside), so a set would
    collapse two [FEED.*] sections backed by one provider class into one and the importer would never see the other."""
    prog = ctx.prog
    fn = prog.func('forml.setup._conf:Multi._lookup').normal()
    ret = next((r for r in core.walk_local(fn.node) if isinstance(r, ast.Return)), None)
    ok = False
    v = ret.value if ret is not None else None
    while isinstance(v, ast.Call) and isinstance(v.func, ast.Name) and v.func.id in ('tuple', 'list', 'sorted') and len(v.args) == 1:
        v = v.args[0]
    if isinstance(v, (ast.GeneratorExp, ast.ListComp)) and len(v.generators) == 1 and not v.generators[0].ifs:
        g = v.generators[0]
        ok = isinstance(v.elt, ast.Call) and core.src(v.elt.func) == 'cls' and [core.src(a) for a in v.elt.args] == [core.src(g.target)] and not any(isinstance(x, (ast.Set, ast.SetComp, ast.Dict, ast.DictComp)) or (isinstance(x, ast.Call) and isinstance(x.func, ast.Name) and x.func.id in ('set', 'frozenset', 'dict')) for x in ast.walk(g.iter))
    orig = prog.func('forml.setup._conf:Multi._lookup')
    ctx.check(ok, 'C09.pool', orig, 'one section per configured reference, all of them kept (no set / dict in between)', orig.node, key='lookup:complete')


def run(ctx) -> None:
    pool_complete(ctx)
    sibling(ctx)
    membership(ctx)
    priority(ctx)
    shared.argname_scope(ctx, ('forml.io._input', 'forml.setup._provider'), floor=2)
