"""C01 - compiled instruction table preserves the task-graph dataflow (DESIGN.md section 4/C01)."""
from __future__ import annotations

import ast

from .. import cfg, core
from . import shared

EXPLANATION = (
    'Static decision of the argument-order and state-binding clauses of the compiler (each a dataflow fact): (a) port order '
    '- in Linkage.update every insert(R, A, I) has R = s.node.uid and I = s.port for the same subscription s; A is the '
    'publishing node uid (single-output branch, guarded by szout == 1, iterating output[0]) or the key returned by getter(i) '
    'where i is the enumerate index of the very output whose subscriptions are iterated; the getter itself is linked to the '
    'node; insert stores the argument at the absolute index and rejects collisions; (b) getter index - the getter factory '
    'passes the index unchanged and Getter.execute subscripts its argument with the stored index; (c) state prefix - '
    'preset_state() and prepend(node.uid, state) occur together under one condition, prefixed arguments are yielded before '
    'absolute ones, Preset.reduce consumes the first positional argument; (d) persistence sites - Loader only under '
    'persistent and keyed by the group id; Dumper/Committer only under trained and persistent; the committer position is '
    'assets.offset(gid) evaluated before the loader is re-keyed; State.load uses the same offset; commit checks the count; '
    '(e) once-only - the traversal marks a node seen before descending and masks subscribers with unseen; Table.add rejects a '
    'uid already present; a trained node links no consumers. NOT decided: that the emitted table evaluates to the graph '
    'denotation for every topology (alias merge, stub getter pruning) - translation validation needs executing the table.'
)
ASSUMPTIONS = ['node.output[i] holds the subscriptions of output port i; Subscription = (node, port)']
MANIFEST = {
    'level': 'Static def-use/dominance facts about the argument order, getter indices, state prefixing and persistence sites '
             'of the compiler - the places the property says go wrong only on shapes no test builds (multi-output + forks + '
             'partial persistence). Holds for every topology because it is a statement about the compiler code, not about a '
             'compiled sample. The full translation-validation claim is not made.',
    'note': 'Trusted: stdlib ast. Not decided: evaluation equivalence of the emitted symbol table (Table.__iter__ alias merge '
            'via groupby, stub-getter pruning) for arbitrary topologies.',
    'technique': 'static analysis: def-use agreement of call arguments with loop variables (port order), CFG dominance / '
                 'ordering (offset-before-rekey, guards over persistence sites), same-block pairing rule, index pass-through',
}

COMPILER = 'forml.flow._code.compiler'
SYSTEM = 'forml.flow._code.target.system'
USER = 'forml.flow._code.target.user'
SPAN = 'forml.flow._graph.span'
ACCESS = 'forml.io.asset._access'


def port_order(ctx) -> None:
    prog = ctx.prog
    fn = prog.func(f'{COMPILER}:Table.Linkage.update')
    inserts = [c for c in core.calls_in(fn.node) if core.src(c.func) == 'self.insert']
    ctx.floor('C01.inserts', len(inserts), 3)
    getter_param = [p for p in fn.param_names if p not in ('self', 'node')][0]
    n3 = n2 = 0
    for c in inserts:
        loops = [a for a in core.ancestors(c) if isinstance(a, ast.For)]
        if len(c.args) == 3:
            n3 += 1
            inner = loops[0] if loops else None
            s = core.src(inner.target) if inner is not None else None
            recv, arg, idx = [core.src(a) for a in c.args]
            ctx.check(s is not None and recv == f'{s}.node.uid' and idx == f'{s}.port', 'C01.port-order', fn, f'insert(receiver={recv}, argument={arg}, index={idx}): receiver and input port come from the same subscription `{s}`', c)
            gs = [(core.src(t), pol) for t, pol in cfg.guards(c, fn.node, siblings=False)]
            single = any(t.replace(' ', '') == 'node.szout==1' and pol for t, pol in gs)
            if single:
                ctx.check(arg == 'node.uid' and inner is not None and core.src(inner.iter) == 'node.output[0]', 'C01.port-order', fn, 'single-output node: its subscribers (output[0]) receive the node itself', c, key='single:argument')
            else:
                outer = loops[1] if len(loops) > 1 else None
                ok = False
                if outer is not None and isinstance(outer.target, ast.Tuple) and core.src(outer.iter) == 'enumerate(node.output)':
                    ivar, ovar = [core.src(e) for e in outer.target.elts]
                    defs = [st for st in outer.body if isinstance(st, ast.Assign) and core.src(st.targets[0]) == arg]
                    ok = len(defs) == 1 and core.src(defs[0].value) == f'{getter_param}({ivar})' and core.src(inner.iter) == ovar
                ctx.check(ok, 'C01.port-order', fn, 'multi-output node: the subscribers of output i receive the getter created for that very index i', c, key='multi:argument')
        elif len(c.args) == 2:
            n2 += 1
            recv, arg = [core.src(a) for a in c.args]
            outer = loops[0] if loops else None
            defs = [st for st in (outer.body if outer is not None else []) if isinstance(st, ast.Assign) and core.src(st.targets[0]) == recv]
            ctx.check(arg == 'node.uid' and len(defs) == 1 and core.src(defs[0].value).startswith(f'{getter_param}('), 'C01.port-order', fn, 'each getter takes the node output as its single argument', c, key='getter:link')
    ctx.check(n3 == 2 and n2 == 1, 'C01.port-order', fn, f'linkage sites: {n3} consumer links, {n2} getter link', fn.node, key='sites')
    ins = prog.func(f'{COMPILER}:Table.Linkage.insert')
    text = core.src(ins.node)
    ctx.check('args[index] = argument' in text and 'args = self._absolute[instruction]' in text, 'C01.port-order', ins, 'insert stores the argument at its absolute index of the receiver', ins.node, key='insert:store')
    ctx.check("assert not args[index], 'Link collision'" in text, 'C01.port-order', ins, 'a position is linked once', ins.node, key='insert:collision')
    ctx.check('args.extend([None] * (index - argcnt + 1))' in text, 'C01.port-order', ins, 'missing lower positions are padded, not shifted', ins.node, key='insert:pad')


def getter_index(ctx) -> None:
    prog = ctx.prog
    add = prog.func(f'{COMPILER}:Table.add')
    upd = [c for c in core.calls_in(add.node) if core.src(c.func) == 'self._linkage.update']
    ok = len(upd) == 1 and len(upd[0].args) == 2 and isinstance(upd[0].args[1], ast.Lambda)
    if ok:
        lam = upd[0].args[1]
        p = lam.args.args[0].arg
        ok = core.src(lam.body) == f'self._index.set(system.Getter({p}))'
    ctx.check(ok, 'C01.getter', add, 'the getter factory builds Getter(index) with the index it is asked for', upd[0] if upd else add.node, key='factory')
    if upd:
        gs = cfg.cguards(upd[0], add.node)
        ctx.check(gs == [('node.trained', False)], 'C01.getter', add, 'only applied (not trained) nodes are linked to consumers: trained nodes publish nothing', upd[0], key='update:guard')
        ctx.check(core.src(upd[0].args[0]) == 'node', 'C01.getter', add, 'the node being added is the one linked', upd[0], key='update:node')
    ge = prog.func(f'{SYSTEM}:Getter.execute')
    param = [p for p in ge.param_names if p != 'self'][0]
    ret = next((r for r in core.walk_local(ge.node) if isinstance(r, ast.Return)), None)
    ctx.check(ret is not None and core.src(ret.value) == f'{param}[self._index]', 'C01.getter', ge, 'Getter.execute returns the item at its stored index', ge.node, key='execute')
    gi = prog.func(f'{SYSTEM}:Getter.__init__')
    ctx.check('self._index: int = index' in core.src(gi.node) or 'self._index = index' in core.src(gi.node), 'C01.getter', gi, 'the index is stored unchanged', gi.node, key='init')


def state_prefix(ctx) -> None:
    prog = ctx.prog
    add = prog.func(f'{COMPILER}:Table.add')
    presets = [core.enclosing_stmt(c) for c in core.calls_in(add.node) if isinstance(c.func, ast.Attribute) and c.func.attr == 'preset_state']
    prepends = [core.enclosing_stmt(c) for c in core.calls_in(add.node) if core.src(c.func) == 'self._linkage.prepend']
    ok = len(presets) == 1 and len(prepends) == 1 and core.parent(presets[0]) is core.parent(prepends[0])
    ctx.check(ok, 'C01.state-prefix', add, 'the functor expects a state argument exactly when one is linked (preset_state and prepend under one condition)', add.node, key='pairing')
    if ok:
        gate = core.parent(presets[0])
        ctx.check(isinstance(gate, ast.If) and core.src(gate.test) == 'persistent or node.derived', 'C01.state-prefix', add, 'a state is preset for persistent groups and for forks of a group trained in this segment', gate, key='condition')
        call = next(c for c in core.calls_in(prepends[0]) if core.src(c.func) == 'self._linkage.prepend')
        ctx.check([core.src(a) for a in call.args] == ['node.uid', 'state'], 'C01.state-prefix', add, 'the state instruction of the group is prepended to this node', prepends[0], key='prepend:args')
        ctx.check(core.src(presets[0]) == 'functor = functor.preset_state()', 'C01.state-prefix', add, 'the preset wraps the functor chosen for this node', presets[0], key='preset:functor')
    gi = prog.func(f'{COMPILER}:Table.Linkage.__getitem__')
    ret = next((r for r in core.walk_local(gi.node) if isinstance(r, ast.Return)), None)
    ctx.check(ret is not None and core.src(ret.value) == 'tuple(itertools.chain(reversed(self._prefixed[instruction]), self._absolute[instruction]))', 'C01.state-prefix', gi, 'prefixed (system) arguments precede the absolute (port) arguments, last prepended first', gi.node, key='order')
    pp = prog.func(f'{COMPILER}:Table.Linkage.prepend')
    ctx.check('self._prefixed[instruction].append(argument)' in core.src(pp.node), 'C01.state-prefix', pp, 'prepend records in call order', pp.node, key='prepend')
    red = prog.func(f'{USER}:Preset.reduce')
    text = core.src(red.node)
    ctx.check('value, *args = args' in text and 'self.set(actor, value)' in text and 'self._action.reduce(actor, *args)' in text, 'C01.state-prefix', red, 'the preset consumes the first positional argument and forwards the rest in order', red.node, key='reduce')
    sets = [c for c in core.calls_in(red.node) if core.src(c.func) == 'self.set']
    ctx.check(len(sets) == 1 and [core.src(t) for t, pol in cfg.guards(sets[0], red.node, siblings=False) if pol] == ['value'], 'C01.state-prefix', red, 'a non-empty preset value is applied (an empty one skipped)', red.node, key='reduce:guard')
    # the state key: the trained sibling is registered under the group id so that forks find its output
    aliases = [s for s in core.walk_local(add.node) if isinstance(s, ast.Expr) and core.src(s.value) == 'aliases.append(state)']
    ok_alias = len(aliases) == 1 and any(core.src(t) == 'node.trained' and pol for t, pol in cfg.guards(aliases[0], add.node, siblings=False))
    ctx.check(ok_alias, 'C01.state-prefix', add, 'the trained member is additionally registered under the group id (its output is the state its forks prepend)', add.node, key='alias')
    st = [s for s in core.walk_local(add.node) if isinstance(s, ast.Assign) and core.src(s.targets[0]) == 'state']
    ctx.check(bool(st) and core.src(st[0].value) == 'node.gid', 'C01.state-prefix', add, 'the state key of a node is its group id', st[0] if st else add.node, key='state:gid')
    fun = [s for s in core.walk_local(add.node) if isinstance(s, ast.Assign) and core.src(s.targets[0]) == 'functor' and 'Train()' in core.src(s.value)]
    ctx.check(len(fun) == 1 and any(core.src(t) == 'node.trained' and pol for t, pol in cfg.guards(fun[0], add.node, siblings=False)), 'C01.state-prefix', add, 'the train functor is used exactly for trained nodes', add.node, key='functor:train')


def persistence(ctx) -> None:
    prog = ctx.prog
    add = prog.func(f'{COMPILER}:Table.add')
    graph = cfg.CFG(add.node)
    pers = [s for s in core.walk_local(add.node) if isinstance(s, ast.Assign) and core.src(s.targets[0]) == 'persistent']
    ctx.check(len(pers) == 1 and core.src(pers[0].value) == 'self._assets and state in self._assets', 'C01.persistence', add, 'persistent = an asset accessor is supplied and lists this group', pers[0] if pers else add.node, key='persistent')

    def site(name):
        return [c for c in core.calls_in(add.node) if (core.call_name(c) or '').endswith(name)]

    def guards_of(node):
        return [core.src(t) for t, pol in cfg.guards(node, add.node, siblings=False) if pol]

    ld = site('system.Loader')
    ok = len(ld) == 1 and 'persistent and state not in self._index' in guards_of(ld[0]) and [core.src(a) for a in ld[0].args] == ['self._assets', 'state']
    ctx.check(ok, 'C01.persistence', add, 'a Loader exists only for persistent groups, once per group, loading that group id', ld[0] if ld else add.node, key='loader')
    if ld:
        setc = core.parent(ld[0])
        ctx.check(isinstance(setc, ast.Call) and core.src(setc.func) == 'self._index.set' and len(setc.args) > 1 and core.src(setc.args[1]) == 'state', 'C01.persistence', add, 'the loader is registered under the group id', ld[0], key='loader:key')
    for nm in ('system.Dumper', 'system.Committer'):
        cs = site(nm)
        gs = guards_of(cs[0]) if cs else []
        ctx.check(len(cs) == 1 and 'node.trained' in gs and 'persistent' in gs, 'C01.persistence', add, f'{nm.split(".")[1]} only for trained members of persistent groups (guards {gs})', cs[0] if cs else add.node, key=nm)
    cm = site('system.Committer')
    if cm:
        ctx.check('not self._committer' in guards_of(cm[0]), 'C01.persistence', add, 'one committer per table', cm[0], key='committer:once')
    # dumper <- node ; committer[offset(gid)] <- dumper ; offset evaluated before the re-keying
    ins = [c for c in core.calls_in(add.node) if core.src(c.func) == 'self._linkage.insert']
    texts = [[core.src(a) for a in c.args] for c in ins]
    ctx.check(['dumper', 'node.uid'] in texts, 'C01.persistence', add, 'the dumper receives the state produced by this trained node', add.node, key='dumper:link')
    comm = next((c for c in ins if len(c.args) == 3 and core.src(c.args[0]) == 'self._committer'), None)
    ok = comm is not None and core.src(comm.args[1]) == 'dumper' and core.src(comm.args[2]) == 'self._assets.offset(state)'
    ctx.check(ok, 'C01.persistence', add, 'the committer receives the dumped state id at the list position of this group: offset(gid)', comm or add.node, key='committer:offset')
    resets = [s for s in graph.statements() if isinstance(s, ast.Assign) and core.src(s.targets[0]) == 'state' and 'reset(' in core.src(s.value)]
    if comm is not None and resets:
        cst = core.enclosing_stmt(comm)
        ctx.check(not graph.reaches(resets[0], cst) and graph.reaches(cst, resets[0]), 'C01.persistence', add, 'offset(state) is evaluated while `state` is still the group id (the loader re-keying comes after, on every path)', comm, key='offset-before-rekey')
        ctx.check(core.src(resets[0].value) == 'self._index.reset(state)', 'C01.persistence', add, 'the loader is re-registered under a private key so that the group id names the fresh state', resets[0], key='rekey')
    ld_fn = prog.func(f'{ACCESS}:State.load')
    ctx.check('return self._generation.get(self.offset(gid))' in core.src(ld_fn.node), 'C01.persistence', ld_fn, 'State.load reads the generation at the same offset(gid)', ld_fn.node, key='load:offset')
    off = prog.func(f'{ACCESS}:State.offset')
    ctx.check('return self._nodes.index(gid)' in core.src(off.node), 'C01.persistence', off, 'offset = position in the persistent list', off.node, key='offset')
    cmt = prog.func(f'{ACCESS}:State.commit')
    ctx.check('len(states) == len(self._nodes)' in core.src(cmt.node) and 'tag.replace(states=states)' in core.src(cmt.node), 'C01.persistence', cmt, 'a commit carries exactly one state per persistent group, in committer argument order', cmt.node, key='commit')
    ce = prog.func(f'{SYSTEM}:Committer.execute')
    ctx.check('self._assets.commit(states)' in core.src(ce.node) and ce.node.args.vararg is not None, 'C01.persistence', ce, 'the committer passes its positional arguments as the state list', ce.node, key='committer:execute')
    le = prog.func(f'{SYSTEM}:Loader.execute')
    ctx.check('return self._assets.load(self._key)' in core.src(le.node), 'C01.persistence', le, 'the loader loads the key it was created with', le.node, key='loader:execute')


def once_only(ctx) -> None:
    prog = ctx.prog
    add = prog.func(f'{COMPILER}:Table.add')
    first = next((s for s in add.body if isinstance(s, ast.Assert)), None)
    ctx.check(first is not None and core.src(first.test) == 'node.uid not in self._index', 'C01.once', add, 'a node is compiled once (uid collision is rejected)', first or add.node, key='add:collision')
    idx = prog.func(f'{COMPILER}:Table.Index.set')
    ctx.check("assert key not in self, 'Instruction collision'" in core.src(idx.node), 'C01.once', idx, 'an instruction key is registered once', idx.node, key='index:collision')
    each = prog.func(f'{SPAN}:Traversal.each')
    trav = each.nested('traverse')
    graph = cfg.CFG(trav.node)
    seen = [s for s in graph.statements() if isinstance(s, ast.Expr) and core.src(s.value) == 'seen.add(traversal.pivot)']
    loops = [s for s in graph.statements() if isinstance(s, ast.For)]
    ok = len(seen) == 1 and len(loops) == 1 and graph.dominates(seen[0], loops[0])
    ctx.check(ok, 'C01.once', trav, 'a node is marked seen before its subscribers are descended into', trav.node, key='seen-first')
    if loops:
        ctx.check('mask=mask' in core.src(loops[0].iter) and 'subscribers(' in core.src(loops[0].iter), 'C01.once', trav, 'already seen subscribers are masked out', loops[0], key='mask')
    acc = [s for s in graph.statements() if isinstance(s, ast.Expr) and core.src(s.value) == 'acceptor(traversal.pivot)']
    ctx.check(len(acc) == 1 and bool(seen) and not graph.reaches(seen[0], acc[0], no_back=True), 'C01.once', trav, 'the acceptor is called at most once per visit, before the node is marked', trav.node, key='acceptor-once')
    masks = [s for s in graph.statements() if isinstance(s, ast.Assign) and core.src(s.targets[0]) == 'mask']
    okm = len(masks) == 1 and isinstance(masks[0].value, ast.IfExp) and core.src(masks[0].value.test) in ('traversal.pivot == tail', 'tail == traversal.pivot') and core.src(masks[0].value.body) == 'unseen_trained' and core.src(masks[0].value.orelse) == 'unseen'
    ctx.check(okm, 'C01.once', trav, 'beyond the segment tail only (unseen) trained subscribers are followed, inside the segment every unseen subscriber', masks[0] if masks else trav.node, key='mask:tail')
    try:
        ut = each.nested('unseen_trained')
    except core.AnalysisError:
        ctx.fail('C01.once', each, 'the tail mask helper is gone: beyond the segment tail exactly the (unseen) *trained* subscribers must still be followed, so that trainers fed by the tail are compiled', each.node, key='unseen_trained:vanished')
        ut = None
    if ut is not None:
        ctx.check(core.src(ut.body[-1]) == 'return unseen(node) and isinstance(node, atomic.Worker) and node.trained', 'C01.once', ut, 'tail mask = unseen and trained worker', ut.node, key='unseen_trained')
    rec = [c for c in core.calls_in(loops[0]) if core.src(c.func) == 'traverse'] if loops else []
    ctx.check(len(rec) == 1 and core.src(rec[0].args[0]) == core.src(loops[0].target), 'C01.once', trav, 'the traversal descends into every (masked) subscriber', loops[0] if loops else trav.node, key='recursion')
    un = each.nested('unseen')
    ctx.check('return node not in seen' in core.src(un.node), 'C01.once', un, 'unseen = not yet visited', un.node, key='unseen')
    comp = prog.func(f'{COMPILER}:compile')
    ctx.check('table = Table(assets)' in core.src(comp.node) and 'segment.accept(table)' in core.src(comp.node) and 'return tuple(table)' in core.src(comp.node), 'C01.once', comp, 'compile = one traversal of the segment into a fresh table', comp.node, key='compile')


def emission(ctx) -> None:
    """Symbol emission: every instruction is emitted once with the arguments linked to *its own* keys (aliases merged
    position-wise, at most one non-null per position), only unused getters are pruned."""
    prog = ctx.prog
    it = prog.func(f'{COMPILER}:Table.__iter__')
    text = it.text()
    loops = [n for n in core.walk_local(it.node) if isinstance(n, ast.For)]
    okl = len(loops) == 1 and core.src(loops[0].iter) == 'self._index.instructions' and isinstance(loops[0].target, ast.Tuple)
    ctx.check(okl, 'C01.emission', it, 'one pass over (instruction, its keys)', it.node, key='iter:loop')
    if okl:
        ins, keys = [core.src(e) for e in loops[0].target.elts]
        ctx.check(f'tuple((self._index[a] for a in functools.reduce(merge, (self._linkage[k] for k in {keys}))))' in text, 'C01.emission', it, 'arguments = the instructions linked to this instruction\'s own keys, in positional order', loops[0], key='iter:arguments')
        ys = [n for n in ast.walk(loops[0]) if isinstance(n, ast.Yield)]
        ctx.check(len(ys) == 1 and core.src(ys[0].value) == f'target.Symbol({ins}, arguments)', 'C01.emission', it, 'each instruction is emitted once, with its arguments', loops[0], key='iter:yield')
        skips = [c for c in ast.walk(loops[0]) if isinstance(c, ast.Continue)]
        ctx.check(all([core.src(t) for t, pol in cfg.guards(c, it.node, siblings=False) if pol] == [f'{ins} in stubs'] for c in skips) and len(skips) == 1, 'C01.emission', it, 'only stub getters are pruned', loops[0], key='iter:prune')
    ctx.check('stubs = {s for s in (self._index[n] for n in self._linkage.leaves) if isinstance(s, system.Getter)}' in text, 'C01.emission', it, 'a stub is a Getter nobody consumes (a linkage leaf)', it.node, key='iter:stubs')
    pick = it.nested('merge').nested('pick')
    ctx.check("assert not (left and right), 'Expecting at most one non-null value'" in core.src(pick.node) and 'return left if left else right' in core.src(pick.node), 'C01.emission', pick, 'alias merge picks the single non-null argument of a position', pick.node, key='iter:pick')
    mg = it.nested('merge')
    ctx.check('itertools.zip_longest(value, element)' in core.src(mg.node), 'C01.emission', mg, 'aliases are merged position by position', mg.node, key='iter:merge')
    ix = prog.func(f'{COMPILER}:Table.Index.instructions')
    ctx.check('itertools.groupby(self._instructions.keys(), self._instructions.__getitem__)' in core.src(ix.node), 'C01.emission', ix, 'keys are grouped by the instruction they name', ix.node, key='index:groupby')
    add = prog.func(f'{COMPILER}:Table.add')
    al = [s for s in add.body if isinstance(s, ast.For) and core.src(s.iter) == 'aliases']
    ctx.check(len(al) == 1 and core.src(al[0].body[0]) == f'self._index.set(functor, {core.src(al[0].target)})', 'C01.emission', add, 'all aliases of a node are registered consecutively for the one functor (groupby needs adjacency)', al[0] if al else add.node, key='add:aliases')
    lv = prog.func(f'{COMPILER}:Table.Linkage.leaves')
    t2 = core.src(lv.node)
    ctx.check('parents = {i for a in itertools.chain(self._absolute.values(), self._prefixed.values()) for i in a}' in t2 and 'set(self._absolute).union(self._prefixed).difference(parents)' in t2, 'C01.emission', lv, 'leaves = instructions that are nobody\'s argument', lv.node, key='leaves')


def table_owners(ctx) -> None:
    """Who may write the compile tables: the linkage lists are written only by insert/prepend (position given by the
    port / by the state-prefix protocol checked above) and the instruction index only by set/reset - any other writer
    (a re-keying or re-ordering helper) bypasses the argument-order and late-binding rules decided on those functions."""
    prog = ctx.prog
    link, index = f'{COMPILER}:Table.Linkage', f'{COMPILER}:Table.Index'
    table = {
        '_absolute': {f'{link}.__init__', f'{link}.insert'},
        '_prefixed': {f'{link}.__init__', f'{link}.prepend'},
        '_instructions': {f'{index}.__init__', f'{index}.set', f'{index}.reset'},
    }
    n = shared.r_writers(ctx, list(prog.functions([m for m in prog.modules if m.startswith('forml.flow._code')])), table, 'C01.owner', 'compile table ')
    ctx.floor('C01.owner', n, 8)
    # and the compiler drives them only through that interface
    add = prog.func(f'{COMPILER}:Table.add')
    for c in core.calls_in(add.node):
        ch = core.dotted(c.func) or ''
        if ch.startswith('self._linkage.'):
            ctx.check(ch.split('.')[2] in ('insert', 'update', 'prepend'), 'C01.owner', add, 'Table.add links through insert/update/prepend only', c)
        elif ch.startswith('self._index.'):
            ctx.check(ch.split('.')[2] in ('set', 'reset'), 'C01.owner', add, 'Table.add registers through set/reset only', c)


# every refusal on the compile path, confirmed by reading: function -> [(kind, condition)] (assert: the asserted test; raise:
# its canonical guards).  A new or changed refusal makes some valid segment uncompilable ("every valid segment compiles"),
# a dropped one is judged by the rule that needs it.
REFUSALS = {
    f'{COMPILER}:Table.Linkage.leaves': [('assert', 'children')],
    f'{COMPILER}:Table.Linkage.insert': [('assert', 'argcnt <= 1'), ('assert', 'index >= 0'), ('assert', 'not args[index]')],
    f'{COMPILER}:Table.Index.set': [('assert', 'key not in self')],
    f'{COMPILER}:Table.__iter__': [('raise', "_exception.AssemblyError [('instruction in stubs', False)]")],
    f'{COMPILER}:Table.__iter__.merge.pick': [('assert', 'not (left and right)')],
    f'{COMPILER}:Table.add': [('assert', 'node.uid not in self._index'), ('assert', 'isinstance(node, atomic.Worker)')],
    'forml.flow._code.target:Instruction.__call__': [('raise', 'err []')],
    'forml.flow._code.target:Symbol.__new__': [('raise', "_exception.AssemblyError [('all(arguments)', False)]")],
}


def refusals(ctx) -> None:
    prog = ctx.prog
    n = 0
    for fn in prog.functions([m for m in prog.modules if m.startswith('forml.flow._code')]):
        got = []
        for r in core.walk_local(fn.node):
            if isinstance(r, ast.Raise):
                got.append(('raise', f'{core.src(r.exc).split("(")[0] if r.exc else None} {sorted(cfg.cguards(r, fn.node, siblings=True))}', r))
            elif isinstance(r, ast.Assert):
                got.append(('assert', core.src(r.test), r))
        want = list(REFUSALS.get(fn.ref, []))
        for kind, cond, node in got:
            n += 1
            if (kind, cond) in want:
                want.remove((kind, cond))
                ctx.ok('C01.refusals', fn, f'confirmed refusal: {kind} {cond}', node)
            else:
                ctx.fail('C01.refusals', fn, f'a refusal not among the confirmed ones of the compile path: {kind} `{cond}` - a valid segment hitting it can no longer be compiled (confirmed for this function: {REFUSALS.get(fn.ref, [])})', node, key=f'refusal:{kind}:{cond}')
        for kind, cond in want:
            ctx.fail('C01.refusals', fn, f'a confirmed refusal of the compile path vanished: {kind} `{cond}` (an invalid table - unlinked argument, index collision, cycle - would now be emitted instead of refused)', fn.node, key=f'refusal-gone:{kind}:{cond}')
    for ref in REFUSALS:
        if not prog.has_func(ref):
            raise core.AnalysisError(f'anchor vanished: {ref}')
    ctx.floor('C01.refusals', n, 8)


def presets(ctx) -> None:
    """A state preset is applied whenever it is executed - for the functor about to train just like for the applying forks
    (incremental training continues from the loaded state) - and never costs the builder's hyper-parameters."""
    prog = ctx.prog
    st = prog.func(f'{USER}:SetState.set')
    a, v = st.param_names[1:3]
    body = [core.src(x) for x in st.body if not (isinstance(x, ast.Expr) and (isinstance(x.value, ast.Constant) or core.src(x).startswith('LOGGER.')))]
    ctx.check(body == [f'params = {a}.get_params()', f'{a}.set_state({v})', f'{a}.set_params(**params)'], 'C01.presets', st, f'SetState.set = remember the params, load the state, restore the params - unconditionally ({body})', st.node, key='SetState.set')
    sp = prog.func(f'{USER}:SetParams.set')
    a, v = sp.param_names[1:3]
    body = [core.src(x) for x in sp.body if not (isinstance(x, ast.Expr) and (isinstance(x.value, ast.Constant) or core.src(x).startswith('LOGGER.')))]
    ctx.check(body == [f'{a}.set_params(**{v})'], 'C01.presets', sp, f'SetParams.set applies the given params ({body})', sp.node, key='SetParams.set')
    # the mapper action hands on exactly what the actor returned - whatever the payload is (a 1-tuple is a payload too):
    # every returned value is the `actor.apply(*args)` call itself or a local bound once, to that call
    ap = prog.func(f'{USER}:Apply.__call__')
    a = ap.param_names[1]
    va = ap.node.args.vararg.arg if ap.node.args.vararg else None
    want = f'{a}.apply(*{va})'
    stores: dict = {}
    for n in core.walk_local(ap.node):
        for t in ast.walk(n) if isinstance(n, (ast.Assign, ast.AugAssign, ast.AnnAssign, ast.For, ast.NamedExpr, ast.With)) else ():
            if isinstance(t, ast.Name) and isinstance(t.ctx, ast.Store):
                stores.setdefault(t.id, set()).add(n)
    rets = [r for r in core.walk_local(ap.node) if isinstance(r, ast.Return)]
    okr = bool(rets)
    for r in rets:
        v = r.value
        if isinstance(v, ast.Name):
            ds = list(stores.get(v.id, ()))
            okr = okr and len(ds) == 1 and isinstance(ds[0], ast.Assign) and len(ds[0].targets) == 1 and isinstance(ds[0].targets[0], ast.Name) and core.src(ds[0].value) == want
        else:
            okr = okr and core.src(v) == want
    ctx.check(okr, 'C01.presets', ap, f'Apply returns the result of `{want}` unchanged (no re-binding, unwrapping or conversion of the payload)', ap.node, key='Apply.call:passthrough')
    # one action object per functor: sharing an action instance between nodes makes structurally equal functors *identical*
    # instructions (Index.instructions groups adjacent keys by instruction equality), folding two tasks into one
    add = prog.func(f'{COMPILER}:Table.add')
    fresh = [c for c in core.calls_in(add.node) if core.src(c.func) in ('user.Apply', 'user.Train')]
    ctx.check(len(fresh) >= 2 and not any('self._' in core.src(x) and core.call_tail(x) == 'functor' for x in core.calls_in(add.node) if isinstance(x.func, ast.Attribute)), 'C01.presets', add, 'every compiled node gets its own freshly created action (user.Apply() / user.Train()) - no action object stored on the table and shared', add.node, key='add:fresh-actions')


def system_instructions(ctx) -> None:
    """The persistence instructions do exactly one thing each, for every value: the Dumper dumps the state it is given (an
    empty state is still a state of that actor - skipping it leaves a hole at the actor's position), the Committer commits
    the ids it is given in argument order, the Loader tolerates only "nothing to load yet"."""
    prog = ctx.prog

    def body(fn):
        return [core.src(x) for x in fn.body if not (isinstance(x, ast.Expr) and (isinstance(x.value, ast.Constant) or core.src(x).startswith('LOGGER.')))]

    du = prog.func(f'{SYSTEM}:Dumper.execute')
    ctx.check(body(du) == [f'return self._assets.dump({du.param_names[1]})'], 'C01.persistence', du, f'Dumper.execute = dump the given state, unconditionally ({body(du)})', du.node, key='dumper:execute')
    co = prog.func(f'{SYSTEM}:Committer.execute')
    va = co.node.args.vararg.arg if co.node.args.vararg else None
    ctx.check(va is not None and body(co) == [f'self._assets.commit({va})'], 'C01.persistence', co, f'Committer.execute = commit all given state ids in argument order ({body(co)})', co.node, key='committer:execute')
    from . import C04

    C04.loader_tolerance(ctx)


def run(ctx) -> None:
    from . import C13 as _c13

    _c13.functor_actor(ctx)
    # ... and on a freshly compiled table: the compiler and its targets memoise nothing per call (symbols carry instruction
    # objects bound to the assets and the graph of one launch; the graph objects hash by identity and are mutable)
    for fn in ctx.prog.functions([m for m in ctx.prog.modules if m.startswith('forml.flow._code')]):
        memo = [d for d in core.decorator_names(fn.node) if d.split('.')[-1] in ('lru_cache', 'cache')]
        ctx.check(not memo, 'C01.no-memo', fn, f'{fn.qual} is not memoised per call ({memo})', fn.node, key=f'memo:{fn.qual}')  # each execution of the table works on freshly built actors: a second run of the same symbols equals the first
    # nothing is computed from a loop variable after its loop ran to completion (it would be the last element's value)
    shared.r_staleloop(ctx, ctx.prog.functions([m for m in ctx.prog.modules if m.startswith(('forml.flow._code', 'forml.flow._graph'))]))
    system_instructions(ctx)
    refusals(ctx)
    presets(ctx)
    emission(ctx)
    table_owners(ctx)
    port_order(ctx)
    getter_index(ctx)
    state_prefix(ctx)
    persistence(ctx)
    once_only(ctx)
    shared.argname_scope(ctx, ('forml.flow._code', 'forml.io.asset._access'), floor=2)
