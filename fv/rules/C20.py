"""C20 - configuration layering and provider lookup are deterministic (DESIGN.md section 4/C20)."""
from __future__ import annotations

import ast
import typing

from .. import casesplit, cfg, core
from . import shared

EXPLANATION = (
    'Static decision of the structural clauses of C20: (1) complete case split of the recursive config merge over (key in '
    'left only / right only / both) x (both mappings / both lists / anything else): both-mappings recurse with the operands '
    'in (left, right) order, both-lists yield the right elements first then the left elements not in right, otherwise right '
    'wins when present else left survives; every key of either side is written to the result; update() merges `other` then '
    'the keyword arguments; read() goes through update(); the constructor applies the defaults first and then the paths in the '
    'given order; (2) provider bank - every write to the provider map in Bank.add is dominated by the collision loop (raise '
    'on a different class under the same reference) and by the early return for abstract classes; __init_subclass__ rejects '
    'an alias on an abstract class and registers with every Service ancestor; Meta.__getitem__ turns KeyError into '
    'MissingError; Bank.get returns provider[reference] only; (3) a missing config section / default reference raises '
    'MissingError. Import-order independence for two unloaded modules claiming one alias is not decided.'
)
ASSUMPTIONS = ['dict/set semantics of the standard library; isabstract() as defined by inspect']
MANIFEST = {
    'level': 'Complete finite case split of the merge function by AST constant folding (9 cases) plus CFG dominance rules on '
             'the registration path. Override precedence at any nesting depth follows from the per-key case analysis and the '
             'recursion on both-mapping keys; tests merge one fixture stack.',
    'note': 'Trusted: stdlib ast; dict/set semantics. Not decided: set-iteration order of search paths when two unloaded '
            'modules claim one alias.',
    'technique': 'static analysis: finite case-split partial evaluation of an if/elif chain, call-order checks, CFG '
                 'dominance (collision check and abstract early-return dominate the registry write), exception conversion rule',
}

CONF = 'forml.setup._conf'
PROVIDER = 'forml.provider'


def merge_cases(ctx) -> None:
    prog = ctx.prog
    upd = prog.func(f'{CONF}:Config.update')
    # the merge function is whatever update() folds its layers with: the nested helper, or one moved to module level
    sup = next((c for c in core.calls_in(upd.node) if core.src(c.func) == 'super().update' and len(c.args) == 1), None)
    outer = sup.args[0] if sup is not None else None
    layered = upd.node
    if not (isinstance(outer, ast.Call) and isinstance(outer.func, ast.Name)) and sup is not None:
        # folded step by step through a local: substitute the straight-line assignments of update() in order
        env: dict = {}

        class Sub(ast.NodeTransformer):
            def visit_Name(self, n):  # noqa: N802
                return env[n.id] if isinstance(n.ctx, ast.Load) and n.id in env else n

        for st in upd.body:
            if isinstance(st, ast.Assign) and len(st.targets) == 1 and isinstance(st.targets[0], ast.Name):
                env[st.targets[0].id] = Sub().visit(ast.parse(ast.unparse(st.value), mode='eval').body)
            elif any(c is sup for c in ast.walk(st)):
                outer = Sub().visit(ast.parse(ast.unparse(sup.args[0]), mode='eval').body)
                layered = ast.parse(f'super().update({ast.unparse(outer)})')
                break
    mname = outer.func.id if isinstance(outer, ast.Call) and isinstance(outer.func, ast.Name) else 'merge'
    if f'{upd.ref}.{mname}' in [f.ref for f in prog.functions([CONF])] or prog.has_func(f'{upd.ref}.{mname}'):
        fn = upd.nested(mname)
    elif prog.has_func(f'{CONF}:{mname}'):
        fn = prog.func(f'{CONF}:{mname}')
    else:
        fn = upd.nested('merge')
    loops = [s for s in fn.body if isinstance(s, ast.For)]
    if len(loops) != 1:
        raise core.AnalysisError('merge: single loop over keys not found')
    loop = loops[0]
    kvar = core.src(loop.target)
    it = core.src(loop.iter)
    ctx.check(it in ('set(left).union(right)', 'set(right).union(left)', 'set(left) | set(right)', 'left.keys() | right.keys()'), 'C20.merge', fn, f'every key of either side is visited ({it})', loop, key='merge:keys')
    common_def = next((s for s in fn.body if isinstance(s, ast.Assign) and core.src(s.targets[0]) == 'common'), None)
    ctx.check(common_def is not None and core.src(common_def.value) in ('set(left).intersection(right)', 'set(left) & set(right)', 'left.keys() & right.keys()'), 'C20.merge', fn, 'common = keys present on both sides', common_def or fn.node, key='merge:common')
    cases = []
    for (inl, inr) in ((True, False), (False, True), (True, True)):
        for kind in ('mapping', 'list', 'scalar'):
            cases.append((inl, inr, kind))
    for inl, inr, kind in cases:
        def decide(test: ast.AST, inl=inl, inr=inr, kind=kind) -> typing.Optional[bool]:
            if isinstance(test, ast.BoolOp):
                vals = [decide(v) for v in test.values]
                if isinstance(test.op, ast.And):
                    return False if any(v is False for v in vals) else (True if all(v is True for v in vals) else None)
                return True if any(v is True for v in vals) else (False if all(v is False for v in vals) else None)
            if isinstance(test, ast.UnaryOp) and isinstance(test.op, ast.Not):
                v = decide(test.operand)
                return None if v is None else not v
            if isinstance(test, ast.Compare) and len(test.ops) == 1 and isinstance(test.ops[0], ast.NotIn):
                v = decide(ast.Compare(left=test.left, ops=[ast.In()], comparators=test.comparators))
                return None if v is None else not v
            t = core.src(test)
            if t == f'{kvar} in common':
                return inl and inr
            if t == f'{kvar} in right':
                return inr
            if t == f'{kvar} in left':
                return inl
            if isinstance(test, ast.Call) and core.call_name(test) == 'isinstance' and len(test.args) == 2:
                what = core.src(test.args[1])
                if 'Mapping' in what or what == 'dict':
                    return kind == 'mapping'
                if 'list' in what or 'tuple' in what or 'Sequence' in what:
                    return kind == 'list'
            return None

        outcomes = set()
        for stmts, _ in casesplit.paths(loop.body, decide):
            stores = [s for s in stmts if isinstance(s, ast.Assign) and isinstance(s.targets[0], ast.Subscript) and core.src(s.targets[0].slice) == kvar and not isinstance(s.targets[0].value, ast.Subscript)]
            if not stores:
                outcomes.add('DROPPED')
                continue
            stored = stores[-1].value
            vals = [s for s in stmts if isinstance(stored, ast.Name) and isinstance(s, ast.Assign) and core.src(s.targets[0]) == stored.id]
            expr = vals[-1].value if vals else stored
            while isinstance(expr, ast.IfExp) and decide(expr.test) is not None:
                expr = expr.body if decide(expr.test) else expr.orelse  # a conditional value: the arm of this case
            t = core.src(expr)
            if t == f'right[{kvar}]':
                outcomes.add('RIGHT')
            elif t == f'left[{kvar}]':
                outcomes.add('LEFT')
            elif isinstance(expr, ast.Call) and core.src(expr.func) == mname:
                outcomes.add('RECURSE' if [core.src(a) for a in expr.args] == [f'left[{kvar}]', f'right[{kvar}]'] else f'RECURSE-CROSSED({t})')
            elif isinstance(expr, (ast.Tuple, ast.List)) and len(expr.elts) == 2 and all(isinstance(e, ast.Starred) for e in expr.elts):
                first, second = core.src(expr.elts[0].value), core.src(expr.elts[1].value)
                if first == f'right[{kvar}]' and f'for v in left[{kvar}] if v not in right[{kvar}]' in second:
                    outcomes.add('LIST(right first, then left not in right)')
                else:
                    outcomes.add(f'LIST-OTHER({t})')
            else:
                outcomes.add(f'OTHER({t})')
        if inl and inr:
            want = {'mapping': {'RECURSE'}, 'list': {'LIST(right first, then left not in right)'}, 'scalar': {'RIGHT'}}[kind]
        elif inr:
            want = {'RIGHT'}
        else:
            want = {'LEFT'}
        side = 'both' if inl and inr else ('right-only' if inr else 'left-only')
        ctx.sample({'merge_case': f'{side}/{kind}', 'result': sorted(outcomes)})
        ctx.check(outcomes == want, 'C20.merge', fn, f'merge case key in {side}, values {kind}: {sorted(outcomes)} (expected {sorted(want)})', loop, key=f'merge:{side}:{kind}')
    ret = next((s for s in fn.body if isinstance(s, ast.Return)), None)
    ctx.check(ret is not None and 'result' in core.src(ret.value), 'C20.merge', fn, 'the merged mapping is returned', ret or fn.node, key='merge:return')
    # closure under layering: the sequence type the list branch produces must itself be accepted by the list test,
    # otherwise a third layer no longer merges with the already merged value (it would be replaced)
    for st in ast.walk(loop):
        if isinstance(st, ast.If):
            tests = [c for c in ast.walk(st.test) if isinstance(c, ast.Call) and core.call_name(c) == 'isinstance' and len(c.args) == 2]
            seqtests = [c for c in tests if any(x in core.src(c.args[1]) for x in ('list', 'tuple', 'Sequence'))]
            if len(seqtests) == 2:
                vals = [s for s in st.body if isinstance(s, ast.Assign) and isinstance(s.targets[0], ast.Name)]
                if vals:
                    produced = 'tuple' if isinstance(vals[0].value, ast.Tuple) else ('list' if isinstance(vals[0].value, (ast.List, ast.ListComp)) else core.src(vals[0].value).split('(')[0])
                    accepted = [core.src(c.args[1]) for c in seqtests]
                    okc = all(produced in a or 'Sequence' in a for a in accepted)
                    ctx.check(okc, 'C20.merge', fn, f'the list branch produces a {produced} and its own type test accepts {accepted}: merging stays associative over three and more layers', st, key='merge:list-closure')
    # update / read / constructor order
    text = core.src(layered)
    ctx.check(f'super().update({mname}({mname}(self, other or {{}}), kwargs))' in text, 'C20.layering', upd, 'update(): current config, then `other`, then keyword arguments (later wins)', upd.node, key='update:order')
    rd = prog.func(f'{CONF}:Config.read')
    ctx.check('self.update(tomli.load(cfg))' in core.src(rd.node), 'C20.layering', rd, 'read() merges the parsed file through update()', rd.node, key='read:update')
    init = prog.func(f'{CONF}:Config.__init__')
    graph = cfg.CFG(init.node)
    upd_call = next((s for s in init.body if isinstance(s, ast.Expr) and core.src(s.value) == 'self.update(defaults)'), None)
    loop = next((s for s in init.body if isinstance(s, ast.For)), None)
    ok = upd_call is not None and loop is not None and core.src(loop.iter) == 'paths' and 'self.read(' in core.src(loop) and graph.dominates(upd_call, loop)
    ctx.check(ok, 'C20.layering', init, 'defaults first, then every path in the given order', init.node, key='init:order')


def provider_bank(ctx) -> None:
    prog = ctx.prog
    add = prog.func(f'{PROVIDER}:Bank.add')
    graph = cfg.CFG(add.node)
    writes = [s for s in graph.statements() if isinstance(s, ast.Assign) and any(isinstance(t, ast.Subscript) and core.src(t.value) == 'self.provider' for t in s.targets)]
    writes += [s for s in graph.statements() if any(isinstance(c.func, ast.Attribute) and c.func.attr in ('setdefault', 'update', '__setitem__') and core.src(c.func.value) == 'self.provider' for c in cfg.header_calls(s))]
    ctx.check(len(writes) >= 1, 'C20.bank', add, 'Bank.add registers the provider', add.node, key='add:writes')
    coll_loops = []
    for s in add.body:
        if isinstance(s, ast.For):
            raises = [r for r in ast.walk(s) if isinstance(r, ast.Raise)]
            for r in raises:
                gs = cfg.cguards(r, add.node, siblings=True)
                has_in = any(pol and t == 'ref in self.provider' for t, pol in gs)
                differs = any((t == 'provider == self.provider[ref]' and not pol) or (t in ('provider != self.provider[ref]', 'provider is not self.provider[ref]') and pol) for t, pol in gs)
                if has_in and differs and 'references' in core.src(s.iter):
                    coll_loops.append(s)
    ctx.check(bool(coll_loops), 'C20.bank', add, 'a reference already bound to a different class raises (collision check over every reference)', add.node, key='add:collision')
    abstract_ret = [s for s in add.body if isinstance(s, ast.If) and 'isabstract(provider)' in core.src(s.test) and any(isinstance(b, ast.Return) for b in s.body)]
    ctx.check(bool(abstract_ret), 'C20.bank', add, 'abstract providers are never registered (early return)', add.node, key='add:abstract')
    # the guard must be the provider module's extended isabstract (class itself OR an abstract inner class, rule
    # C20.reference/isabstract), not the bare inspect.isabstract which misses providers abstract through an inner class
    for s in abstract_ret:
        own = [c for c in ast.walk(s.test) if isinstance(c, ast.Call) and isinstance(c.func, ast.Name) and c.func.id == 'isabstract' and [core.src(a) for a in c.args] == ['provider']]
        inner = 'inspect.isabstract(provider)' in core.src(s.test) and '__dict__' in core.src(s.test)
        ctx.check(bool(own) or inner, 'C20.bank', add, 'the abstract early return uses the extended isabstract (inner classes included)', s, key='add:abstract-extended')
    for w in writes:
        ctx.check(all(graph.dominates(c, w) for c in coll_loops) and bool(coll_loops), 'C20.bank', add, 'the registry write is dominated by the collision check', w, key='add:write-after-collision')
        ctx.check(all(graph.dominates(a, w) for a in abstract_ret) and bool(abstract_ret), 'C20.bank', add, 'the registry write is dominated by the abstract early return', w, key='add:write-after-abstract')
        if isinstance(w, ast.Assign):
            ctx.check(core.src(w.value) == 'provider', 'C20.bank', add, 'the reference is bound to the class being registered', w, key='add:value')
    refs = next((s for s in add.body if isinstance(s, ast.Assign) and core.src(s.targets[0]) == 'references'), None)
    ctx.check(refs is not None and 'Reference(provider)' in core.src(refs.value), 'C20.bank', add, 'every provider is registered under its qualified name', refs or add.node, key='add:qualname')
    ctx.check('references.add(alias)' in core.src(add.node), 'C20.bank', add, 'and under its alias when given', add.node, key='add:alias')
    get = prog.func(f'{PROVIDER}:Bank.get')
    rets = [r for r in core.walk_local(get.node) if isinstance(r, ast.Return)]
    ctx.check(bool(rets) and all(core.src(r.value) == 'self.provider[reference]' for r in rets), 'C20.bank', get, 'Bank.get returns provider[reference] only (never "some" provider)', get.node, key='get:return')
    loops = [n for n in core.walk_local(get.node) if isinstance(n, ast.While)]
    ctx.check(bool(loops) and all('reference not in self.provider' in core.src(l.test) for l in loops), 'C20.bank', get, 'search paths are loaded only until the reference is registered', get.node, key='get:loop')
    # lookup state is limited to what registration maintains: every bank attribute consulted by get() is updated by add()
    def self_attrs(fnode, stores=False):
        out = set()
        for n in ast.walk(fnode):
            if isinstance(n, ast.Attribute) and isinstance(n.value, ast.Name) and n.value.id == 'self':
                out.add(n.attr)
        return out
    read = self_attrs(get.node) - {'get', 'add'}
    maintained = self_attrs(add.node)
    ctx.check(read <= maintained, 'C20.bank', get, f'Bank.get consults only state that Bank.add maintains ({sorted(read)} vs {sorted(maintained)}): a lookup result never depends on lookups made before a provider was registered', get.node, key='get:state')
    gi = prog.func(f'{PROVIDER}:Meta.__getitem__')
    handlers = [h for h in ast.walk(gi.node) if isinstance(h, ast.ExceptHandler)]
    conv = any('KeyError' in core.src(h.type) and any(isinstance(s, ast.Raise) and 'MissingError' in core.src(s) for s in h.body) for h in handlers if h.type is not None)
    ctx.check(conv, 'C20.bank', gi, 'an unknown reference raises MissingError', gi.node, key='getitem:missing')
    ctx.check('return BANK[cls].get(Reference(reference))' in core.src(gi.node), 'C20.bank', gi, 'lookup goes through the bank of the requested interface', gi.node, key='getitem:bank')
    isub = prog.func(f'{PROVIDER}:Service.__init_subclass__')
    raises = [r for r in core.walk_local(isub.node) if isinstance(r, ast.Raise)]
    gs = [cfg.cguards(r, isub.node) for r in raises]
    ctx.check(any(g == [('alias', True), ('isabstract(cls)', True)] or g == [('isabstract(cls)', True), ('alias', True)] for g in gs), 'C20.bank', isub, 'an alias on an abstract class is rejected', isub.node, key='subclass:abstract-alias')
    text = core.src(isub.node)
    ctx.check('cls.__mro__' in text and 'issubclass(p, Service)' in text and 'p is not Service' in text and 'BANK[parent].add(cls, alias, path)' in text, 'C20.bank', isub, 'the provider is registered with every Service ancestor in its MRO', isub.node, key='subclass:ancestors')
    al = prog.func(f'{PROVIDER}:Alias.__new__')
    ctx.check('Qualifier.DELIMITER in value' in core.src(al.node) and 'raise ValueError' in core.src(al.node), 'C20.bank', al, 'an alias cannot look like a qualified name', al.node, key='alias:delimiter')


def sections(ctx) -> None:
    prog = ctx.prog
    # provider sections: the provider reference is a key of the section itself, taken before generic params are folded in
    pe = prog.func('forml.setup._provider:Provider._extract')
    g = cfg.CFG(pe.node)
    pops = [s for s in g.statements() if any(core.call_tail(c) == 'pop' and 'OPT_PROVIDER' in core.src(c) for c in cfg.header_calls(s))]
    sups = [s for s in g.statements() if any(core.call_tail(c) == '_extract' and core.src(c.func.value) == 'super()' for c in cfg.header_calls(s) if isinstance(c.func, ast.Attribute))]
    okp = len(pops) == 1 and len(sups) == 1 and g.dominates(pops[0], sups[0]) and not g.reaches(sups[0], pops[0])
    ctx.check(okp, 'C20.section', pe, 'the provider reference is read from the section\'s own keys before the generic `params` table is merged into them (a generic option named "provider" must not redirect the lookup)', pops[0] if pops else pe.node, key='provider:pop-before-params')
    if pops:
        c = next(c for c in cfg.header_calls(pops[0]) if core.call_tail(c) == 'pop')
        ctx.check(len(c.args) == 2 and core.src(c.args[1]) == 'reference', 'C20.section', pe, 'without an explicit provider key the section name is the reference', pops[0], key='provider:default')
    new = prog.func(f'{CONF}:Section.__new__')
    handlers = [h for h in ast.walk(new.node) if isinstance(h, ast.ExceptHandler)]
    ctx.check(any('KeyError' in core.src(h.type) and any(isinstance(s, ast.Raise) and 'MissingError' in core.src(s) for s in h.body) for h in handlers if h.type is not None), 'C20.section', new, 'a missing config section raises MissingError', new.node, key='section:missing')
    ctx.check('CONFIG[cls.GROUP][reference]' in core.src(new.node), 'C20.section', new, 'the section is looked up by group and reference', new.node, key='section:lookup')
    res = prog.func(f'{CONF}:Section.resolve')
    raises = [r for r in core.walk_local(res.node) if isinstance(r, ast.Raise)]
    gs = [cfg.cguards(r, res.node) for r in raises]
    ctx.check(any(g == [('reference', False)] for g in gs) and all('MissingError' in core.src(r) for r in raises), 'C20.section', res, 'a missing default reference raises MissingError', res.node, key='resolve:missing')
    ctx.check('reference or CONFIG.get(cls.INDEX, {}).get(cls.SELECTOR)' in core.src(res.node), 'C20.section', res, 'an explicit reference takes precedence over the configured default', res.node, key='resolve:default')


def probes(ctx) -> None:
    prog = ctx.prog
    n = shared.r_probe(ctx, prog.functions([m for m in prog.modules if m.startswith(('forml.provider', 'forml.setup', 'forml.project'))]))
    ctx.floor('R-PROBE', n, 2)
    load = prog.func('forml.provider:Bank.Path.load')
    h = next((x for x in core.walk_local(load.node) if isinstance(x, ast.ExceptHandler)), None)
    ok = h is not None and core.src(h.type) == 'ModuleNotFoundError'
    ctx.check(ok, 'R-PROBE', load, 'only ModuleNotFoundError is treated as "not found"', load.node, key='Path.load:handler')
    if h is not None:
        rs = [r for r in ast.walk(h) if isinstance(r, ast.Raise)]
        re_raise = [r for r in rs if core.src(r) == f'raise {h.name}']
        ctx.check(len(re_raise) == 1 and cfg.cguards(re_raise[0], h) == [(f'self.value.startswith({h.name}.name)', False)], 'R-PROBE', load, 'an import error of anything else than the probed path (or a parent of it) is re-raised', h, key='Path.load:reraise')
        miss = [r for r in rs if 'MissingError' in core.src(r)]
        ctx.check(len(miss) == 1 and ('self.explicit', True) in cfg.cguards(miss[0], h, siblings=True), 'R-PROBE', load, 'a missing explicit path is the missing-provider error', h, key='Path.load:explicit')


def config_read(ctx) -> None:
    """Every source of the stack is read and merged - in the order given, as often as it is given (no "already read" shortcut:
    a path repeated later in the stack must win over what came between) - and only a successfully merged file counts as a
    source; a derived search path never inherits the *explicit* flag of the path it is derived from."""
    prog = ctx.prog
    rd = prog.func('forml.setup._conf:Config.read')
    rets = [r for r in core.walk_local(rd.node) if isinstance(r, ast.Return)]
    ctx.check(not rets, 'C20.read', rd, 'Config.read has no early exit', rets[0] if rets else rd.node, key='read:no-early-return')
    tr = next((x for x in rd.body if isinstance(x, ast.Try)), None)
    first = [x for x in rd.body if not (isinstance(x, ast.Expr) and isinstance(x.value, ast.Constant))]
    ctx.check(tr is not None and first and first[0] is tr, 'C20.read', rd, 'reading starts unconditionally', rd.node, key='read:unconditional')
    if tr is not None:
        ctx.check(any('self.update(tomli.load(' in core.src(x) for x in tr.body), 'C20.read', rd, 'the parsed file is merged through update()', tr, key='read:merge')
        ctx.check([core.src(x) for x in tr.orelse] == ['self._sources.append(path)'], 'C20.read', rd, 'a merged file is recorded as a source', tr, key='read:record')
        hs = sorted(core.src(h.type) for h in tr.handlers if h.type is not None)
        ctx.check(hs == ['FileNotFoundError', 'PermissionError', 'ValueError'], 'C20.read', rd, f'missing file ignored, unreadable file recorded as an error, invalid file fatal ({hs})', tr, key='read:handlers')
    fe = prog.func('forml.setup._provider:Feed._extract')
    rb = [a for a in core.walk_local(fe.node) if isinstance(a, ast.Assign) and any(core.src(c.func) == 'super()._extract' for c in core.calls_in(a))]
    ctx.check(len(rb) == 1 and core.src(rb[0].targets[0]) in ('([reference], kwargs)', '[reference], kwargs'), 'C20.read', fe, 'a feed section resolves to the provider reference its `provider` option names (re-bound from the generic extraction), not to the section name', rb[0] if rb else fe.node, key='feed:reference-rebound')
    pe = prog.func('forml.setup._provider:Provider._extract')
    ctx.check(any(isinstance(a, ast.Assign) and 'pop(_conf.OPT_PROVIDER' in core.src(a.value) or isinstance(a, ast.Assign) and 'OPT_PROVIDER' in core.src(a.value) for a in core.walk_local(pe.node)), 'C20.read', pe, 'the generic extraction takes the reference from the `provider` option', pe.node, key='provider:reference')
    td = prog.func(f'{PROVIDER}:Bank.Path.__truediv__')
    ret = next((r for r in core.walk_local(td.node) if isinstance(r, ast.Return)), None)
    sfx = td.param_names[1]
    ctx.check(ret is not None and core.src(ret.value) == f"Bank.Path(f'{{self.value}}.{{{sfx}}}', explicit=False)", 'C20.read', td, 'a path derived for an alias lookup is never explicit (a miss there falls through to the other search paths)', ret or td.node, key='Path.__truediv__')


def sink_modes(ctx) -> None:
    """[SINK] index: each mode takes its own reference and falls back to ``default`` - to nothing else (``eval`` falling back
    to ``apply`` would hand the evaluation sink of a stack that only overrides ``apply`` to the wrong provider, and would find
    a sink where the missing error is due).  Decided on the values of ``apply`` / ``evaluate`` with temporaries resolved."""
    prog = ctx.prog
    fn = prog.func('forml.setup._provider:Sink.Mode.resolve')
    defs: dict = {}
    for a in core.walk_local(fn.node):
        if isinstance(a, ast.Assign):
            for t in a.targets:
                if isinstance(t, ast.Name):
                    defs.setdefault(t.id, []).append(a.value)

    def resolve(e: ast.AST, depth: int = 0) -> ast.AST:
        class R(ast.NodeTransformer):
            def visit_Name(self, n):  # noqa: N802
                vals = [v for v in defs.get(n.id, []) if not (isinstance(v, ast.Name) and v.id == 'reference')]
                if isinstance(n.ctx, ast.Load) and len(vals) == 1 and depth < 6:
                    return resolve(vals[0], depth + 1)
                return n

        return R().visit(ast.parse(ast.unparse(e), mode='eval').body)

    index = '_conf.CONFIG[cls.INDEX]'
    default = f'{index}.get(_conf.OPT_DEFAULT)'
    want = [f'{index}.get(_conf.OPT_APPLY, {default})', f'{index}.get(_conf.OPT_EVAL, {default})']
    seen = []
    for ret in [r for r in core.walk_local(fn.node) if isinstance(r, ast.Return)]:
        modes = []
        if isinstance(ret.value, ast.Call) and ret.value.args and isinstance(ret.value.args[0], (ast.List, ast.Tuple)):
            for e in ret.value.args[0].elts:
                if isinstance(e, ast.Call) and core.src(e.func) == 'Sink.resolve' and len(e.args) == 1:
                    modes.append(ast.unparse(resolve(e.args[0])))
        seen.append(modes)
    ok = bool(seen) and all(m == want or m == ['reference', 'reference'] for m in seen) and want in seen
    ctx.check(ok, 'C20.sections', fn, f'(apply, eval) sinks = own option of the [SINK] index, else its `default` option - or the explicit reference for both: {seen}', fn.node, key='sink:mode-fallback')


def qualifier_path(ctx) -> None:
    """A ``module:Class`` reference is looked for in *its module*: ``Qualifier.paths`` offers the single path ``Bank.Path(self.module,
    explicit=False)``; an alias is looked for below the base paths (``base / self``).  Any other field there (the qualname)
    names no importable module - the provider is found only if something else imported it first."""
    prog = ctx.prog
    q = prog.func('forml.provider:Qualifier.paths')
    calls_ = [c for c in core.calls_in(q.node) if core.src(c.func) == 'Bank.Path']
    ctx.check(len(calls_) == 1 and core.src(calls_[0].args[0]) == 'self.module' and any(k.arg == 'explicit' and core.is_const(k.value, False) for k in calls_[0].keywords), 'C20.references', q, 'Qualifier.paths -> (Bank.Path(self.module, explicit=False),)', calls_[0] if calls_ else q.node, key='qualifier:module')
    a = prog.func('forml.provider:Alias.paths')
    ctx.check('b / self for b in base' in core.src(a.node), 'C20.references', a, 'Alias.paths -> base / alias for every base path', a.node, key='alias:base')


def references(ctx) -> None:
    """A provider class is referenced by exactly what identifies it: (module, *qualified* name) - the same two attributes the
    class hash is made of - so that inner/local classes are told apart and a class registered under its own reference is found
    under the textual ``module:Outer.Inner`` form; abstractness is decided by inspect.isabstract on the class itself (it also
    handles a class still under construction, when __init_subclass__ runs before ABCMeta has set __abstractmethods__)."""
    prog = ctx.prog
    new = prog.func(f'{PROVIDER}:Reference.__new__')
    v = new.param_names[1]
    shared.stmt_under(ctx, 'C20.reference', new, f'module = {v}.__module__', [(f'isinstance({v}, str)', False)], 'a class is referenced by its own module', 'Reference:module', inlined=False)
    shared.stmt_under(ctx, 'C20.reference', new, f'qualname = {v}.__qualname__', [(f'isinstance({v}, str)', False)], 'and by its qualified name (inner classes keep their outer scope)', 'Reference:qualname', inlined=False)
    shared.stmt_under(ctx, 'C20.reference', new, 'return Qualifier(module, qualname)', [], 'the qualifier is (module, qualname) in field order', 'Reference:qualifier', inlined=False)
    # a textual reference is an alias exactly when it carries no delimiter: 'name:' or ':Name' are malformed qualified names
    # (their lookup fails with the missing-provider error), never an alias that happens to exist
    al = [r for r in core.walk_local(new.node) if isinstance(r, ast.Return) and isinstance(r.value, ast.Call) and core.call_tail(r.value) == 'Alias']
    okal = len(al) == 1 and [core.src(a) for a in al[0].value.args] == [v] and sorted(cfg.cguards(al[0], new.node)) == sorted(cfg.cg((f'isinstance({v}, str)', True), (f'Qualifier.DELIMITER in {v}', False)))
    ctx.check(okal, 'C20.reference', new, 'a string without the delimiter - and only that - is an alias, taken as it is', al[0] if al else new.node, key='Reference:alias')
    mh = prog.func(f'{PROVIDER}:Meta.__hash__')
    ctx.check('cls.__module__' in core.src(mh.node) and 'cls.__qualname__' in core.src(mh.node), 'C20.reference', mh, 'the provider class identity is made of the same two attributes', mh.node, key='Meta.__hash__')
    ia = prog.func(f'{PROVIDER}:isabstract')
    c = ia.param_names[0]
    rets = [r for r in core.walk_local(ia.node) if isinstance(r, ast.Return)]
    ok = len(rets) == 1 and isinstance(rets[0].value, ast.BoolOp) and isinstance(rets[0].value.op, ast.Or) and any(core.src(x) == f'inspect.isabstract({c})' for x in rets[0].value.values)
    ctx.check(ok, 'C20.reference', ia, 'a provider is abstract when inspect.isabstract says so for the class itself (or for one of its inner classes)', ia.node, key='isabstract')


def run(ctx) -> None:
    qualifier_path(ctx)
    from . import C08
    references(ctx)
    config_read(ctx)

    C08.eqhash_agreement(ctx, ('forml.provider', 'forml.setup'), floor=3)
    probes(ctx)
    merge_cases(ctx)
    provider_bank(ctx)
    sections(ctx)
    sink_modes(ctx)
    shared.argname_scope(ctx, ('forml.setup', 'forml.provider.__init__'), floor=2)
