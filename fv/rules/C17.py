"""C17 - model-selection strategies honour their contract on every request history (DESIGN.md section 4/C17)."""
from __future__ import annotations

import ast

from .. import cfg, core
from . import shared
from . import C05

EXPLANATION = (
    'Static decision of the structural clauses of C17: (1) Explicit - the constructor stores its triple unchanged and select '
    'builds the instance from exactly that triple and the given registry; (2) Latest._pick honours a configured release, '
    'otherwise iterates the releases in descending listing order, takes .last of the first release that has a generation '
    '(an empty one continues), and raises Empty only after the loop; the instance is built from the picked release and '
    'generation; (3) Latest.select/_refresh touch the instance cache only under the lock, the refresher re-picks every '
    'cached registry each interval and stores a changed pick; (4) R-CACHE - no memoised listing between registry and '
    'selector, every Level.list asks the registry (new generations become visible); (5) ABTest.select increments the total '
    'exactly once and hits exactly one slot on every returning path (R-EXACTLY-ONE), a hit counts one and builds the '
    'instance of its own variant, targets are normalised by their combined weight, duplicate variants and non-positive '
    'targets are rejected. NOT decided: the share bound "within one request of target x n" and "selection never fails" - '
    'floating point arithmetic over request counts.'
)
ASSUMPTIONS = ['Level.Listing is sorted ascending (decided under C05/C18) so reversed() is descending']
MANIFEST = {
    'level': 'Static structural rules (loop shape/order, exactly-one path counting, lockset, argument agreement) for the '
             'three strategies. They are the necessary conditions of the contract that are visible in code; the numeric A/B '
             'share bound is explicitly not claimed.',
    'note': 'Trusted: stdlib ast. Not decided (stated): A/B share bound and non-failure of selection (float arithmetic over '
            'request counts), refresh timing.',
    'technique': 'static analysis: keyword/attribute agreement, loop-shape and for/else rule, CFG path counting '
                 '(R-EXACTLY-ONE), lockset rule over cache accesses, cache decorator census (R-CACHE)',
}

STRATEGY = 'forml.application._strategy'


def _instance_call(fn: core.FuncInfo):
    return next((c for c in core.calls_in(fn.node) if (core.call_name(c) or '').endswith('Instance')), None)


def explicit(ctx) -> None:
    prog = ctx.prog
    ci = prog.cls(f'{STRATEGY}:Explicit')
    init = prog.func(f'{ci.ref}.__init__')
    for p in ('project', 'release', 'generation'):
        ok = any(isinstance(s, (ast.Assign, ast.AnnAssign)) and core.src(s.target if isinstance(s, ast.AnnAssign) else s.targets[0]) == f'self._{p}' and core.src(s.value) == p for s in init.body)
        ctx.check(ok, 'C17.explicit', init, f'the configured {p} is stored unchanged', init.node, key=f'init:{p}')
    sel = prog.func(f'{ci.ref}.select')
    call = _instance_call(sel)
    kws = {k.arg: core.src(k.value) for k in call.keywords} if call else {}
    want = {'registry': 'registry', 'project': 'self._project', 'release': 'self._release', 'generation': 'self._generation'}
    ctx.check(kws == want, 'C17.explicit', sel, f'the instance is built from exactly the configured triple ({kws})', call or sel.node, key='select:instance')
    rets = [r for r in core.walk_local(sel.node) if isinstance(r, ast.Return)]
    ctx.check(all(core.src(r.value) == 'self._instance' for r in rets) and bool(rets), 'C17.explicit', sel, 'and that instance is what every request gets', sel.node, key='select:return')


def latest(ctx) -> None:
    prog = ctx.prog
    ci = prog.cls(f'{STRATEGY}:Latest')
    pick = prog.func(f'{ci.ref}._pick')
    loops = [n for n in core.walk_local(pick.node) if isinstance(n, ast.For)]
    if len(loops) != 1:
        ctx.fail('C17.latest', pick, 'release iteration loop not found', pick.node, key='pick:loop')
        return
    lp = loops[0]
    ctx.check(core.src(lp.iter) in ('reversed(project.list())', 'project.list()[::-1]', 'sorted(project.list(), reverse=True)'), 'C17.latest', pick, f'releases are tried from the highest down ({core.src(lp.iter)})', lp, key='pick:descending')
    rvar = core.src(lp.target)
    tr = next((s for s in lp.body if isinstance(s, ast.Try)), None)
    ok_try = tr is not None and any(isinstance(b, ast.Assign) and core.src(b.targets[0]) == 'generation' and core.src(b.value) == f'project.get({rvar}).list().last' for b in tr.body)
    ctx.check(ok_try, 'C17.latest', pick, 'the newest generation (.last) of the release under test is taken', tr or lp, key='pick:last')
    if tr is not None:
        ctx.check(all('Empty' in core.src(h.type) and isinstance(h.body[-1], ast.Continue) for h in tr.handlers) and bool(tr.handlers), 'C17.latest', pick, 'a release without generations is skipped', tr, key='pick:skip-empty')
    ctx.check(isinstance(lp.body[-1], ast.Break), 'C17.latest', pick, 'the first release that has a generation wins', lp, key='pick:break')
    ctx.check(bool(lp.orelse) and isinstance(lp.orelse[-1], ast.Raise) and 'Empty' in core.src(lp.orelse[-1]), 'C17.latest', pick, 'Empty is raised only after every release was tried (for/else)', lp, key='pick:raise-after')
    gs = [(core.src(t), pol) for t, pol in cfg.guards(lp, pick.node, siblings=False)]
    ctx.check(gs == [('not release', True)] or gs == [('release is None', True)], 'C17.latest', pick, f'a configured release is honoured (the search runs only without one: {gs})', lp, key='pick:configured')
    first = [s for s in pick.body if isinstance(s, ast.Assign) and core.src(s.targets[0]) == 'release']
    ctx.check(bool(first) and core.src(first[0].value) == 'self._release', 'C17.latest', pick, 'release starts from the configured one', first[0] if first else pick.node, key='pick:init')
    call = _instance_call(pick)
    kws = {k.arg: core.src(k.value) for k in call.keywords} if call else {}
    ctx.check(kws == {'registry': 'registry', 'project': 'self._project', 'release': rvar, 'generation': 'generation'}, 'C17.latest', pick, f'the instance is the picked release/generation ({kws})', call or pick.node, key='pick:instance')
    ctx.check('project = registry.get(self._project)' in core.src(pick.node), 'C17.latest', pick, 'releases are listed for the configured project', pick.node, key='pick:project')
    # lock discipline
    n = 0
    for mname in ci.methods:
        m = ci.methods[mname]
        if mname == '__init__':
            continue
        fn = prog.func(f'{ci.ref}.{mname}')
        for x in core.walk_local(m):
            if isinstance(x, ast.Attribute) and core.src(x) == 'self._cache':
                n += 1
                held = [core.src(i.context_expr) for a in core.ancestors(x) if isinstance(a, ast.With) for i in a.items]
                ctx.check('self._lock' in held, 'R-LOCKSET', fn, f'the instance cache is accessed under the lock (held: {held})', x, key=f'{mname}:{core.stmt_key(core.enclosing_stmt(x))}')
    ctx.floor('C17.cache-accesses', n, 4)
    init = prog.func(f'{ci.ref}.__init__')
    ctx.check('threading.RLock()' in core.src(init.node) or 'threading.Lock()' in core.src(init.node), 'R-LOCKSET', init, 'the lock is a threading lock', init.node, key='lock:init')
    ref = prog.func(f'{ci.ref}._refresh')
    text = core.src(ref.node)
    outer = next((s for s in ref.body if isinstance(s, ast.While)), None)
    ctx.check(outer is not None and core.is_const(outer.test, True), 'C17.latest', ref, 'the refresher runs for the life of the process', ref.node, key='refresh:forever')
    ctx.check('tuple(self._cache.items())' in text and 'for registry, old in instances' in text, 'C17.latest', ref, 'every cached registry is revisited on each round', ref.node, key='refresh:all')
    ctx.check('new = self._pick(registry)' in text and 'if new != old' in text and 'self._cache[registry] = new' in text, 'C17.latest', ref, 'a newer pick replaces the cached instance of the same registry', ref.node, key='refresh:update')
    if outer is not None:
        ctx.check(isinstance(outer.body[-1], ast.Expr) and core.src(outer.body[-1]) == 'time.sleep(self._interval)', 'C17.latest', ref, 'one round per refresh interval', outer, key='refresh:interval')
        # the endless daemon loop must survive a failing round: all work of a round sits in a try with a broad handler
        work = [s for s in outer.body[:-1]]
        safe = len(work) == 1 and isinstance(work[0], ast.Try) and any(h.type is None or core.src(h.type) in ('Exception', 'BaseException') for h in work[0].handlers) and not any(isinstance(x, ast.Raise) for h in work[0].handlers for x in ast.walk(h))
        ctx.check(safe, 'C17.latest', ref, 'a failing refresh round (e.g. Empty listing of a configured release without generations yet) must not terminate the refresher thread: later generations would never be picked up', outer, key='refresh:survives')
    sel = prog.func(f'{ci.ref}.select')
    text = core.src(sel.node)
    ctx.check('if registry not in self._cache' in text and 'self._cache[registry] = self._pick(registry)' in text and 'return self._cache[registry]' in text, 'C17.latest', sel, 'select serves the cached pick of the given registry (first call picks)', sel.node, key='select:cache')
    ctx.check('self._refresher.start()' in text and 'not self._refresher.is_alive()' in text, 'C17.latest', sel, 'the refresher is started with the first pick', sel.node, key='select:refresher')
    U = shared.stmt_under
    U(ctx, 'C17.latest', sel, 'self._refresher.start()', [('registry not in self._cache', True), ('self._refresher.is_alive()', False)], 'the refresher is started with the first pick, exactly when it is not running yet', 'select:refresher-guards', inlined=False)
    U(ctx, 'C17.latest', sel, 'self._cache[registry] = self._pick(registry)', [('registry not in self._cache', True)], 'a registry seen for the first time gets its pick', 'select:first-pick', inlined=False)
    U(ctx, 'C17.latest', sel, 'return self._cache[registry]', [], 'every request is served from the cache entry of its own registry', 'select:return', inlined=False, siblings=False)
    ctx.check('threading.Thread(target=self._refresh, daemon=True)' in core.src(init.node), 'C17.latest', init, 'the refresher thread runs _refresh', init.node, key='init:refresher')


def abtest(ctx) -> None:
    prog = ctx.prog
    ci = prog.cls(f'{STRATEGY}:ABTest')
    sel = prog.func(f'{ci.ref}.select')
    graph = cfg.CFG(sel.node)

    def incs(st):
        return 1 if isinstance(st, ast.AugAssign) and core.src(st.target) == 'self._total' and isinstance(st.op, ast.Add) and core.is_const(st.value, 1) else 0

    def hits(st):
        return sum(1 for c in cfg.header_calls(st) if isinstance(c.func, ast.Attribute) and c.func.attr == 'hit')

    ti = cfg.count_events(graph, cfg.ENTRY, cfg.EXIT, incs)
    th = cfg.count_events(graph, cfg.ENTRY, cfg.EXIT, hits)
    ctx.check(ti == (1, 1), 'R-EXACTLY-ONE', sel, f'every served request increments the total exactly once (min, max) = {ti}', sel.node, key='select:total')
    ctx.check(th == (1, 1), 'R-EXACTLY-ONE', sel, f'every served request hits exactly one slot (min, max) = {th}', sel.node, key='select:hit')
    inc_stmt = next((s for s in graph.statements() if incs(s)), None)
    loops = [s for s in sel.body if isinstance(s, ast.For)]
    ok_loop = len(loops) == 1 and core.src(loops[0].iter) == 'self._slots' and inc_stmt is not None and graph.dominates(inc_stmt, loops[0])
    ctx.check(ok_loop, 'C17.abtest', sel, 'eligibility is evaluated against the total that already includes this request', sel.node, key='select:order')
    if loops:
        lp = loops[0]
        svar = core.src(lp.target)
        brk = [b for b in ast.walk(lp) if isinstance(b, ast.Break)]
        okb = len(brk) == 1 and [core.src(t) for t, pol in cfg.guards(brk[0], sel.node, siblings=False) if pol] == [f'{svar}.eligible(self._total)']
        ctx.check(okb, 'C17.abtest', sel, 'the first eligible slot (highest target first) is taken', lp, key='select:first-eligible')
        ret = next((r for r in core.walk_local(sel.node) if isinstance(r, ast.Return)), None)
        ctx.check(ret is not None and core.src(ret.value) == f'{svar}.hit(registry)', 'C17.abtest', sel, 'the hit slot provides the instance', ret or sel.node, key='select:return')
    slot = prog.cls(f'{ci.ref}.Slot')
    hit = prog.func(f'{slot.ref}.hit')
    ctx.check([core.src(s) for s in hit.body if not isinstance(s, ast.Expr) or not isinstance(s.value, ast.Constant)] == ['self.count += 1', 'return self._instance(registry)'], 'C17.abtest', hit, 'a hit counts one and returns the slot instance', hit.node, key='slot:hit')
    el = prog.func(f'{slot.ref}.eligible')
    ret = next((r for r in core.walk_local(el.node) if isinstance(r, ast.Return)), None)
    ctx.check(ret is not None and core.src(ret.value).replace('(', '').replace(')', '') == 'self.count / total < self.target', 'C17.abtest', el, 'a slot is eligible while its share is below its target', el.node, key='slot:eligible')
    inst = prog.func(f'{slot.ref}._instance')
    call = _instance_call(inst)
    kws = {k.arg: core.src(k.value) for k in call.keywords} if call else {}
    ctx.check(kws == {'registry': 'registry', 'project': 'self.variant.project', 'release': 'self.variant.release', 'generation': 'self.variant.generation'}, 'C17.abtest', inst, 'a slot serves the instance of its own variant', call or inst.node, key='slot:instance')
    init = prog.func(f'{ci.ref}.__init__')
    text = core.src(init.node)
    # the arithmetic of the omitted targets, read off the normal form of __init__ (temporaries, sort spelling, key function
    # spelling and the counting idiom do not matter)
    nf = init.normal().node
    defs: dict = {}
    for a in ast.walk(nf):
        if isinstance(a, ast.Assign) and len(a.targets) == 1 and isinstance(a.targets[0], ast.Name):
            defs.setdefault(a.targets[0].id, []).append(a.value)

    def one(e):
        """the single definition of a name (or the expression itself)"""
        while isinstance(e, ast.Name) and len(defs.get(e.id, [])) == 1:
            e = defs[e.id][0]
        return e

    vname = next((n for n, vals in defs.items() if len(vals) == 1 and isinstance(vals[0], ast.Tuple) and [core.src(e) for e in vals[0].elts] == ['avar', 'bvar', '*others']), 'variants')

    def is_target_of(e, var: str) -> bool:
        return isinstance(e, ast.Attribute) and e.attr == 'target' and isinstance(e.value, ast.Name) and e.value.id == var

    # shares: Slot(v, t / combined) for (v, t) in zip(variants, targets) - or the quotients named first:
    # Slot(v, s) for (v, s) in zip(variants, [t / combined for t in targets]); combined = sum(targets)
    lossy = [c for c in core.walk_local(init.node) if isinstance(c, ast.Call) and (core.call_name(c) or '').split('.')[-1] in ('round', 'int', 'floor', 'ceil', 'trunc', 'quantize', 'Decimal', 'format')]
    slot_calls = [c for c in ast.walk(nf) if isinstance(c, ast.Call) and core.src(c.func) == 'self.Slot']
    paired = exact = bool(slot_calls)

    def quotient_of(e, tvar: str, tseq) -> bool:
        return isinstance(e, ast.BinOp) and isinstance(e.op, ast.Div) and isinstance(e.left, ast.Name) and e.left.id == tvar and core.src(one(e.right)) == f'sum({core.src(tseq)})'

    for c in slot_calls:
        comp = next((a for a in core.ancestors(c) if isinstance(a, (ast.GeneratorExp, ast.ListComp))), None)
        g = comp.generators[0] if comp is not None and len(comp.generators) == 1 and not comp.generators[0].ifs else None
        z = g.iter if g is not None and isinstance(g.iter, ast.Call) and core.call_name(g.iter) == 'zip' and len(g.iter.args) == 2 and isinstance(g.target, ast.Tuple) and len(g.target.elts) == 2 else None
        if z is None or len(c.args) != 2 or c.keywords:
            paired = exact = False
            continue
        v, t = (core.src(e) for e in g.target.elts)
        paired = paired and core.src(z.args[0]) == vname and core.src(c.args[0]) == v
        second = one(z.args[1])
        if isinstance(second, ast.ListComp) and len(second.generators) == 1 and not second.generators[0].ifs and isinstance(second.generators[0].target, ast.Name):
            exact = exact and core.src(c.args[1]) == t and quotient_of(second.elt, second.generators[0].target.id, second.generators[0].iter)
        else:
            exact = exact and quotient_of(c.args[1], t, z.args[1])
    ctx.check(paired and exact, 'C17.abtest', init, 'targets are normalised by their combined weight, paired with their variants in order', init.node, key='init:normalise')
    ctx.check(not lossy and exact, 'C17.abtest', init, f'every slot gets the exact quotient target / combined (lossy conversions: {[core.src(c)[:30] for c in lossy]})', lossy[0] if lossy else init.node, key='init:exact-share')
    srt = next((c for c in ast.walk(nf) if isinstance(c, ast.Call) and core.call_name(c) == 'sorted'), None)
    keyf = next((k.value for k in srt.keywords if k.arg == 'key'), None) if srt is not None else None
    oks = srt is not None and any(k.arg == 'reverse' and core.is_const(k.value, True) for k in srt.keywords) and isinstance(keyf, ast.Lambda) and len(keyf.args.args) == 1 and is_target_of(keyf.body, keyf.args.args[0].arg)
    ctx.check(oks, 'C17.abtest', init, 'slots are probed from the largest target share down (sorted by target, descending): the dominant variant is never starved by smaller ones', init.node, key='init:slot-order')
    # targets = [v.target or implicit for v in variants]
    fill = None
    for vals in defs.values():
        for v in vals:
            if isinstance(v, ast.ListComp) and len(v.generators) == 1 and not v.generators[0].ifs and isinstance(v.generators[0].target, ast.Name) and core.src(v.generators[0].iter) == vname:
                var = v.generators[0].target.id
                e = v.elt
                if isinstance(e, ast.BoolOp) and isinstance(e.op, ast.Or) and len(e.values) == 2 and is_target_of(e.values[0], var) and isinstance(e.values[1], ast.Name):
                    fill = e.values[1]
                elif isinstance(e, ast.IfExp) and is_target_of(e.test, var) and is_target_of(e.body, var) and isinstance(e.orelse, ast.Name):
                    fill = e.orelse
    ctx.check(fill is not None, 'C17.abtest', init, 'omitted targets are filled position-wise ([v.target or implicit for v in variants])', init.node, key='init:implicit')
    imp = one(fill) if fill is not None else None
    given = None  # the list of the provided targets
    for name, vals in defs.items():
        for v in vals:
            if isinstance(v, ast.ListComp) and len(v.generators) == 1 and core.src(v.generators[0].iter) == vname and isinstance(v.generators[0].target, ast.Name) and is_target_of(v.elt, v.generators[0].target.id) and len(v.generators[0].ifs) == 1 and is_target_of(v.generators[0].ifs[0], v.generators[0].target.id):
                given = name
    oki = okm = False
    if isinstance(imp, ast.IfExp) and given is not None:
        t, b, o = imp.test, imp.body, imp.orelse
        if isinstance(t, ast.Compare) and len(t.ops) == 1 and isinstance(t.ops[0], ast.GtE) and core.is_const(t.comparators[0], 1):
            t, b, o = ast.Compare(left=t.left, ops=[ast.Lt()], comparators=t.comparators), o, b
        total_of = lambda e: core.src(one(e)) == f'sum({given})'  # noqa: E731
        shape = isinstance(t, ast.Compare) and len(t.ops) == 1 and isinstance(t.ops[0], ast.Lt) and core.is_const(t.comparators[0], 1) and total_of(t.left)
        shape = shape and isinstance(b, ast.BinOp) and isinstance(b.op, ast.Div) and isinstance(b.left, ast.BinOp) and isinstance(b.left.op, ast.Sub) and core.is_const(b.left.left, 1) and total_of(b.left.right)
        shape = shape and isinstance(o, ast.BinOp) and isinstance(o.op, ast.Div) and total_of(o.left) and core.src(o.right) == f'len({given})'
        oki = bool(shape)
        if shape:
            m = one(b.right)
            mt = core.src(m)
            count_gen = isinstance(m, ast.Call) and core.call_name(m) == 'sum' and len(m.args) == 1 and isinstance(m.args[0], (ast.GeneratorExp, ast.ListComp)) and core.is_const(m.args[0].elt, 1) and len(m.args[0].generators) == 1 and core.src(m.args[0].generators[0].iter) == vname and len(m.args[0].generators[0].ifs) == 1 and isinstance(m.args[0].generators[0].ifs[0], ast.UnaryOp) and is_target_of(m.args[0].generators[0].ifs[0].operand, core.src(m.args[0].generators[0].target))
            okm = count_gen or mt == f'len({vname}) - len({given})'
    ctx.check(oki, 'C17.abtest', init, 'an omitted target is the complement to 1 shared by the omitted variants (fractions) or the mean of the provided integer weights (sum / number of provided targets) as documented', init.node, key='init:implicit-weight')
    ctx.check(okm, 'C17.abtest', init, 'the omitted targets are counted one per variant', init.node, key='init:missing-count')
    gen = prog.func('forml.application._descriptor:Generic.__init__')
    ctx.check(any(core.src(a.value) == 'selector or _strategy.Latest(project=name)' for a in core.walk_local(gen.node) if isinstance(a, (ast.Assign, ast.AnnAssign)) and a.value is not None and core.src(a.target if isinstance(a, ast.AnnAssign) else a.targets[0]) == 'self._strategy'), 'C17.abtest', gen, 'a generic application uses the given selector, else the latest strategy of its own project', gen.node, key='generic:strategy')
    ctx.check('len(set(variants)) != len(variants)' in text and 'raise ValueError' in text, 'C17.abtest', init, 'duplicate variants are rejected', init.node, key='init:exclusive')
    # builder: an omitted project/release of a further variant is inherited from the previous one; a given one wins
    ov = prog.func(f'{ci.ref}.Builder.over')
    vcalls = [c for c in core.calls_in(ov.node) if core.call_tail(c) == 'Variant']
    okv = len(vcalls) == 1 and [core.src(a) for a in vcalls[0].args] == ['project or last.project', 'release or last.release', 'generation', 'target'] and not vcalls[0].keywords
    ctx.check(okv, 'C17.abtest', ov, 'over(): Variant(project or previous project, release or previous release, generation, target)', vcalls[0] if vcalls else ov.node, key='builder:over')
    ctx.check('last = self._variants[-1]' in core.src(ov.node) and 'self._variants.append(' in core.src(ov.node), 'C17.abtest', ov, 'the previous variant is the last one added; the new one is appended after it', ov.node, key='builder:last')
    var = prog.func(f'{ci.ref}.Variant.__new__')
    gs = [core.src(t) for r in core.walk_local(var.node) if isinstance(r, ast.Raise) for t, pol in cfg.guards(r, var.node) if pol]
    ctx.check('target is not None and target <= 0' in gs, 'C17.abtest', var, 'non-positive targets are rejected', var.node, key='variant:positive')
    ctx.check('self._total: int = 0' in text or 'self._total = 0' in text, 'C17.abtest', init, 'the request counter starts at zero', init.node, key='init:total')


SLOT_MEMO_OK = {
    (f'{STRATEGY}:Explicit.select', '_instance', 'registry'): 'the explicit strategy pins *the* configured instance: the same object on every request by contract',
}


def slot_memos(ctx) -> None:
    """A result memoised in an instance slot (``if not self._x: self._x = f(p)`` ... ``return self._x``) ignores the parameter
    ``p`` on every later call: a selector serving several registries would hand the first registry's instance to all of them.
    Memoisation keyed by the arguments (lru_cache over (self, registry)) is the accepted form."""
    prog = ctx.prog
    n = 0
    for fn in prog.functions([STRATEGY]):
        params = set(fn.param_names) - {'self', 'cls'}
        if not params:
            continue
        for st in core.walk_local(fn.node):
            if not isinstance(st, ast.If):
                continue
            tested = {x.attr for x in ast.walk(st.test) if isinstance(x, ast.Attribute) and core.src(x.value) == 'self'}
            for a in st.body:
                if isinstance(a, (ast.Assign, ast.AnnAssign)):
                    tgt = a.targets[0] if isinstance(a, ast.Assign) else a.target
                    if isinstance(tgt, ast.Attribute) and core.src(tgt.value) == 'self' and tgt.attr in tested and a.value is not None:
                        used = sorted(params & core.names_in(a.value))
                        for p_ in used:
                            n += 1
                            key = (fn.ref, tgt.attr, p_)
                            if key in SLOT_MEMO_OK:
                                ctx.ok('C17.memo', fn, f'self.{tgt.attr} memoises a value computed from `{p_}`: {SLOT_MEMO_OK[key]}', a)
                            else:
                                ctx.fail('C17.memo', fn, f'self.{tgt.attr} memoises a value computed from the parameter `{p_}` without keying by it: later calls with another {p_} get the first one\'s result', a, key=f'memo:{tgt.attr}:{p_}')
    ctx.floor('C17.memo', n, 1)
    inst = prog.func(f'{STRATEGY}:ABTest.Slot._instance')
    decos = [d.split('.')[-1] for d in core.decorator_names(inst.node)]
    ctx.check(any(d in ('lru_cache', 'cache') for d in decos) or not any(isinstance(x, ast.Attribute) and isinstance(x.ctx, ast.Store) for x in core.walk_local(inst.node)), 'C17.memo', inst, 'the slot instance is memoised per (slot, registry) - or not at all', inst.node, key='slot:instance-memo')


def run(ctx) -> None:
    from . import C08
    nred = shared.r_reduce(ctx, [c for c in ctx.prog.classes.values() if c.module.name.startswith('forml.application')])
    ctx.floor('R-PICKLE.reduce', nred, 1)

    C08.eqhash_agreement(ctx, ('forml.io.asset', 'forml.application'), floor=4)
    # what a selector remembers (picked instance, cache, lock, counters) is its own: a container bound in the class body and
    # written through self is shared by every selector of the process - Explicit(1.0) would answer with Latest's pick
    shared.r_perinstance(ctx, [c for c in ctx.prog.classes.values() if c.module.name.startswith('forml.application')])
    slot_memos(ctx)
    explicit(ctx)
    latest(ctx)
    abtest(ctx)
    C05.r_cache(ctx)
    C05.listing_passthrough(ctx)
    shared.argname_scope(ctx, ('forml.application',), floor=2)
