"""C13 - actor state and hyper-parameter contract holds for every actor flavour (DESIGN.md section 4/C13)."""
from __future__ import annotations

import ast

from .. import cfg, core
from . import shared

EXPLANATION = (
    'Static decision of the structural clauses of C13 (thin): (1) params bracket - every state import that overwrites '
    'instance state wholesale (self.__dict__.update in Actor.set_state, actor.set_state in SetState.set) is bracketed on all '
    'paths by get_params() before and set_params(**same value) after on the same receiver, and the pickle reducer of wrapped '
    'classes restores state first and parameters second from (get_state(), get_params()); (2) empty state - every set_state '
    'implementation leaves the actor untouched for a falsy state and Preset.reduce skips the setter for a falsy value; (3) '
    'override pairing - a class overriding get_state with a non-constant result overrides set_state and vice versa, likewise '
    'get_params/set_params; (4) statefulness - is_stateful compares the code object of the resolved train with the base one, '
    'every override of is_stateful is a confirmed listed exception; Builder.update/__call__ let later keyword arguments win; '
    '(5) R-PICKLE for Spec and the wrap metaclass products. Behavioural identity after state transfer/pickling is not decided.'
)
ASSUMPTIONS = ['cloudpickle round-trips the exported state; dict | and ** let the right-hand mapping win']
MANIFEST = {
    'level': 'Static bracket (must-precede / must-follow on all paths), guard and class-table pairing rules over every '
             'flow.Actor subclass in forml/. They are necessary conditions of "builder parameters take precedence" and "an '
             'empty state leaves the actor untrained" for every flavour; the behavioural equivalence itself is not claimed.',
    'note': 'Trusted: stdlib ast; cloudpickle. Not decided: behaviour after state transfer, pickling round trips of values, '
            'precedence for every update order (values).',
    'technique': 'static analysis: CFG dominance/post-dominance bracket rule, falsy-state guard rule, override pairing over '
                 'the class table (static MRO), reducer argument-order agreement, R-PICKLE',
}

TASK = 'forml.flow._task'
USER = 'forml.flow._code.target.user'
WACTOR = 'forml.pipeline.wrap._actor'

# classes allowed to export a constant (empty) state without an importer / to override is_stateful (one reason each)
CONSTANT_STATE_OK = {
    'forml.pipeline.payload._debug:Dumpable': 'get_state is final and returns None: nothing to import',
    'forml.pipeline.payload._debug:Sniff.Captor': 'captures values as a side effect, exports no state',
}
IS_STATEFUL_OK = {
    'forml.pipeline.wrap._actor:Class.Actor': 'statefulness of a wrapped class is decided by the method mapping',
    'forml.pipeline.payload._debug:Dumpable': 'stateful iff train_dump is overridden',
}


def bracket(ctx) -> None:
    prog = ctx.prog
    sites = [(f'{TASK}:Actor.set_state', 'self', lambda c: core.src(c.func) == 'self.__dict__.update'), (f'{USER}:SetState.set', 'actor', lambda c: core.src(c.func) == 'actor.set_state')]
    for ref, recv, is_import in sites:
        fn = prog.func(ref)
        graph = cfg.CFG(fn.node)
        imports = [s for s in graph.statements() if any(is_import(c) for c in cfg.header_calls(s))]
        if len(imports) != 1:
            ctx.fail('C13.bracket', fn, f'wholesale state import not found exactly once ({len(imports)})', fn.node, key='import')
            continue
        imp = imports[0]
        gets = [s for s in graph.statements() if isinstance(s, ast.Assign) and core.src(s.value) == f'{recv}.get_params()']
        ok_get = len(gets) == 1 and graph.dominates(gets[0], imp)
        ctx.check(ok_get, 'C13.bracket', fn, 'the current hyper-parameters are captured before the state is imported', imp, key='get-before')
        pvar = core.src(gets[0].targets[0]) if gets else 'params'
        sets = [s for s in graph.statements() if isinstance(s, ast.Expr) and core.src(s.value) == f'{recv}.set_params(**{pvar})']
        ok_set = len(sets) == 1 and graph.dominates(imp, sets[0]) and graph.must_pass(imp, cfg.EXIT, via=sets, normal_only=True)
        ctx.check(ok_set, 'C13.bracket', fn, 'and restored afterwards on every path (builder parameters take precedence over those stored in a state)', imp, key='set-after')
        between = [s for s in graph.statements() if isinstance(s, ast.Assign) and core.src(s.targets[0]) == pvar and s is not (gets[0] if gets else None)]
        ctx.check(not between, 'C13.bracket', fn, 'the captured parameters are restored unmodified', imp, key='same-value')
    # the pickle reducer of wrapped classes
    mod = prog.module(WACTOR)
    regs = [c for c in ast.walk(mod.tree) if isinstance(c, ast.Call) and core.call_name(c) == 'copyreg.pickle']
    ctx.check(len(regs) >= 1, 'R-PICKLE', WACTOR, 'metaclass-made wrapped actor classes register a copyreg reducer', key='copyreg', loc=mod.relpath)
    from .. import equiv

    def as_function(e, near):
        """(parameter names, result expression or None, effect expressions in evaluation order) of a lambda or of a function
        defined next to the registration (normal form: temporaries and tuple unpacking resolved)."""
        if isinstance(e, ast.Lambda):
            return [a.arg for a in e.args.args], e.body, list(e.body.elts) if isinstance(e.body, ast.Tuple) else [e.body]
        if isinstance(e, ast.Name):
            host = next((a for a in core.ancestors(near) if isinstance(a, core.FUNC)), None)
            d = next((n for n in ast.walk(host) if isinstance(n, core.FUNC) and n.name == e.id), None) if host is not None else None
            if d is None:
                return None
            params = [a.arg for a in d.args.args]
            nf = equiv.normal_form(d, equiv._ACTIVE_SIGS)  # pylint: disable=protected-access
            nparams = [a.arg for a in nf.args.args]
            back = dict(zip(nparams, params))

            class Back(ast.NodeTransformer):
                def visit_Name(self, n):  # noqa: N802
                    n.id = back.get(n.id, n.id)
                    return n

            body = [Back().visit(st) for st in nf.body]
            # ``s, p = content`` names the slots of the argument: read as content[0], content[1]
            slots = {}
            for st in list(body):
                if isinstance(st, ast.Assign) and len(st.targets) == 1 and isinstance(st.targets[0], ast.Tuple) and all(isinstance(t, ast.Name) for t in st.targets[0].elts) and isinstance(st.value, ast.Name) and st.value.id in params:
                    for k, t in enumerate(st.targets[0].elts):
                        slots[t.id] = ast.Subscript(value=ast.Name(id=st.value.id, ctx=ast.Load()), slice=ast.Constant(value=k), ctx=ast.Load())
                    body.remove(st)

            class Slots(ast.NodeTransformer):
                def visit_Name(self, n):  # noqa: N802
                    return slots.get(n.id, n) if isinstance(n.ctx, ast.Load) else n

            body = [Slots().visit(st) for st in body]
            if not all(isinstance(st, (ast.Expr, ast.Return, ast.Pass)) for st in body):
                return None
            ret = next((st.value for st in body if isinstance(st, ast.Return)), None)
            return params, ret, [st.value for st in body if isinstance(st, ast.Expr)] + ([ret] if ret is not None else [])
        return None

    for r in regs:
        red = as_function(r.args[1], r) if len(r.args) > 1 else None
        if red is None or not isinstance(red[1], ast.Tuple) or len(red[0]) != 1:
            ctx.fail('R-PICKLE', WACTOR, 'reducer shape not recognised', key='reducer', loc=f'{mod.relpath}:{r.lineno}')
            continue
        elts = red[1].elts
        state = ast.unparse(elts[2]) if len(elts) > 2 else ''
        a = red[0][0]
        ctx.check(state == f'({a}.get_state(), {a}.get_params())', 'R-PICKLE', WACTOR, f'the reducer exports (state, params): {state}', key='reducer:state', loc=f'{mod.relpath}:{r.lineno}')
        setter = as_function(elts[5], r) if len(elts) > 5 else None
        ok = False
        if setter is not None and len(setter[0]) == 2:
            i, c = setter[0]
            ok = [ast.unparse(x) for x in setter[2]] in ([f'({i}.set_state({c}[0]), {i}.set_params(**{c}[1]))'], [f'{i}.set_state({c}[0])', f'{i}.set_params(**{c}[1])'])
        ctx.check(ok, 'R-PICKLE', WACTOR, 'and restores the state first, the parameters second, from the matching slots', key='reducer:setter', loc=f'{mod.relpath}:{r.lineno}')


def empty_state(ctx) -> None:
    prog = ctx.prog
    actor = prog.cls(f'{TASK}:Actor')
    n = 0
    for ci in prog.subclasses(actor, strict=False):
        if 'set_state' not in ci.methods:
            continue
        fn = prog.func(f'{ci.ref}.set_state')
        param = [p for p in fn.param_names if p != 'self'][0]
        n += 1
        graph = cfg.CFG(fn.node)
        muts = [s for s in graph.statements() if isinstance(s, (ast.Assign, ast.AugAssign)) and any(isinstance(t, ast.Attribute) and core.src(t.value) == 'self' for t in (s.targets if isinstance(s, ast.Assign) else [s.target]))]
        muts += [s for s in graph.statements() if any(core.src(c.func) in ('self.__dict__.update', 'self.set_params') or (isinstance(c.func, ast.Attribute) and c.func.attr.startswith('set_') and core.src(c.func.value).startswith('self.')) for c in cfg.header_calls(s))]
        ok = True
        for m in muts:
            gs = cfg.cguards(m, fn.node, siblings=True)
            guarded = (param, True) in gs
            ok = ok and guarded
        ctx.check(ok, 'C13.empty-state', fn, f'{ci.qual}.set_state leaves the actor untouched for an empty state ({len(muts)} mutation(s) all under a non-empty guard)', fn.node, key=f'{ci.qual}:empty')
        # ... and accepts it: the empty state is what get_state of a stateless actor hands out (and what its pickle carries), so
        # no refusal may be reachable for it either
        raises = [r for r in core.walk_local(fn.node) if isinstance(r, ast.Raise)]
        ctx.check(all((param, True) in cfg.cguards(r, fn.node, siblings=True) for r in raises), 'C13.empty-state', fn, f'{ci.qual}.set_state refuses (raises) only for a non-empty state: the empty state is a no-op for every flavour ({len(raises)} raise(s))', raises[0] if raises else fn.node, key=f'{ci.qual}:empty-raise')
    ctx.floor('C13.set_state-impls', n, 2)
    red = prog.func(f'{USER}:Preset.reduce')
    sets = [c for c in core.calls_in(red.node) if core.src(c.func) == 'self.set']
    ok = len(sets) == 1 and any(pol and core.src(t) == 'value' for t, pol in cfg.guards(sets[0], red.node, siblings=False))
    ctx.check(ok, 'C13.empty-state', red, 'a falsy preset value (empty state) is not applied', red.node, key='Preset.reduce')
    text = core.src(red.node)
    ctx.check('value, *args = args' in text and 'return self._action.reduce(actor, *args)' in text, 'C13.empty-state', red, 'the preset consumes the first argument and forwards the rest unchanged', red.node, key='Preset.reduce:args')
    gs = prog.func(f'{TASK}:Actor.get_state')
    er = [r for r in core.walk_local(gs.node) if isinstance(r, ast.Return) and core.src(r.value) in ("b''", 'bytes()')]
    ctx.check(len(er) == 1 and cfg.cguards(er[0], gs.node, siblings=True) == [('self.is_stateful()', False)], 'C13.empty-state', gs, 'a stateless actor exports the empty state', gs.node, key='get_state:stateless')


def _constant_return(fn_node: ast.AST) -> bool:
    rets = [r for r in core.walk_local(fn_node) if isinstance(r, ast.Return)]
    return bool(rets) and all(r.value is None or isinstance(r.value, ast.Constant) for r in rets)


def wrapped_stateful(ctx) -> None:
    """Class-wrapped actors: stateful exactly when the origin has a training implementation.  The mapping defaults every
    Actor API name (train included) to the equally named origin method, and is_stateful = the train target is a callable or
    an attribute of the origin - nothing else."""
    prog = ctx.prog
    new = prog.func(f'{WACTOR}:Class.__new__')
    loops = [n for n in core.walk_local(new.node) if isinstance(n, ast.For) and any(core.src(c) == f'mapping.setdefault({core.src(n.target)}.__name__, {core.src(n.target)}.__name__)' for c in core.calls_in(n))]
    names = sorted(core.src(e).split('.')[-1] for e in loops[0].iter.elts) if len(loops) == 1 and isinstance(loops[0].iter, (ast.Tuple, ast.List)) else None
    ctx.check(names == ['apply', 'get_params', 'set_params', 'train'], 'C13.stateful', new, f'every Actor API name - train included - defaults to the equally named origin method (found {names}): an origin with a train method is stateful without naming it in the mapping', loops[0] if loops else new.node, key='Class.__new__:defaults')
    if loops:
        g = cfg.cguards(loops[0], new.node)
        ctx.check(g in ([('mapping is not None', True)], [('mapping is None', False)]), 'C13.stateful', new, f'the defaults apply whenever a mapping is given - also an empty one (the documented parameterless decorator); tested by presence, not truthiness (found {g})', loops[0], key='Class.__new__:defaults-guard')
    st = prog.func(f'{WACTOR}:Class.Actor.is_stateful')
    rets = [r for r in core.walk_local(st.node) if isinstance(r, ast.Return)]
    asg = {core.src(a.targets[0]): a.value for a in core.walk_local(st.node) if isinstance(a, ast.Assign) and len(a.targets) == 1}
    ok = False
    if len(rets) == 1 and isinstance(rets[0].value, ast.BoolOp) and isinstance(rets[0].value.op, ast.Or) and len(rets[0].value.values) == 2:
        a, b = rets[0].value.values
        if isinstance(a, ast.Call) and core.call_name(a) == 'callable' and isinstance(b, ast.Call) and core.call_name(b) == 'hasattr' and len(b.args) == 2:
            tgt = core.src(a.args[0])
            val = asg.get(tgt, a.args[0])
            ok = core.src(b.args[0]) == 'cls.Origin' and core.src(b.args[1]) == tgt and isinstance(val, ast.Subscript) and core.src(val.value) == 'cls.Mapping' and core.src(val.slice) in ('flow.Actor.train.__name__', "'train'")
    ctx.check(ok, 'C13.stateful', st, 'a class-wrapped actor is stateful exactly when its train target is a callable or an attribute of the origin', st.node, key='Class.Actor.is_stateful')


def pairing(ctx) -> None:
    prog = ctx.prog
    actor = prog.cls(f'{TASK}:Actor')
    n = 0
    for ci in prog.subclasses(actor):
        for a, b in (('get_state', 'set_state'), ('get_params', 'set_params')):
            ha, hb = a in ci.methods, b in ci.methods
            if not (ha or hb):
                continue
            n += 1
            if ha and not hb and _constant_return(ci.methods[a]):
                ok = ci.ref in CONSTANT_STATE_OK or a == 'get_params'
                ctx.check(ok, 'C13.pairing', ci.ref, f'{ci.qual} exports a constant through {a} without {b}: ' + CONSTANT_STATE_OK.get(ci.ref, 'not a listed exception'), key=f'{ci.qual}:{a}', loc=f'{ci.module.relpath}:{ci.methods[a].lineno}')
                continue
            # the missing half may be provided by a *proper* ancestor below Actor
            def provided(name):
                found = ci.lookup(name)
                return found is not None and found[0] is not actor
            ctx.check(provided(a) and provided(b), 'C13.pairing', ci.ref, f'{ci.qual} overrides {a if ha else b}: its counterpart {b if ha else a} is overridden as well (exporter and importer agree on the representation)', key=f'{ci.qual}:{a}/{b}', loc=f'{ci.module.relpath}:{ci.node.lineno}')
        if 'is_stateful' in ci.methods:
            ctx.check(ci.ref in IS_STATEFUL_OK, 'C13.stateful', ci.ref, f'{ci.qual} overrides is_stateful: ' + IS_STATEFUL_OK.get(ci.ref, 'not a confirmed exception'), key=f'{ci.qual}:is_stateful', loc=f'{ci.module.relpath}:{ci.methods["is_stateful"].lineno}')
    ctx.floor('C13.pairing', n, 4)
    wrapped_stateful(ctx)
    st = prog.func(f'{TASK}:Actor.is_stateful')
    ret = next((r for r in core.walk_local(st.node) if isinstance(r, ast.Return)), None)
    ctx.check(ret is not None and core.src(ret.value) == 'cls.train.__code__ is not Actor.train.__code__', 'C13.stateful', st, 'an actor is stateful exactly when it overrides train', st.node, key='is_stateful')
    tr = prog.func(f'{TASK}:Actor.train')
    ctx.check(any(isinstance(s, ast.Raise) for s in tr.body), 'C13.stateful', tr, 'the base train refuses (stateless)', tr.node, key='train:base')
    bu, bc = prog.func(f'{TASK}:Builder.update'), prog.func(f'{TASK}:Builder.__call__')
    ctx.check('*(args or self.args), **self.kwargs | kwargs' in core.src(bu.node), 'C13.params', bu, 'update(): new keyword arguments win over the stored ones, positional ones replace', bu.node, key='Builder.update')
    ctx.check('self.actor(*(args or self.args), **self.kwargs | kwargs)' in core.src(bc.node), 'C13.params', bc, 'instantiation: call-time keyword arguments win over the builder ones', bc.node, key='Builder.__call__')
    rs = prog.func(f'{TASK}:Builder.reset')
    ctx.check('self.actor.builder(*args, **kwargs)' in core.src(rs.node), 'C13.params', rs, 'reset(): parameters are replaced', rs.node, key='Builder.reset')
    # wrapped stateful actors: state is its own slot, never the params
    sa = prog.cls(f'{WACTOR}:Stateful.Actor')
    g, s = prog.func(f'{sa.ref}.get_state'), prog.func(f'{sa.ref}.set_state')
    ctx.check('self._state' in core.src(g.node) and 'self._state = cloudpickle.loads(state)' in core.src(s.node) and '_kwargs' not in core.src(s.node), 'C13.params', s, 'decorated actors keep state and hyper-parameters in separate slots (a state never overwrites parameters)', s.node, key='Stateful.Actor:slots')


def trained_marker(ctx) -> None:
    """Decorated stateful actors mark "untrained" with ``self._state is None``; a legitimately falsy trained state (0, {},
    an empty frame) must still be exported/applied, so the marker is never tested by truthiness."""
    from .. import types as typesmod

    prog = ctx.prog
    sa = prog.cls(f'{WACTOR}:Stateful.Actor')
    n = 0
    for mname in sa.methods:
        fn = prog.func(f'{sa.ref}.{mname}')
        for expr, kind, owner in typesmod.bool_contexts(fn.node):
            if core.src(expr) in ('self._state', 'state') and mname != 'set_state':
                if core.src(expr) == 'state' and not any(isinstance(s, ast.Assign) and core.src(s.targets[0]) == 'state' for s in core.walk_local(fn.node)):
                    continue
                n += 1
                ctx.fail('C13.trained-marker', fn, f'`{core.src(expr)}` tested by truthiness: a trained but falsy state would be treated as untrained (exported as empty / refused); the untrained marker is `is None`', expr)
        for cmp in [c for c in core.walk_local(fn.node) if isinstance(c, ast.Compare) and core.src(c.left) in ('self._state', 'state') and isinstance(c.ops[0], (ast.Is, ast.IsNot)) and core.is_const(c.comparators[0], None)]:
            n += 1
            ctx.ok('C13.trained-marker', fn, f'untrained marker tested with `{core.src(cmp)}`', cmp)
    ctx.floor('C13.trained-marker', n, 3)


def pickling(ctx) -> None:
    prog = ctx.prog
    spec = prog.cls(f'{TASK}:Spec')
    new = spec.methods.get('__new__')
    g = spec.methods.get('__getnewargs_ex__')
    ok = new is not None and g is not None and new.args.vararg is not None and new.args.kwarg is not None
    ctx.check(ok, 'R-PICKLE', spec.ref, 'Spec.__new__(actor, *args, **kwargs) differs from the stored tuple and defines __getnewargs_ex__', key='Spec:getnewargs', loc=spec.module.relpath)
    if g is not None:
        ret = next((r for r in g.body if isinstance(r, ast.Return)), None)
        ctx.check(ret is not None and core.src(ret.value) == '((self.actor, *self.args), dict(self.kwargs))', 'R-PICKLE', spec.ref, 'it returns (actor, *args) and the keyword map', key='Spec:getnewargs-order', loc=f'{spec.module.relpath}:{g.lineno}')
    if new is not None:
        ret = next((r for r in core.walk_local(new) if isinstance(r, ast.Return)), None)
        ctx.check(ret is not None and [core.src(a) for a in ret.value.args[1:]] == ['actor', 'args', 'types.MappingProxyType(kwargs)'], 'R-PICKLE', spec.ref, 'Spec stores (actor, args, kwargs) in field order', key='Spec:stored', loc=f'{spec.module.relpath}:{new.lineno}')


def serializers(ctx) -> None:
    """State export/import use one by-value serializer everywhere: a trained state holds whatever the user's train function
    produced (fitted lambdas, instances of locally defined classes) - plain pickle stores those by reference and fails or
    binds to a different definition on the importing side.  Every get_state/set_state of an Actor class in forml serialises
    with cloudpickle, exporter and importer alike (sibling agreement)."""
    prog = ctx.prog
    actor = prog.cls(f'{TASK}:Actor')
    n = 0
    for ci in prog.subclasses(actor, strict=False):
        for m, want in (('get_state', 'dumps'), ('set_state', 'loads')):
            if m not in ci.methods:
                continue
            fn = prog.func(f'{ci.ref}.{m}')
            calls_ = [c for c in core.calls_in(fn.node) if isinstance(c.func, ast.Attribute) and c.func.attr in ('dumps', 'loads', 'dump', 'load')]
            if not calls_:
                continue
            for c in calls_:
                n += 1
                ctx.check(core.src(c.func) == f'cloudpickle.{want}', 'C13.serializer', fn, f'{ci.qual}.{m} serialises the state by value (`{core.src(c.func)}`; every state exporter/importer in forml uses cloudpickle.{want})', c)
    ctx.floor('C13.serializer', n, 4)
    # the class-wrapped flavour registers its reducer on every way out of the metaclass constructor
    new = prog.func(f'{WACTOR}:Class.__new__')
    graph = cfg.CFG(new.node)
    regs = [st for st in graph.statements() if any(core.call_name(c) == 'copyreg.pickle' for c in cfg.header_calls(st))]
    rets = [st for st in graph.statements() if isinstance(st, ast.Return)]
    ctx.check(len(regs) == 1 and bool(rets) and all(graph.dominates(regs[0], r) for r in rets), 'R-PICKLE', new, 'every class produced by the wrapping metaclass has its pickling reducer registered (copyreg.pickle dominates every return)', new.node, key='Class.__new__:copyreg')


def decorated_state(ctx) -> None:
    """Function-decorated stateful actors, statement by statement: an untrained actor exports the *empty* state (b''), an
    empty state is ignored on import (the actor stays untrained), applying untrained is refused, training continues from the
    current state and stores what the train function returned."""
    prog = ctx.prog
    sa = f'{WACTOR}:Stateful.Actor'
    U = shared.stmt_under
    g = prog.func(f'{sa}.get_state')
    U(ctx, 'C13.decorated', g, "return b''", [('self._state is None', True)], 'untrained -> the empty state', 'get_state:empty', inlined=False, siblings=False)
    U(ctx, 'C13.decorated', g, 'return cloudpickle.dumps(self._state)', [('self._state is None', False)], 'trained -> the serialised state', 'get_state:dump', inlined=False)
    st = prog.func(f'{sa}.set_state')
    v = st.param_names[1]
    U(ctx, 'C13.decorated', st, f'self._state = cloudpickle.loads({v})', [(v, True)], 'only a non-empty state is imported', 'set_state:nonempty', inlined=False, siblings=False)
    ap = prog.func(f'{sa}.apply')
    rs = [r for r in core.walk_local(ap.node) if isinstance(r, ast.Raise)]
    ctx.check(len(rs) == 1 and cfg.cguards(rs[0], ap.node) == [('self._state is None', True)], 'C13.decorated', ap, 'applying an untrained actor is refused', rs[0] if rs else ap.node, key='apply:untrained')
    tr = prog.func(f'{sa}.train')
    f, l = tr.param_names[1:3]
    U(ctx, 'C13.decorated', tr, f'state = self.Train(self._state, {f}, {l}, **self._kwargs)', [], 'training starts from the current state (incremental), with the builder parameters', 'train:call', inlined=False, siblings=False)
    U(ctx, 'C13.decorated', tr, 'self._state = state', [], 'and keeps whatever the train function returned', 'train:store', inlined=False, siblings=False)
    init = prog.func(f'{sa}.__init__')
    U(ctx, 'C13.decorated', init, 'self._state: typing.Optional[State] = None', [], 'a fresh actor is untrained', 'init:untrained', inlined=False, siblings=False)


def functor_actor(ctx) -> None:
    """Every execution of a functor works on an actor freshly built from the builder (then preset with this execution's
    state/params): nothing of a previous execution - a loaded state, preset params - survives into the next one."""
    prog = ctx.prog
    ex = prog.func(f'{USER}:Functor.execute')
    body = [core.src(x) for x in ex.body if not (isinstance(x, ast.Expr) and isinstance(x.value, ast.Constant))]
    va = ex.node.args.vararg.arg if ex.node.args.vararg else 'args'
    ctx.check(body == [f'return self.action(self.builder(), *{va})'], 'C13.functor', ex, f'Functor.execute = action(builder(), *args) with a fresh actor per call ({body})', ex.node, key='Functor.execute')
    fc = prog.cls(f'{USER}:Functor')
    cached = [m for m, node in fc.methods.items() if any(d.split('.')[-1] in ('cached_property', 'lru_cache', 'cache') for d in core.decorator_names(node))]
    ctx.check(not cached, 'C13.functor', fc.ref, f'a functor memoises nothing (found {cached})', key='Functor:no-memo', loc=fc.module.relpath)
    sp = prog.func(f'{TASK}:Spec.__getnewargs_ex__')
    ret = next((r for r in core.walk_local(sp.node) if isinstance(r, ast.Return)), None)
    ctx.check(ret is not None and core.src(ret.value) == '((self.actor, *self.args), dict(self.kwargs))', 'R-PICKLE', sp, 'a pickled builder ships all its keyword arguments (a None that overrides a default included)', sp.node, key='Spec:getnewargs-all')


def params_merge(ctx) -> None:
    """``set_params(**some)`` changes the named hyper-parameters and keeps the others: the decorator-made actors store their
    parameters in ``self._kwargs`` and *update* it - re-binding it to the keywords of one call drops every builder-supplied
    parameter that call did not repeat."""
    prog = ctx.prog
    n = 0
    for fn in prog.functions(['forml.pipeline.wrap._actor']):
        if fn.name != 'set_params':
            continue
        n += 1
        rebinds = [st for st in core.walk_local(fn.node) if isinstance(st, ast.Assign) and any(core.src(t).startswith('self._') for t in st.targets) and not any(isinstance(t, ast.Subscript) for t in st.targets)]
        updates = [c for c in core.walk_local(fn.node) if isinstance(c, ast.Call) and isinstance(c.func, ast.Attribute) and c.func.attr == 'update' and core.src(c.func.value).startswith('self._')]
        delegates = [c for c in core.walk_local(fn.node) if isinstance(c, ast.Call) and isinstance(c.func, ast.Attribute) and c.func.attr == 'set_params']
        ctx.check(not rebinds and (bool(updates) or bool(delegates)), 'C13.params-merge', fn, f'{fn.qual} merges the given parameters into the kept ones (update / delegation), never re-binds the store ({[core.src(x)[:40] for x in rebinds]})', rebinds[0] if rebinds else fn.node, key=f'merge:{fn.qual}')
    ctx.floor('C13.params-merge', n, 1)


def mapping_first(ctx) -> None:
    """The declared mapping of a class-wrapped actor wins over the origin's own attributes: ``Class.Actor.__getattribute__``
    falls back to ``getattr(self._origin, item)`` only for names the mapping does not translate - otherwise an origin that
    happens to have its own ``get_params`` / ``train`` bypasses the mapped implementation (and the hyper-parameter contract
    built on it)."""
    prog = ctx.prog
    fn = prog.func('forml.pipeline.wrap._actor:Class.Actor.__getattribute__')
    item = [p for p in fn.param_names if p != 'self'][0]
    direct = [r for r in core.walk_local(fn.node) if isinstance(r, ast.Return) and core.src(r.value) == f'getattr(self._origin, {item})']
    ctx.check(bool(direct), 'C13.mapping-first', fn, 'the fallback to the origin attribute (return getattr(self._origin, item)) is present', fn.node, key='getattribute:fallback')
    for r in direct:
        gs = cfg.cguards(r, fn.node, siblings=True)
        ctx.check((f'{item} in self.Mapping', False) in gs, 'C13.mapping-first', fn, f'the origin attribute is handed out only for names outside the mapping (guards {gs})', r, key='getattribute:mapping-first')


def run(ctx) -> None:
    functor_actor(ctx)
    decorated_state(ctx)
    serializers(ctx)
    bracket(ctx)
    empty_state(ctx)
    pairing(ctx)
    trained_marker(ctx)
    pickling(ctx)
    shared.argname_scope(ctx, ('forml.flow._task', 'forml.pipeline.wrap', 'forml.flow._code.target'), floor=2)
    # the wrappers delegate by *presence* of an origin attribute (hasattr), never by the truth of its value: a falsy state or
    # parameter of the origin must not fall back to the wrapper's own attribute
    ctx.floor('R-ATTRPRESENCE', shared.r_attr_presence(ctx, ctx.prog.functions([m for m in ctx.prog.modules if m.startswith(('forml.flow._task', 'forml.pipeline.wrap', 'forml.flow._code.target', 'forml.pipeline.payload'))])), 1)
    params_merge(ctx)
    mapping_first(ctx)
