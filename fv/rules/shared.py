"""Shared rule implementations (DESIGN.md section 3)."""
from __future__ import annotations

import ast
import typing

from .. import cfg, core, types

NATIVE_ALIAS = 'forml.io.dsl._struct.kind:Native'
SERIES = 'forml.io.dsl._struct.series'
FRAME = 'forml.io.dsl._struct.frame'


# --------------------------------------------------------------------------------------------------
# R-TRUTHY
# --------------------------------------------------------------------------------------------------
_bool_family_cache: dict[int, set[str]] = {}


def bool_overloading_classes(prog: core.Program) -> set[str]:
    """Classes of the DSL feature family with a subclass (or ancestor) that defines ``__bool__`` in the repository:
    the truth value of such an instance depends on its content, so truthiness cannot stand for presence."""
    key = id(prog)
    if key not in _bool_family_cache:
        definers = [c for c in prog.classes.values() if '__bool__' in c.methods and c.module.name.startswith('forml.io.dsl')]
        fam: set[str] = set()
        for d in definers:
            for anc in d.mro_classes():
                fam.add(anc.ref)
        _bool_family_cache[key] = fam
    return _bool_family_cache[key]


def is_native(t) -> bool:
    t = types.strip_opt(t)
    return bool(t) and t[0] == 'alias' and t[1] == NATIVE_ALIAS


def truth_unsafe(prog: core.Program, t) -> typing.Optional[str]:
    """Why truthiness of a value of declared type ``t`` is not an absence test; None when it is fine/unknown."""
    if t is None:
        return None
    if t[0] == 'opt':
        inner = t[1]
        if inner is None:
            return None
        if inner[0] == 'alias' and inner[1] == NATIVE_ALIAS:
            return 'Optional[dsl.Native]: present values such as 0, 0.0, "" or epoch are falsy'
        if inner[0] == 'cls' and inner[1] in bool_overloading_classes(prog):
            return f'Optional[{inner[1].split(":")[1]}]: a present Equal/Pythonic instance overloads __bool__ and may be falsy'
        if inner[0] == 'union':
            for x in inner[1]:
                why = truth_unsafe(prog, ('opt', x))
                if why:
                    return why
    return None


def r_truthy(ctx, tenv: types.TypeEnv, funcs: typing.Iterable[core.FuncInfo], rule: str = 'R-TRUTHY', select=None) -> int:
    """A value whose declared type is Optional[dsl.Native] / Optional[<DSL feature with overloaded __bool__>] must not
    be truth-tested.  Returns the number of typed truth-test candidates inspected (for instance floors)."""
    inspected = 0
    for fn in funcs:
        env = tenv.locals(fn)
        relevant = False
        for expr, kind, owner in tenv.bool_contexts(fn):
            if isinstance(expr, (ast.Compare, ast.Call, ast.Constant)):
                continue
            t = tenv.expr_type(fn, expr, env)
            why = truth_unsafe(ctx.prog, t)
            if why is None or (select is not None and not select(fn, expr, t)):
                continue
            relevant = True
            inspected += 1
            ctx.fail(
                rule,
                fn,
                f'truthiness of `{core.src(expr)}` used as absence test ({why}); use `is None` / `is not None`',
                expr,
                expr=core.src(expr),
                context=kind,
            )
        # typed None-tests are the discharged counterpart: count them as obligations
        for node in core.walk_local(fn.node):
            if isinstance(node, ast.Compare) and len(node.ops) == 1 and isinstance(node.ops[0], (ast.Is, ast.IsNot)):
                if core.is_const(node.comparators[0], None):
                    t = tenv.expr_type(fn, node.left, env)
                    if truth_unsafe(ctx.prog, t) and (select is None or select(fn, node.left, t)):
                        inspected += 1
                        relevant = True
                        ctx.ok(rule, fn, f'absence of `{core.src(node.left)}` tested with `{core.src(node)}`', node)
        if relevant:
            ctx.touch(fn)
    return inspected


def r_attr_presence(ctx, funcs, rule: str = 'R-ATTRPRESENCE') -> int:
    """Whether an object *has* an attribute is never decided by the truth of its value: ``getattr(o, n, None) or fallback``
    (and ``if getattr(o, n, None):``) sends every falsy value - 0, '', an empty container, False, a not-yet-trained state -
    down the "absent" path.  Presence is ``hasattr`` / a sentinel compared with ``is``.  Returns #getattr-with-default calls."""
    n = 0
    for fn in funcs:
        for c in core.walk_local(fn.node):
            if not (isinstance(c, ast.Call) and isinstance(c.func, ast.Name) and c.func.id == 'getattr' and len(c.args) == 3):
                continue
            n += 1
            par = core.parent(c)
            truthy = (isinstance(par, ast.BoolOp) and c in par.values[:-1]) or (isinstance(par, (ast.If, ast.IfExp, ast.While)) and par.test is c) or (isinstance(par, ast.UnaryOp) and isinstance(par.op, ast.Not))
            # ``getattr(x, 'name', None) or default`` for a *default value* of plain data is the legitimate idiom when the fallback is
            # a constant / display (name defaults); a fallback that is itself a lookup or call is a presence decision
            if truthy and isinstance(par, ast.BoolOp) and isinstance(par.op, ast.Or) and all(isinstance(v, (ast.Constant, ast.JoinedStr, ast.List, ast.Tuple, ast.Dict)) for v in par.values[par.values.index(c) + 1:]):
                truthy = False
            ctx.check(not truthy, rule, fn, f'attribute presence decided by the truth of its value: `{core.src(par)[:80]}` - a falsy attribute value is treated as absent', c, key=f'presence:{core.src(c)[:50]}')
    return n


# --------------------------------------------------------------------------------------------------
# R-ARGORDER
# --------------------------------------------------------------------------------------------------
def _tail_ident(node: ast.AST) -> typing.Optional[str]:
    if isinstance(node, ast.Name):
        return node.id
    if isinstance(node, ast.Attribute):
        return node.attr
    return None


def r_argorder(ctx, resolver, funcs, pair: tuple[str, ...], rule: str = 'R-ARGORDER') -> int:
    """Same-named values are not crossed at a call: an argument whose trailing identifier is one of ``pair`` and that
    binds to a parameter that is also one of ``pair`` must bind to the parameter of its own name."""
    n = 0
    names = set(pair)
    for fn in funcs:
        for call in core.calls_in(fn.node, deep=False):
            if not any(_tail_ident(a) in names for a in list(call.args) + [k.value for k in call.keywords]):
                continue
            callee = resolver.resolve(fn, call)
            if callee is None:
                continue
            bound = resolver.bind(callee, call)
            for pname, arg in bound.items():
                ident = _tail_ident(arg)
                if pname in names and ident in names:
                    n += 1
                    ctx.check(
                        ident == pname,
                        rule,
                        fn,
                        f'argument `{core.src(arg)}` bound to parameter `{pname}` of {callee.ref}',
                        call,
                        callee=callee.ref,
                    )
    return n


# --------------------------------------------------------------------------------------------------
# operator semantics (shared by C06 / C10 / C14)
# --------------------------------------------------------------------------------------------------
SYMBOL_OPERATOR = {
    '<': {'lt'}, '<=': {'le'}, '>': {'gt'}, '>=': {'ge'}, '==': {'eq'}, '!=': {'ne'},
    '+': {'add'}, '-': {'sub'}, '*': {'mul'}, '/': {'truediv'}, '%': {'mod'},
    'AND': {'and_'}, 'OR': {'or_'}, 'NOT': {'inv', 'invert', 'not_SQL'},
}
# python builtins that force ``bool()`` of their operand: never a valid translation target for a SQL clause
TRUTH_FORCING = {'operator.not_', 'operator.truth', 'operator.is_', 'operator.is_not', 'operator.contains', 'bool', 'all', 'any'}

CMP_TABLE = {  # operator name -> truth value for (v<b, v==b, v>b)
    'lt': (True, False, False), 'le': (True, True, False), 'gt': (False, False, True), 'ge': (False, True, True),
    'eq': (False, True, False), 'ne': (True, False, True),
}
_CMP_AST = {ast.Lt: 'lt', ast.LtE: 'le', ast.Gt: 'gt', ast.GtE: 'ge', ast.Eq: 'eq', ast.NotEq: 'ne'}
_SWAP = {'lt': 'gt', 'le': 'ge', 'gt': 'lt', 'ge': 'le', 'eq': 'eq', 'ne': 'ne'}


def comparison_of(node: ast.AST) -> typing.Optional[str]:
    """Name the comparison a callable expression denotes on (column, bound): ``operator.ge`` or a two-argument lambda
    comparing its parameters.  None when it is not recognisably a comparison."""
    name = core.dotted(node)
    if name and name.split('.')[-1] in CMP_TABLE and (name.startswith('operator.') or '.' not in name):
        return name.split('.')[-1]
    if isinstance(node, ast.Lambda) and len(node.args.args) == 2 and isinstance(node.body, ast.Compare):
        cmp = node.body
        if len(cmp.ops) == 1 and isinstance(cmp.left, ast.Name) and isinstance(cmp.comparators[0], ast.Name):
            a, b = node.args.args[0].arg, node.args.args[1].arg
            op = _CMP_AST.get(type(cmp.ops[0]))
            if op and cmp.left.id == a and cmp.comparators[0].id == b:
                return op
            if op and cmp.left.id == b and cmp.comparators[0].id == a:
                return _SWAP[op]
    return None


def class_symbol(ci: core.ClassInfo) -> typing.Optional[str]:
    found = ci.lookup('symbol')
    if found and isinstance(found[1], ast.Constant) and isinstance(found[1].value, str):
        return found[1].value
    return None


def dict_entries(node: ast.AST) -> list[tuple[ast.AST, ast.AST]]:
    if not isinstance(node, ast.Dict):
        raise core.AnalysisError(f'expected a dict literal, found {type(node).__name__}')
    return [(k, v) for k, v in zip(node.keys, node.values) if k is not None]


DUNDER_SYMBOL = {
    '__lt__': '<', '__le__': '<=', '__gt__': '>', '__ge__': '>=', '__eq__': '==', '__ne__': '!=',
    '__add__': '+', '__sub__': '-', '__mul__': '*', '__truediv__': '/', '__mod__': '%',
    '__and__': 'AND', '__or__': 'OR', '__invert__': 'NOT',
}
ALCHEMY = 'forml.provider.feed.reader.alchemy'


def expression_table(prog: core.Program) -> tuple[core.ClassInfo, list[tuple[ast.AST, ast.AST]]]:
    parser = prog.cls(f'{ALCHEMY}:Parser')
    node = parser.assigns.get('EXPRESSION')
    if node is None:
        raise core.AnalysisError('anchor vanished: alchemy.Parser.EXPRESSION')
    return parser, dict_entries(node)


def classify_translation(value: ast.AST) -> str:
    """Semantic class of a translation-table value: operator name, 'not_SQL', 'lambda', 'func.<x>' or dotted text."""
    name = core.dotted(value)
    if name is None:
        return 'lambda' if isinstance(value, ast.Lambda) else core.src(value)
    if name in TRUTH_FORCING:
        return 'TRUTH-FORCING:' + name
    if name.startswith('operator.'):
        return name.split('.')[-1]
    if name.split('.')[-1] == 'not_' and not name.startswith('operator'):
        return 'not_SQL'
    return name


def operator_chain(ctx, rule: str, only: typing.Optional[set[str]] = None) -> None:
    """Operable.__op__ builds the expression class whose ``symbol`` is that operator, in (self, other) order (reflected
    variants swapped), and the SQL translation table maps that class to the python operator of the same symbol."""
    prog = ctx.prog
    operable = prog.cls(f'{SERIES}:Operable')
    parser, entries = expression_table(prog)
    table: dict[str, ast.AST] = {}
    for k, v in entries:
        res = prog.resolve(parser.module, core.dotted(k) or '', scope=parser.qual)
        if isinstance(res, core.ClassInfo):
            table[res.ref] = v
    n = 0
    for dunder, sym in DUNDER_SYMBOL.items():
        if only is not None and sym not in only:
            continue
        for name, reflected in ((dunder, False), ('__r' + dunder[2:], True)):
            if name not in operable.methods:
                if not reflected:
                    raise core.AnalysisError(f'anchor vanished: Operable.{name}')
                continue
            fn = prog.func(f'{operable.ref}.{name}')
            rets = [r for r in core.walk_local(fn.node) if isinstance(r, ast.Return) and isinstance(r.value, ast.Call)]
            if len(rets) != 1:
                raise core.AnalysisError(f'Operable.{name}: expected a single constructing return')
            call = rets[0].value
            cname = core.call_name(call) or ''
            args = list(call.args)
            if cname.endswith('Pythonic'):
                built, operands = args[0], args[1:]
            else:
                built, operands = call.func, args
            res = prog.resolve_expr(fn, built)
            if not isinstance(res, core.ClassInfo):
                ctx.fail(rule, fn, f'{name} builds an unresolvable expression `{core.src(built)}`', call)
                continue
            got = class_symbol(res)
            n += 1
            ctx.check(got == sym, rule, fn, f'{name} builds {res.name} whose symbol is {got!r} (expected {sym!r})', call)
            want = ['other', 'self'] if reflected else ['self', 'other']
            if sym != 'NOT':
                # an operand may be cast to a literal on the way (cast(other)); what matters is which operand goes where
                got_ops = [core.src(o.args[0]) if isinstance(o, ast.Call) and core.call_name(o) == 'cast' and len(o.args) == 1 else core.src(o) for o in operands]
                ctx.check(got_ops == want, rule, fn, f'{name} passes operands as {want}', call, key=f'{name}:operands')
            if not reflected:
                val = table.get(res.ref)
                if val is None:
                    ctx.fail(rule, parser.ref, f'no SQL translation for {res.name}', key=f'EXPRESSION[{res.name}]', loc=parser.module.relpath)
                else:
                    kind = classify_translation(val)
                    ctx.check(
                        kind in SYMBOL_OPERATOR[sym], rule, parser.ref,
                        f'EXPRESSION[{res.name}] = {core.src(val)} implements {sym!r}', key=f'EXPRESSION[{res.name}]',
                        loc=f'{parser.module.relpath}:{val.lineno}',
                    )
    ctx.floor(rule, n, 4)


# --------------------------------------------------------------------------------------------------
# R-ELEMENT
# --------------------------------------------------------------------------------------------------
def r_element(ctx, func_refs: typing.Iterable[str], rule: str = 'R-ELEMENT') -> int:
    """Origin sets are computed over ``Element`` (every origin-bound feature), not over its ``Column`` subclass:
    ``Column.dissect`` silently ignores elements bound to a Reference (self-joins, aliased sources)."""
    prog = ctx.prog
    element = prog.cls(f'{SERIES}:Element')
    n = 0
    for ref in func_refs:
        fn = prog.func(ref)
        sites = [c for c in core.calls_in(fn.node) if isinstance(c.func, ast.Attribute) and c.func.attr == 'dissect']
        if not sites:
            continue  # no origin extraction here (the function's own rule decides what it may return)
        uses_origin = any(isinstance(x, ast.Attribute) and x.attr == 'origin' for x in core.walk_local(fn.node))
        for call in sites:
            recv = prog.resolve_expr(fn, call.func.value)
            n += 1
            if not isinstance(recv, core.ClassInfo):
                ctx.fail(rule, fn, f'dissect receiver `{core.src(call.func.value)}` not resolvable', call)
                continue
            good = recv is element or not recv.is_subclass_of(element) or not uses_origin
            ctx.check(
                good, rule, fn,
                f'origin set computed by {recv.name}.dissect: ' + ('covers every origin-bound element' if good else 'elements bound to a Reference origin are ignored'),
                call, receiver=recv.ref,
            )
    return n


# --------------------------------------------------------------------------------------------------
# R-ZIPEQ
# --------------------------------------------------------------------------------------------------
def r_zipeq(ctx, fn: core.FuncInfo, rule: str = 'R-ZIPEQ') -> None:
    """An equality that compares element-wise through ``zip(a, b)`` must also compare the lengths (or use
    ``strict=True``): zip truncates to the shorter operand, so a strict prefix would otherwise compare equal."""
    zips = [c for c in core.calls_in(fn.node) if core.call_name(c) == 'zip' and len(c.args) == 2]
    if not zips:
        ctx.ok(rule, fn, 'no zip-based element-wise comparison', fn.node)
        return
    for z in zips:
        strict = any(k.arg == 'strict' and core.is_const(k.value, True) for k in z.keywords)
        a, b = core.src(z.args[0]), core.src(z.args[1])
        lens = False
        for n in ast.walk(fn.node):
            if isinstance(n, ast.Compare) and len(n.ops) == 1 and isinstance(n.ops[0], ast.Eq):
                l, r = core.src(n.left), core.src(n.comparators[0])
                if {l, r} == {f'len({a})', f'len({b})'}:
                    # must be in a conjunction with the element-wise test (same BoolOp And) or an earlier early-exit
                    lens = True
        ctx.check(strict or lens, rule, fn, f'element-wise comparison over zip({a}, {b}) is paired with a length comparison (a strict prefix must not compare equal)', z, key=f'zip:{a},{b}')


# --------------------------------------------------------------------------------------------------
# order preservation
# --------------------------------------------------------------------------------------------------
ORDER_BREAKERS = {'sorted', 'set', 'frozenset', 'reversed', 'shuffle', 'sample', 'fromkeys', 'sort', 'reverse', 'Counter', 'heapify'}


def order_preserving(expr: ast.AST, source_text: str) -> tuple[bool, str]:
    """Is ``expr`` an order-preserving image of the sequence written ``source_text``?  Accepted: the sequence itself,
    list/tuple()/map over it, a single-generator comprehension or generator over it without filters, slices [:]; any
    call of sorted/set/reversed/... or a set/dict comprehension breaks the order."""
    text = core.src(expr)
    if source_text not in text:
        return False, f'does not derive from {source_text}'
    for n in ast.walk(expr):
        if isinstance(n, ast.Call):
            last = (core.call_name(n) or '').split('.')[-1]
            if last in ORDER_BREAKERS:
                return False, f'passes through {last}()'
        if isinstance(n, (ast.SetComp, ast.Set, ast.DictComp)):
            return False, 'collected into an unordered container'
        if isinstance(n, (ast.ListComp, ast.GeneratorExp)):
            if len(n.generators) != 1:
                return False, 'nested generators'
            if n.generators[0].ifs:
                return False, 'filtered (positions shift)'
        if isinstance(n, ast.Subscript) and isinstance(n.slice, ast.Slice) and n.slice.step is not None:
            return False, 'strided slice'
    return True, 'order preserved'


# --------------------------------------------------------------------------------------------------
# R-PASSTHROUGH
# --------------------------------------------------------------------------------------------------
def r_passthrough(ctx, resolver, funcs, names: tuple[str, ...], rule: str = 'R-PASSTHROUGH') -> int:
    """A function that receives all of ``names`` (as its own or its enclosing function's parameters) and calls a
    resolved callee that also takes all of them must pass each one on (positionally or by keyword): an omitted argument
    silently falls back to the callee's default and the value is lost."""
    n = 0
    want = set(names)
    for fn in funcs:
        scope = set(fn.param_names)
        outer_ref = fn.ref.rsplit('.', 1)[0]
        if ctx.prog.has_func(outer_ref):
            scope |= set(ctx.prog.func(outer_ref).param_names)
        if not want <= scope:
            continue
        for call in core.calls_in(fn.node, deep=False):
            callee = resolver.resolve(fn, call)
            if callee is None or not want <= set(callee.params):
                continue
            if any(isinstance(a, ast.Starred) for a in call.args) or any(k.arg is None for k in call.keywords):
                continue
            bound = resolver.bind(callee, call)
            n += 1
            missing = sorted(want - set(bound))
            ctx.check(not missing, rule, fn, f'call of {callee.ref} passes {sorted(want)} on' + (f' (omitted: {missing} - the callee default replaces the value)' if missing else ''), call, callee=callee.ref)
    return n


# --------------------------------------------------------------------------------------------------
# R-LATEBIND
# --------------------------------------------------------------------------------------------------
IMMEDIATE_CONSUMERS = {'sorted', 'min', 'max', 'map', 'filter', 'sum', 'any', 'all', 'reduce', 'groupby', 'next', 'sort'}


def r_staleloop(ctx, funcs, rule: str = 'R-STALELOOP') -> int:
    """A loop variable is not read after its loop has run to completion (no ``break``): there it holds the *last* element,
    and code that wires one thing per element (a second loop over the same items, a trainer per mapper, a branch per fold)
    silently uses the last one for all.  A read is fine once the name is bound again - by an assignment that comes before
    it on the way, or as the target of an enclosing later loop.  Returns #loops examined."""
    n = 0
    for fn in funcs:
        node = fn.node
        for loop in [x for x in core.walk_local(node) if isinstance(x, (ast.For, ast.AsyncFor))]:
            if any(isinstance(x, ast.Break) for x in ast.walk(loop)):
                continue
            names = core.names_in(loop.target)
            # ... and so do the per-iteration locals of the body (bound nowhere but inside this loop)
            inside_stores = {x.id for b in loop.body for x in ast.walk(b) if isinstance(x, ast.Name) and isinstance(x.ctx, ast.Store)}
            loop_nodes = {id(x) for x in ast.walk(loop)}
            outside_stores = {x.id for x in core.walk_local(node) if isinstance(x, ast.Name) and isinstance(x.ctx, ast.Store) and id(x) not in loop_nodes} | {a.arg for a in fn.params}
            names |= inside_stores - outside_stores
            names = {x for x in names if not x.startswith('_')}
            if not names:
                continue
            n += 1
            inside = {id(x) for x in ast.walk(loop)}
            # statements that may run after the loop: later siblings on every enclosing level (not the enclosing loops themselves:
            # a read in the next iteration before the inner loop ran again is a stale read as well, but it is also a read
            # before the loop on the first iteration - python would raise, so it does not occur in working code)
            later: list = []
            cur = loop
            while cur is not node:
                par = core.parent(cur)
                if par is None:
                    break
                for field in ('body', 'orelse', 'finalbody'):
                    seq = getattr(par, field, None)
                    if isinstance(seq, list) and any(x is cur for x in seq):
                        k = next(i for i, x in enumerate(seq) if x is cur)
                        later.append(seq[k + 1:])
                if isinstance(par, core.FUNC):
                    break
                cur = par
            for name in sorted(names):
                stale = None
                for seq in later:
                    killed = False
                    for st in seq:
                        if killed:
                            break

                        def reads(x: ast.AST, bound: bool) -> typing.Optional[ast.AST]:
                            """First stale read of ``name`` below x (None if none); ``bound`` - re-bound on the way."""
                            if bound:
                                return None
                            if isinstance(x, (ast.For, ast.AsyncFor)):
                                r = reads(x.iter, False)
                                if r is not None:
                                    return r
                                rebinds = any(isinstance(t, ast.Name) and t.id == name for t in ast.walk(x.target))
                                for b in x.body:
                                    r = reads(b, rebinds)
                                    if r is not None:
                                        return r
                                    if isinstance(b, ast.Assign) and any(isinstance(t, ast.Name) and t.id == name for tt in b.targets for t in ast.walk(tt)):
                                        rebinds = True
                                for b in x.orelse:
                                    r = reads(b, False)
                                    if r is not None:
                                        return r
                                return None
                            if isinstance(x, (ast.ListComp, ast.SetComp, ast.GeneratorExp, ast.DictComp)):
                                if any(isinstance(t, ast.Name) and t.id == name for g in x.generators for t in ast.walk(g.target)):
                                    return reads(x.generators[0].iter, False)
                            if isinstance(x, core.FUNC + (ast.Lambda,)):
                                args = x.args
                                if any(a.arg == name for a in list(args.args) + list(args.kwonlyargs) + list(args.posonlyargs)):
                                    return None
                            if isinstance(x, ast.Assign):
                                return reads(x.value, False)
                            if isinstance(x, ast.Name):
                                return x if (x.id == name and isinstance(x.ctx, ast.Load)) else None
                            seq_bound = False
                            for c in ast.iter_child_nodes(x):
                                r = reads(c, seq_bound)
                                if r is not None:
                                    return r
                                if isinstance(c, ast.Assign) and any(isinstance(t, ast.Name) and t.id == name for tt in c.targets for t in ast.walk(tt)):
                                    seq_bound = True
                            return None

                        hit = reads(st, False)
                        if hit is not None:
                            stale = hit
                            break
                        if isinstance(st, ast.Assign) and any(isinstance(t, ast.Name) and t.id == name for tt in st.targets for t in ast.walk(tt)):
                            killed = True
                    if stale is not None:
                        break
                ctx.check(stale is None, rule, fn, f'`{name}` is read after the loop at line {loop.lineno} ran to completion: it still holds the last element there, so whatever is built from it afterwards is built from the last item only', stale if stale is not None else loop, key=f'stale:{name}')
    return n


def r_lifo(ctx, funcs, rule: str = 'R-LIFO') -> int:
    """Graph walks keep the order of siblings: a local work list that is filled in iteration order (``extend(xs)`` /
    ``append(x)`` in a loop) and emptied with a bare ``pop()`` hands the siblings out last-first - positions derived from the
    walk (persistent state order, port wiring of a copy) are then reversed against a recursive walk of the same graph.
    Accepted: ``pop(0)`` / ``popleft()``, or filling with ``reversed(..)``.  Returns #work lists examined."""
    n = 0
    for fn in funcs:
        lists = {}
        for st in core.walk_local(fn.node):
            if isinstance(st, ast.Assign) and len(st.targets) == 1 and isinstance(st.targets[0], ast.Name) and (isinstance(st.value, ast.List) or (isinstance(st.value, ast.Call) and core.call_name(st.value) in ('list', 'collections.deque', 'deque'))):
                lists[st.targets[0].id] = st
        for name in lists:
            calls = [c for c in core.walk_local(fn.node) if isinstance(c, ast.Call) and isinstance(c.func, ast.Attribute) and isinstance(c.func.value, ast.Name) and c.func.value.id == name]
            pops = [c for c in calls if c.func.attr == 'pop' and not c.args]
            fills = [c for c in calls if c.func.attr in ('extend', 'append') and c.args and not (isinstance(c.args[0], ast.Call) and core.call_name(c.args[0]) == 'reversed')]
            if not pops or not any(c.func.attr == 'extend' for c in fills):
                continue
            n += 1
            ctx.check(False, rule, fn, f'work list `{name}` is extended in sibling order and consumed with a bare pop(): siblings are visited last-first', pops[0], key=f'lifo:{name}')
    return n


def r_itercarried(ctx, funcs, rule: str = 'R-ITERCARRIED') -> int:
    """What a generator loop yields for one element is computed from that element: a name read by a ``yield`` inside a loop is
    either bound outside the loop only (a constant of the run), or (re)bound in the current iteration on every path to the
    yield - the loop target, or an unconditional statement of the loop body before it.  A name that is set before the loop
    and *conditionally* overwritten inside carries one element's value over to the next ones.  Returns #yields examined."""
    n = 0
    for fn in funcs:
        node = fn.node
        for loop in [x for x in core.walk_local(node) if isinstance(x, (ast.For, ast.AsyncFor))]:
            yields = [y for b in loop.body for y in core.walk_local(b) if isinstance(y, (ast.Yield, ast.YieldFrom)) and y.value is not None]
            if not yields:
                continue
            targets = core.names_in(loop.target)
            loop_nodes = {id(x) for x in ast.walk(loop)}
            outside = {x.id for x in core.walk_local(node) if isinstance(x, ast.Name) and isinstance(x.ctx, ast.Store) and id(x) not in loop_nodes}
            inside = {}
            for b in loop.body:
                for x in ast.walk(b):
                    if isinstance(x, ast.Name) and isinstance(x.ctx, ast.Store):
                        inside.setdefault(x.id, []).append(x)
            for y in yields:
                n += 1
                ystmt = core.enclosing_stmt(y)
                top = ystmt
                while core.parent(top) is not loop:
                    top = core.parent(top)
                before = loop.body[:next(i for i, b in enumerate(loop.body) if b is top)]
                sure = set(targets)
                for b in before:
                    if isinstance(b, (ast.Assign, ast.AnnAssign)):
                        for t in (b.targets if isinstance(b, ast.Assign) else [b.target]):
                            sure |= {x.id for x in ast.walk(t) if isinstance(x, ast.Name) and isinstance(x.ctx, ast.Store)}
                # a store on the path inside the same branch as the yield, before it
                cur = ystmt
                while cur is not top:
                    par = core.parent(cur)
                    for field in ('body', 'orelse'):
                        seq = getattr(par, field, None)
                        if isinstance(seq, list) and any(x is cur for x in seq):
                            for b in seq[:next(i for i, x in enumerate(seq) if x is cur)]:
                                if isinstance(b, (ast.Assign, ast.AnnAssign)):
                                    for t in (b.targets if isinstance(b, ast.Assign) else [b.target]):
                                        sure |= {x.id for x in ast.walk(t) if isinstance(x, ast.Name) and isinstance(x.ctx, ast.Store)}
                    cur = par
                carried = sorted(x for x in core.names_in(y.value) if x in outside and x in inside and x not in sure)
                ctx.check(not carried, rule, fn, f'the value yielded for one element reads {carried}, set before the loop and only conditionally overwritten inside it: it carries over from an earlier element', y, key=f'carried:{",".join(carried) or core.stmt_key(ystmt)[:40]}')
    return n


def r_latebind(ctx, funcs, rule: str = 'R-LATEBIND') -> int:
    """A lambda / nested function created inside a loop or comprehension must not read the iteration variable as a free
    variable when it outlives the iteration (stored, passed to a constructor, returned): python closures bind late, so
    every such callable sees the *last* value.  Accepted: binding through a default argument, or immediate consumption
    (sorted/min/max key, map/filter)."""
    n = 0
    for fn in funcs:
        for node in core.walk_deep(fn.node):
            if not isinstance(node, (ast.Lambda,) + core.FUNC):
                continue
            loopvars: set[str] = set()
            for a in core.ancestors(node):
                if a is fn.node:
                    break
                if isinstance(a, (ast.For, ast.AsyncFor)):
                    loopvars |= core.names_in(a.target)
                elif isinstance(a, (ast.ListComp, ast.SetComp, ast.GeneratorExp, ast.DictComp)):
                    for g in a.generators:
                        loopvars |= core.names_in(g.target)
            if not loopvars:
                continue
            args = node.args
            bound = {x.arg for x in list(args.posonlyargs) + list(args.args) + list(args.kwonlyargs)}
            if args.vararg:
                bound.add(args.vararg.arg)
            if args.kwarg:
                bound.add(args.kwarg.arg)
            body = node.body if isinstance(node.body, list) else [node.body]
            free = {x.id for b in body for x in ast.walk(b) if isinstance(x, ast.Name) and isinstance(x.ctx, ast.Load)} - bound
            captured = sorted(free & loopvars)
            if not captured:
                continue
            par = core.parent(node)
            immediate = False
            if isinstance(par, ast.keyword) and par.arg == 'key':
                immediate = True
            if isinstance(par, ast.Call) and core.call_tail(par) in IMMEDIATE_CONSUMERS:
                immediate = True
            if isinstance(par, ast.keyword) and isinstance(core.parent(par), ast.Call) and core.call_tail(core.parent(par)) in IMMEDIATE_CONSUMERS:
                immediate = True
            n += 1
            ctx.check(immediate, rule, fn, f'callable created per iteration captures the loop variable(s) {captured} late: every instance sees the last value (bind with a default argument)', node, key=f'latebind:{",".join(captured)}:{core.stmt_key(core.enclosing_stmt(node))}')
    return n


# --------------------------------------------------------------------------------------------------
# R-ARGNAME (general form of R-ARGORDER)
# --------------------------------------------------------------------------------------------------
def r_argname(ctx, resolver, funcs, rule: str = 'R-ARGNAME', only_params: typing.Optional[set[str]] = None) -> int:
    """At a call with a statically resolved callee, a positional argument whose (trailing) identifier is the name of a
    parameter of that callee must be bound to the parameter of that name - otherwise two same-typed values are crossed
    (project/release, left/right, train/label, lower/upper ...)."""
    n = 0
    for fn in funcs:
        for call in core.calls_in(fn.node, deep=False):
            if len(call.args) < 2 and not call.keywords:
                continue
            if any(isinstance(a, ast.Starred) for a in call.args):
                continue
            callee = resolver.resolve(fn, call)
            if callee is None or len(callee.params) < 2:
                continue
            params = set(callee.params)
            bound = resolver.bind(callee, call)
            for pname, arg in bound.items():
                ident = _tail_ident(arg)
                if ident is None or ident not in params or ident == pname:
                    continue
                if only_params is not None and not ({ident, pname} & only_params):
                    continue
                # the identifier names another parameter of the callee: crossed unless that parameter gets it as well
                other = bound.get(ident)
                if other is not None and _tail_ident(other) == ident:
                    continue
                n += 1
                ctx.fail(rule, fn, f'argument `{core.src(arg)}` is bound to parameter `{pname}` of {callee.ref} although that callee has a parameter `{ident}` (crossed same-typed values)', call, callee=callee.ref)
            if bound:
                n += 1
                ctx.ok(rule, fn, f'arguments of {callee.ref} bound to the parameters of their own names', call)
    return n


FORWARD_OK = {  # (caller, callee, parameter) -> reason the caller deliberately does not forward its own value
    ('forml.provider.registry.filesystem.posix:Registry.close', 'forml.provider.registry.filesystem.posix:Path.state', 'generation'):
        'the source of the rename is the *staged* state path, which has no generation yet',
    ('forml.runtime._service.prediction:Executor.__init__', 'forml.runtime._service.prediction:Pool.__init__', 'name'):
        'the thread name of the executor is not the process name of its pool',
}


def r_forward(ctx, resolver, funcs, rule: str = 'R-FORWARD') -> int:
    """Delegation keeps the caller's values: a function that hands at least one of its own parameters on to a resolved callee
    under the same name, and has another parameter the callee also takes under that name, passes that one on too - an omitted
    argument silently falls back to the callee's default (the caller's explicit value is lost)."""
    n = 0
    for fn in funcs:
        mine = set(fn.param_names) - {'self', 'cls', 'mcs'}
        if len(mine) < 2:
            continue
        for call in core.calls_in(fn.node, deep=False):
            if any(isinstance(a, ast.Starred) for a in call.args) or any(k.arg is None for k in call.keywords):
                continue
            callee = resolver.resolve(fn, call)
            if callee is None:
                continue
            common = mine & set(callee.params)
            if len(common) < 2:
                continue
            bound = resolver.bind(callee, call)
            fwd = {q for q, a in bound.items() if q in common and isinstance(a, ast.Name) and a.id == q}
            if not fwd:
                continue
            n += 1
            missing = sorted(q for q in common - set(bound) if (fn.ref, callee.ref, q) not in FORWARD_OK)
            ctx.check(not missing, rule, fn, f'delegation to {callee.ref} forwards {sorted(fwd)}' + (f' but not {missing}, which the callee also takes: its default replaces the caller\'s value' if missing else ' and every other shared parameter'), call, callee=callee.ref)
    return n


def argname_scope(ctx, prefixes: tuple[str, ...], floor: int = 3) -> None:
    """Run R-ARGNAME and R-FORWARD over every function of the modules with the given prefixes (the modules a property
    anchors)."""
    from .. import calls as callsmod

    resolver = callsmod.Resolver(ctx.prog)
    mods = [m for m in ctx.prog.modules if m.startswith(prefixes)]
    n = r_argname(ctx, resolver, ctx.prog.functions(mods))
    ctx.floor('R-ARGNAME', n, floor)
    r_forward(ctx, resolver, ctx.prog.functions(mods))


# --------------------------------------------------------------------------------------------------
# R-RAWCMP
# --------------------------------------------------------------------------------------------------
def r_rawcmp(ctx, tenv, funcs, rule: str = 'R-RAWCMP') -> int:
    """Ordinal bounds (Optional[dsl.Native]) are opaque until cast to the ordinal column's kind: ordering them against each
    other or anything else (<, <=, >, >=, min/max/sorted) in their raw representation interprets them in the wrong kind
    ('8' > '12' as strings)."""
    n = 0
    for fn in funcs:
        env = tenv.locals(fn)
        for node in core.walk_local(fn.node):
            if isinstance(node, ast.Compare) and any(isinstance(o, (ast.Lt, ast.LtE, ast.Gt, ast.GtE)) for o in node.ops):
                for side in [node.left] + list(node.comparators):
                    if is_native(tenv.expr_type(fn, side, env)):
                        n += 1
                        ctx.fail(rule, fn, f'raw ordinal bound `{core.src(side)}` is ordered in `{core.src(node)}` before being cast to the ordinal kind', node)
                        break
            elif isinstance(node, ast.Call) and core.call_name(node) in ('min', 'max', 'sorted'):
                if any(is_native(tenv.expr_type(fn, a, env)) for a in node.args):
                    n += 1
                    ctx.fail(rule, fn, f'raw ordinal bounds ordered by `{core.src(node)}`', node)
    return n


MUTATORS = {'add', 'discard', 'update', 'remove', 'pop', 'popitem', 'clear', 'setdefault', 'append', 'extend', 'insert', 'sort', 'reverse', 'appendleft', 'popleft', 'extendleft', '__setitem__', '__delitem__'}


def container_writes(fn_node: ast.AST, attrs: set[str]) -> list[tuple[ast.AST, str]]:
    """Sites of ``fn_node`` (own body only) that may mutate a container stored in an attribute named in ``attrs``:
    attribute (re)binding, subscript/slice store or delete, augmented assignment, a mutating method call - directly on the
    attribute, on an element of it (``self.x[k].append``), or through a local alias bound from an expression that reads
    the attribute (``args = self.x[k]``, ``for a in self.x.values()``).  Returns (site, attribute)."""

    def reads(expr: ast.AST) -> typing.Optional[str]:
        for n in ast.walk(expr):
            if isinstance(n, ast.Attribute) and n.attr in attrs:
                return n.attr
        return None

    alias: dict[str, str] = {}
    changed = True
    while changed:
        changed = False
        for n in core.walk_local(fn_node):
            src_, tgts = None, []
            if isinstance(n, ast.Assign):
                src_, tgts = n.value, n.targets
            elif isinstance(n, ast.AnnAssign) and n.value is not None:
                src_, tgts = n.value, [n.target]
            elif isinstance(n, (ast.For, ast.comprehension)):
                src_, tgts = n.iter, [n.target]
            elif isinstance(n, ast.NamedExpr):
                src_, tgts = n.value, [n.target]
            elif isinstance(n, ast.withitem) and n.optional_vars is not None:
                src_, tgts = n.context_expr, [n.optional_vars]
            if src_ is None:
                continue
            a = reads(src_)
            if a is None:
                a = next((alias[x.id] for x in ast.walk(src_) if isinstance(x, ast.Name) and x.id in alias), None)
            if a is None:
                continue
            # only container-valued bindings matter: a scalar copied out of the container is not an alias, but telling
            # them apart needs types - stay conservative (a false alias only matters if it is *mutated* below)
            for t in tgts:
                for x in ast.walk(t):
                    if isinstance(x, ast.Name) and x.id not in alias:
                        alias[x.id] = a
                        changed = True

    def base_of(node: ast.AST) -> typing.Optional[str]:
        while isinstance(node, (ast.Subscript, ast.Call, ast.Starred)):
            node = node.value if isinstance(node, (ast.Subscript, ast.Starred)) else node.func
            if isinstance(node, ast.Attribute) and node.attr in ('get', 'values', 'items', 'setdefault', '__getitem__'):
                node = node.value
        if isinstance(node, ast.Attribute) and node.attr in attrs:
            return node.attr
        if isinstance(node, ast.Name) and node.id in alias:
            return alias[node.id]
        return None

    out: list[tuple[ast.AST, str]] = []
    for n in core.walk_local(fn_node):
        if isinstance(n, (ast.Assign, ast.AugAssign, ast.Delete, ast.AnnAssign)):
            tgts = n.targets if isinstance(n, (ast.Assign, ast.Delete)) else [n.target]
            for t in tgts:
                if isinstance(t, ast.Subscript):
                    a = base_of(t.value)
                elif isinstance(t, ast.Attribute) and t.attr in attrs:
                    a = t.attr
                elif isinstance(n, ast.AugAssign) and isinstance(t, ast.Name) and t.id in alias:
                    a = alias[t.id]
                else:
                    a = None
                if a:
                    out.append((n, a))
        elif isinstance(n, ast.Call) and isinstance(n.func, ast.Attribute) and n.func.attr in MUTATORS:
            a = base_of(n.func.value)
            if a:
                out.append((n, a))
    return out


def r_writers(ctx, funcs, table: dict[str, set[str]], rule: str = 'R-OWNER', what: str = '') -> int:
    """Who-may-write census: every site that may mutate one of the containers in ``table`` (attribute -> set of allowed
    function refs) lies in an allowed function.  Returns the number of write sites seen."""
    n = 0
    attrs = set(table)
    for fn in funcs:
        for site, a in container_writes(fn.node, attrs):
            n += 1
            ctx.check(fn.ref in table[a], rule, fn, f'{what}`{a}` is written only by {sorted(r.split(":")[1] for r in table[a])}', site)
    return n


def stmt_under(ctx, rule: str, fn: core.FuncInfo, text: str, want: list[tuple[str, bool]], msg: str, key: str, inlined: bool = True, siblings: bool = True) -> bool:
    """Exactly one simple statement of ``fn`` (temporaries inlined) reads ``text`` and it stands under exactly the canonical
    guards ``want`` (order-insensitive list of (condition text, polarity); with ``siblings`` an earlier
    sibling ``if c: ...return/raise`` counts as the guard (c, False))."""
    f = fn.inlined() if inlined else fn
    hits = [n for n in core.walk_local(f.node) if isinstance(n, (ast.Assign, ast.AnnAssign, ast.AugAssign, ast.Expr, ast.Return, ast.Raise, ast.Delete, ast.Assert)) and core.src(n) == text]
    got = [sorted(cfg.cguards(n, f.node, siblings=siblings)) for n in hits]
    ok = len(hits) == 1 and got[0] == cfg.cg(*want)
    ctx.check(ok, rule, fn, f'{msg} (`{text}` under {sorted(want)}; found {len(hits)} time(s) under {got})', hits[0] if hits else fn.node, key=key)
    return ok


MUTABLE_CTORS = {'dict', 'list', 'set', 'collections.defaultdict', 'collections.OrderedDict', 'collections.deque', 'collections.Counter', 'weakref.WeakValueDictionary', 'weakref.WeakKeyDictionary'}


def r_perinstance(ctx, classes: typing.Iterable[core.ClassInfo], rule: str = 'R-PERINSTANCE', shared_ok: typing.Optional[dict[str, str]] = None) -> int:
    """State that methods mutate *through self* is per instance: a container bound once in the class body (``x = {}``) is one
    object shared by all instances - correlation tables, pending-request maps and counters kept there cross the instances.
    ``shared_ok`` lists ``Class.attr`` -> reason for deliberately process-wide registries.  Returns #attributes examined."""
    shared_ok = shared_ok or {}
    n = 0
    for ci in classes:
        mutable_cls = {}
        for name, val in ci.assigns.items():
            if isinstance(val, (ast.Dict, ast.List, ast.Set, ast.DictComp, ast.ListComp, ast.SetComp)) or (isinstance(val, ast.Call) and (core.call_name(val) or '') in MUTABLE_CTORS):
                mutable_cls[name] = val
        written: dict[str, ast.AST] = {}
        init_bound: set[str] = set()
        for mname, mnode in ci.methods.items():
            first = mnode.args.args[0].arg if mnode.args.args else None
            if first is None or any((core.dotted(d) or '').split('.')[-1] in ('classmethod', 'staticmethod') for d in mnode.decorator_list):
                continue
            for x in core.walk_local(mnode):
                if isinstance(x, (ast.Assign, ast.AnnAssign)):
                    for t in (x.targets if isinstance(x, ast.Assign) else [x.target]):
                        if isinstance(t, ast.Attribute) and isinstance(t.value, ast.Name) and t.value.id == first and mname == '__init__':
                            init_bound.add(t.attr)
            for site, attr in container_writes(mnode, set(mutable_cls) | {a for a in ci.assigns}):
                # only writes through self count (Class.attr writes are explicit sharing)
                txt = core.src(site)
                if f'{first}.{attr}' in txt and not (isinstance(site, (ast.Assign, ast.AnnAssign)) and any(isinstance(t, ast.Attribute) and t.attr == attr for t in (site.targets if isinstance(site, ast.Assign) else [site.target]))):
                    written.setdefault(attr, site)
        for attr, val in mutable_cls.items():
            n += 1
            key = f'{ci.qual}.{attr}'
            if attr in written and attr not in init_bound:
                if key in shared_ok:
                    ctx.ok(rule, ci.ref, f'{key} is deliberately shared by all instances: {shared_ok[key]}')
                else:
                    ctx.fail(rule, ci.ref, f'{key} is a mutable container bound once in the class body and mutated through self (`{core.src(written[attr])[:60]}`): every instance shares the one object', written[attr], key=f'{key}:shared')
            else:
                ctx.ok(rule, ci.ref, f'{key}: class-level container not mutated through self (or re-bound per instance in __init__)')
    return n


class _MiniClass:
    """ClassInfo look-alike over a bare ``ast.ClassDef`` (for the embedded positive examples of zero-expected rules)."""

    def __init__(self, node: ast.ClassDef):
        self.node, self.qual, self.ref = node, node.name, f'<example>:{node.name}'
        self.methods = {n.name: n for n in node.body if isinstance(n, (ast.FunctionDef, ast.AsyncFunctionDef))}
        self.assigns = {}
        for n in node.body:
            if isinstance(n, ast.Assign) and isinstance(n.targets[0], ast.Name):
                self.assigns[n.targets[0].id] = n.value
            elif isinstance(n, ast.AnnAssign) and isinstance(n.target, ast.Name) and n.value is not None:
                self.assigns[n.target.id] = n.value


PERINSTANCE_EXAMPLE = '''
class E:
    _pending: dict = {}
    _index: int = 0
    NAMES = {}
    def __init__(self):
        self._own = {}
    def apply(self, x):
        self._index += 1
        self._pending[self._index] = x
        self._own[x] = 1
class F:
    _pending = {}
    def __init__(self):
        self._pending = {}
    def apply(self, x):
        self._pending[x] = 1
'''


def perinstance_selfcheck() -> None:
    class Probe:
        def __init__(self):
            self.fails = []

        def ok(self, *a, **k):
            pass

        def fail(self, rule, where, msg, *a, **k):
            self.fails.append(k.get('key'))

    tree = ast.parse(PERINSTANCE_EXAMPLE)
    core.set_parents(tree) if hasattr(core, 'set_parents') else None
    pr = Probe()
    r_perinstance(pr, [_MiniClass(n) for n in tree.body if isinstance(n, ast.ClassDef)])
    if pr.fails != ['E._pending:shared']:
        raise core.AnalysisError(f'R-PERINSTANCE matcher self-check failed on the embedded example: {pr.fails}')


def r_probe(ctx, funcs, rule: str = 'R-PROBE') -> int:
    """Import-probe idiom: inside ``except ModuleNotFoundError as err`` the error is swallowed ("not found") only when the
    *missing module is the probed name or one of its parents* - ``<probed>.startswith(err.name)``.  The reversed test
    (``err.name.startswith(<probed>)``) lets the error escape when a parent package is missing (unknown reference -> raw
    ModuleNotFoundError instead of the missing-provider / missing-component outcome) and swallows failures of imports made
    *inside* the probed package.  Returns the number of probe tests seen."""
    n = 0
    for fn in funcs:
        for h in [x for x in core.walk_local(fn.node) if isinstance(x, ast.ExceptHandler) and x.type is not None and 'ModuleNotFoundError' in core.src(x.type) and x.name]:
            for c in [c for st in h.body for c in core.calls_in(st)]:
                if isinstance(c.func, ast.Attribute) and c.func.attr == 'startswith' and len(c.args) == 1:
                    recv, arg = core.src(c.func.value), core.src(c.args[0])
                    if f'{h.name}.name' in (recv, arg):
                        n += 1
                        ctx.check(arg == f'{h.name}.name', rule, fn, f'the probe swallows the error when the missing module is a prefix of the probed name (`{core.src(c)}`)', c)
    return n


OPERAND_OK = {
    'forml.io.dsl._struct.series:Ordering.Direction.__call__': 'the receiver is the *direction*, the second field of Ordering(feature, direction)',
}


def r_operand(ctx, funcs, rule: str = 'R-OPERAND') -> int:
    """DSL node construction keeps the operand order of the API: a method ``m(self, other, ...)`` that builds a node from both
    operands passes the receiver first (``a.difference(b)`` is Set(a, b), ``a - b`` is Subtraction(a, b)); the reflected
    operators ``__rX__`` pass the other operand first (``1 - a`` is Subtraction(1, a)).  Returns the number of sites."""
    import re

    n = 0
    for fn in funcs:
        ps = fn.param_names
        if len(ps) < 2 or ps[0] != 'self':
            continue
        o = ps[1]
        reflected = bool(re.match(r'__r[a-z]+__$', fn.name)) and fn.name not in ('__repr__', '__reduce__', '__rshift__', '__reversed__', '__round__')
        for c in core.calls_in(fn.node, deep=False):
            a = [core.src(x) for x in c.args]
            if 'self' in a and o in a:
                n += 1
                if fn.ref in OPERAND_OK:
                    ctx.ok(rule, fn, f'`{core.src(c)[:60]}`: {OPERAND_OK[fn.ref]}', c)
                    continue
                self_first = a.index('self') < a.index(o)
                ctx.check(self_first != reflected, rule, fn, f'`{core.src(c)[:70]}` passes the {"other operand first (reflected operator)" if reflected else "receiver first"}', c)
    return n


def r_fieldpos(ctx, classes, rule: str = 'R-FIELDPOS') -> int:
    """Tuple-backed DSL nodes: the value stored at position i is the constructor parameter named like the field that reads
    position i (``left = property(itemgetter(0))`` <-> first element derives from ``left``).  A position fed from *another*
    field-named parameter crosses two same-typed members (left/right, prefilter/postfilter).  Returns #positions checked."""
    n = 0
    for ci in classes:
        fields = {}
        for name, val in ci.assigns.items():
            if isinstance(val, ast.Call) and core.call_name(val) == 'property' and val.args and isinstance(val.args[0], ast.Call) and (core.call_name(val.args[0]) or '').endswith('itemgetter') and val.args[0].args and isinstance(val.args[0].args[0], ast.Constant):
                fields[val.args[0].args[0].value] = name
        new = ci.methods.get('__new__')
        if not fields or new is None:
            continue
        params = {a.arg for a in new.args.args[1:] + new.args.kwonlyargs}
        named = params & set(fields.values())
        sup = [c for c in core.calls_in(new) if isinstance(c.func, ast.Attribute) and c.func.attr == '__new__' and isinstance(c.func.value, ast.Call) and core.call_name(c.func.value) == 'super']
        for c in sup:
            if any(isinstance(a, ast.Starred) for a in c.args):
                continue
            for i, a in enumerate(c.args[1:]):
                f = fields.get(i)
                if f is None or f not in params:
                    continue
                n += 1
                names = {x.id for x in ast.walk(a) if isinstance(x, ast.Name)}
                crossed = sorted((names & named) - {f})
                ctx.check(f in names and not (crossed and f not in names), rule, ci.ref, f'{ci.qual}: position {i} (field `{f}`) stores `{core.src(a)[:50]}`' + (f' - derived from `{crossed}` instead' if f not in names else ''), a, key=f'{ci.qual}:{i}:{f}')
    return n


PARAMFLOW_OK = {
    'forml.io.dsl._struct.frame:Table.__new__': 'schema = Schema(schema, bases, namespace): the metaclass form builds the schema class from the three class-statement arguments',
}


def r_paramflow(ctx, funcs, rule: str = 'R-PARAMFLOW') -> int:
    """A constructor keeps its parameters apart: a parameter is re-bound only from itself (normalisation such as
    ``direction = Direction(direction)``), never from another parameter - unpacking one argument over a second one makes the
    value the caller passed for the second one disappear.  ``PARAMFLOW_OK``: reviewed exceptions.  Returns #assignments."""
    n = 0
    for fn in funcs:
        if fn.name not in ('__new__', '__init__') or len(fn.params) < 3:
            continue
        params = {a.arg for a in fn.params[1:]}
        for st in core.walk_local(fn.node):
            if not isinstance(st, ast.Assign):
                continue
            hit = {x.id for t in st.targets for x in ast.walk(t) if isinstance(x, ast.Name) and isinstance(x.ctx, ast.Store)} & params
            if not hit:
                continue
            n += 1
            rhs = core.names_in(st.value) & params
            for p in sorted(hit):
                if fn.ref in PARAMFLOW_OK:
                    ctx.ok(rule, fn, f'{p}: {PARAMFLOW_OK[fn.ref]}', st)
                    continue
                ctx.check(not (rhs - {p}), rule, fn, f'parameter `{p}` is overwritten from {sorted(rhs - {p})} (`{core.src(st)[:70]}`): what the caller passed as `{p}` is dropped on that path', st, key=f'paramflow:{p}')
    return n


def r_repreq(ctx, funcs, rule: str = 'R-REPREQ') -> int:
    """No equality decision through printed forms: ``repr(a) == repr(b)`` / ``str(a) != str(b)``.  DSL reprs are not injective
    (infix/prefix operators print without parentheses, literals print their bare value), so different predicates print the
    same.  Ordering by repr (sorting keys, ``<``) is not an equality decision and stays allowed.  Returns #functions scanned."""
    n = 0
    for fn in funcs:
        n += 1
        for c in core.walk_local(fn.node):
            if isinstance(c, ast.Compare) and len(c.ops) == 1 and isinstance(c.ops[0], (ast.Eq, ast.NotEq, ast.Is, ast.IsNot)):
                sides = [c.left, c.comparators[0]]
                if all(isinstance(x, ast.Call) and isinstance(x.func, ast.Name) and x.func.id in ('repr', 'str') and len(x.args) == 1 for x in sides):
                    ctx.fail(rule, fn, f'equality decided by comparing printed forms: `{core.src(c)}` (the DSL repr is not injective)', c)
    return n


def r_nebool(ctx, tenv, funcs, rule: str = 'R-NEBOOL') -> int:
    """``a != b`` between DSL operables *builds a NotEqual expression* (a non-empty tuple: always truthy) - only ``==`` goes
    through the boolean identity proxy.  Used as a condition (if/while/and/or/not/ifexp/comprehension filter) it is a
    constant True.  Returns the number of boolean contexts inspected."""
    prog = ctx.prog
    operable = prog.cls(f'{SERIES}:Operable')
    predicate = prog.cls(f'{SERIES}:Predicate')
    n = 0
    for fn in funcs:
        env = None
        for expr, kind, owner in types.bool_contexts(fn.node):
            n += 1
            for c in ast.walk(expr):
                if isinstance(c, ast.Compare) and len(c.ops) == 1 and isinstance(c.ops[0], ast.NotEq):
                    if env is None:
                        env = tenv.locals(fn)
                    for side in (c.left, c.comparators[0]):
                        try:
                            t = tenv.expr_type(fn, side, env)
                        except Exception:
                            t = None
                        t = types.strip_opt(t) if t else None
                        ci = prog.classes.get(t[1]) if t and t[0] == 'cls' else None
                        if ci is not None and (ci is operable or ci is predicate or ci.is_subclass_of(operable) or ci.is_subclass_of(predicate)):
                            ctx.fail(rule, fn, f'`{core.src(c)}` in a boolean context: `!=` on a DSL operable builds a NotEqual expression, which is always truthy (use `not a == b`)', c)
                            break
    return n


def r_rebuild(ctx, classes, rule: str = 'R-REBUILD') -> int:
    """Copy-with-one-change: a method that re-creates its own (immutable) object through the constructor, handing at least
    two ``self.<field>`` values to the parameters of the same name, hands over *every* parameter - an omitted trailing one
    silently falls back to the constructor default (``orderby`` dropping the ``rows`` limit of the query it refines).
    Returns #re-creating calls checked."""
    n = 0
    for ci in classes:
        new = ci.methods.get('__new__') or ci.methods.get('__init__')
        if new is None or new.args.vararg is not None or new.args.kwarg is not None:
            continue
        params = [a.arg for a in new.args.args[1:]] + [a.arg for a in new.args.kwonlyargs]
        if len(params) < 3:
            continue
        for mname, m in ci.methods.items():
            if mname in ('__new__', '__init__', '__getnewargs__', '__reduce__'):
                continue
            for c in core.walk_local(m):
                if not isinstance(c, ast.Call) or any(isinstance(a, ast.Starred) for a in c.args) or any(k.arg is None for k in c.keywords):
                    continue
                callee = core.src(c.func)
                if callee not in (ci.node.name, 'self.__class__', 'cls', 'type(self)'):
                    continue
                bound = dict(zip(params, c.args))
                bound.update({k.arg: k.value for k in c.keywords})
                own = [p for p, a in bound.items() if core.src(a) == f'self.{p}']
                if len(own) < 2:
                    continue
                n += 1
                missing = [p for p in params if p not in bound]
                ctx.check(not missing, rule, f'{ci.ref}.{mname}', f'{ci.qual}.{mname} re-creates the object from its own fields {own} but leaves out {missing}: the constructor default replaces the current value', c, key=f'{ci.qual}.{mname}:rebuild')
    return n


def r_newargs(ctx, classes, rule: str = 'R-PICKLE') -> int:
    """``__getnewargs__`` hands ``__new__`` one value per parameter it has (up to the first defaulted one it may stop only if
    nothing after it is stored): a tuple shorter than the required parameters cannot even unpickle, and one that stops
    before a *defaulted* parameter silently re-creates the object with the default (the Accept list of a request becomes
    its content type).  Only classes defining both ``__new__`` and ``__getnewargs__`` with a plain tuple result.
    Returns the number of classes checked."""
    n = 0
    for ci in classes:
        gna, new = ci.methods.get('__getnewargs__'), ci.methods.get('__new__')
        if gna is None or new is None:
            continue
        ret = next((r for r in core.walk_local(gna) if isinstance(r, ast.Return)), None)
        if ret is None or not isinstance(ret.value, ast.Tuple) or any(isinstance(e, ast.Starred) for e in ret.value.elts):
            continue
        if new.args.vararg is not None or new.args.kwarg is not None:
            continue
        params = [a.arg for a in new.args.args[1:]]
        n += 1
        ctx.check(len(ret.value.elts) == len(params), rule, ci.ref, f'{ci.qual}.__getnewargs__ returns one value for each of the {len(params)} parameters of __new__ {params} (returns {len(ret.value.elts)}: `{core.src(ret.value)[:80]}`)', ret, key=f'{ci.qual}:newargs')
    return n


def r_reduce(ctx, classes, rule: str = 'R-PICKLE') -> int:
    """``__reduce__`` returning ``(cls, (args...))`` re-creates the object through its constructor: every constructor
    parameter the instance keeps (``self._p`` / ``self.p`` bound from parameter ``p`` in ``__init__``) is handed back, at the
    position of that parameter - a dropped one silently falls back to the constructor default after a pickle round trip
    (copy, deepcopy, process boundary).  Returns the number of reducers checked."""
    n = 0
    for ci in classes:
        red, init = ci.methods.get('__reduce__'), ci.methods.get('__init__')
        if red is None or init is None:
            continue
        ret = next((r for r in core.walk_local(red) if isinstance(r, ast.Return)), None)
        if ret is None or not isinstance(ret.value, ast.Tuple) or len(ret.value.elts) < 2 or not isinstance(ret.value.elts[1], ast.Tuple):
            continue
        args = ret.value.elts[1].elts
        params = [a.arg for a in init.args.args[1:]]
        if init.args.vararg is not None or not params:
            continue
        kept = {}
        for a in core.walk_local(init):
            if isinstance(a, (ast.Assign, ast.AnnAssign)) and a.value is not None:
                t = a.target if isinstance(a, ast.AnnAssign) else a.targets[0]
                if isinstance(t, ast.Attribute) and core.src(t.value) == 'self':
                    for p in params:
                        if p in core.names_in(a.value) and p not in kept:
                            kept[p] = t.attr
        n += 1
        want = [p for p in params if p in kept]
        got = [core.src(x) for x in args]
        ok = len(args) >= len(want) and all(f'self.{kept[p]}' in got[i] for i, p in enumerate(params) if p in kept and i < len(got)) and len(got) >= max((i + 1 for i, p in enumerate(params) if p in kept), default=0)
        ctx.check(ok, rule, ci.ref, f'{ci.qual}.__reduce__ hands every kept constructor parameter back in position (constructor {params}, kept as {kept}, reduced with {got})', ret, key=f'{ci.qual}:reduce')
    return n
