"""Shared rule implementations (DESIGN.md section 3)."""
from __future__ import annotations

import ast
import typing

from .. import core, types

NATIVE_ALIAS = 'forml.io.dsl._struct.kind:Native'
SERIES = 'forml.io.dsl._struct.series'
FRAME = 'forml.io.dsl._struct.frame'


# --------------------------------------------------------------------------------------------------
# R-TRUTHY
# --------------------------------------------------------------------------------------------------
_bool_family_cache: dict[int, set[str]] = {}


def bool_overloading_classes(prog: core.Program) -> set[str]:
    """Classes of the DSL feature family with a subclass (or ancestor) that defines ``__bool__`` in the repository:
    the truth value of such an instance depends on its content, so truthiness cannot stand for presence."""
    key = id(prog)
    if key not in _bool_family_cache:
        definers = [c for c in prog.classes.values() if '__bool__' in c.methods and c.module.name.startswith('forml.io.dsl')]
        fam: set[str] = set()
        for d in definers:
            for anc in d.mro_classes():
                fam.add(anc.ref)
        _bool_family_cache[key] = fam
    return _bool_family_cache[key]


def truth_unsafe(prog: core.Program, t) -> typing.Optional[str]:
    """Why truthiness of a value of declared type ``t`` is not an absence test; None when it is fine/unknown."""
    if t is None:
        return None
    if t[0] == 'opt':
        inner = t[1]
        if inner is None:
            return None
        if inner[0] == 'alias' and inner[1] == NATIVE_ALIAS:
            return 'Optional[dsl.Native]: present values such as 0, 0.0, "" or epoch are falsy'
        if inner[0] == 'cls' and inner[1] in bool_overloading_classes(prog):
            return f'Optional[{inner[1].split(":")[1]}]: a present Equal/Pythonic instance overloads __bool__ and may be falsy'
        if inner[0] == 'union':
            for x in inner[1]:
                why = truth_unsafe(prog, ('opt', x))
                if why:
                    return why
    return None


def r_truthy(ctx, tenv: types.TypeEnv, funcs: typing.Iterable[core.FuncInfo], rule: str = 'R-TRUTHY', accept=None) -> int:
    """A value whose declared type is Optional[dsl.Native] / Optional[<DSL feature with overloaded __bool__>] must not
    be truth-tested.  Returns the number of typed truth-test candidates inspected (for instance floors)."""
    inspected = 0
    for fn in funcs:
        env = tenv.locals(fn)
        relevant = False
        for expr, kind, owner in types.bool_contexts(fn.node):
            if isinstance(expr, (ast.Compare, ast.Call, ast.Constant)):
                continue
            t = tenv.expr_type(fn, expr, env)
            why = truth_unsafe(ctx.prog, t)
            if why is None:
                continue
            relevant = True
            inspected += 1
            ctx.fail(
                rule,
                fn,
                f'truthiness of `{core.src(expr)}` used as absence test ({why}); use `is None` / `is not None`',
                expr,
                expr=core.src(expr),
                context=kind,
            )
        # typed None-tests are the discharged counterpart: count them as obligations
        for node in core.walk_local(fn.node):
            if isinstance(node, ast.Compare) and len(node.ops) == 1 and isinstance(node.ops[0], (ast.Is, ast.IsNot)):
                if core.is_const(node.comparators[0], None):
                    t = tenv.expr_type(fn, node.left, env)
                    if truth_unsafe(ctx.prog, t):
                        inspected += 1
                        relevant = True
                        ctx.ok(rule, fn, f'absence of `{core.src(node.left)}` tested with `{core.src(node)}`', node)
        if relevant:
            ctx.touch(fn)
    return inspected
