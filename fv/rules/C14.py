"""C14 - push-down hints offered to storage back-ends never lose required data (DESIGN.md section 4/C14)."""
from __future__ import annotations

import ast
import typing

from .. import calls, casesplit, cfg, core, types
from . import shared

EXPLANATION = (
    'Static decision of the structural clauses of C14: (1) column-registration completeness - every feature-bearing member '
    'of dsl.Query (read from its annotated properties) and the join condition flows into Tables.select/filter on every path '
    'where it is not None, before the descent that reaches visit_table (the only reader of the hints); the lazy column '
    'extractor covers the same member set (R-SIBLING); (2) R-ELEMENT - origin sets are computed over Element, not Column; '
    '(3) factor soundness by complete case split / key-set algebra: Factors.merge never yields a container and keeps '
    'one-sided factors as they are; And may conjoin; Or may keep only factors present on both sides; Not and Comparison may '
    'offer only themselves under the single-origin test; several factors of a table are OR-combined; (4) a join condition '
    'becomes a row filter only under an INNER-kind guard, and where-factors only under a guard that reads the join kinds; '
    '(5) R-TRUTHY on Optional[Predicate] members in the parser and column extractor. Decides these necessary conditions of '
    'hint safety, not the semantic implication for user-defined parser subclasses.'
)
ASSUMPTIONS = [
    'visit_table is the only consumer of the per-table segments (checked: only reader of Tables.__getitem__ in the parser)',
    'a factor is safe for table T iff it references only T and is implied by the filter for every contributing row',
]
MANIFEST = {
    'level': 'Complete static case analysis of the factorisation rules (finite: key in left/right/both; And/Or/Not/Comparison) '
             'and dominance/guard rules over the two visitor methods that register hints. Safety of a filter is an '
             'implication over all rows and boolean structures; it follows structurally from these rules, which is why a '
             'static decision is the right level and sampled statements are not.',
    'note': 'Trusted: stdlib ast; the meaning of Factors.merge keys as derived from its own generator. Not decided: user '
            'parser subclasses; K9 (where-factors below outer joins) is a listed known finding.',
    'technique': 'static analysis: annotation-derived member census + CFG dominance (must-register-before-descent), sibling '
                 'visitor agreement, key-set algebra/case split over factor definitions, guard (control-dependence) rule, '
                 'typed truthiness lint',
}

PARSER = 'forml.io.dsl.parser'
LAZY = 'forml.provider.feed.lazy'
FRAME, SERIES = shared.FRAME, shared.SERIES
FEATUREISH = ('Feature', 'Predicate', 'Operable', 'Ordering', 'Element', 'Column')


def feature_members(ci: core.ClassInfo) -> list[str]:
    out = []
    for name, ann in ci.annotations.items():
        text = core.src(ann)
        if any(f in text for f in FEATUREISH):
            out.append(name)
    return out


def _register_calls(fn: core.FuncInfo) -> list[ast.Call]:
    return [
        c for c in core.calls_in(fn.node)
        if isinstance(c.func, ast.Attribute) and c.func.attr in ('select', 'filter') and 'tables' in (core.dotted(c.func) or '')
    ]


def _accepts(node: ast.AST, var: str, member: str) -> bool:
    """``var.member`` (or every item of it: a for loop over it, optionally through ``.feature``) receives ``accept(self)``."""
    loopvars = {}
    for n in ast.walk(node):
        if isinstance(n, ast.For) and isinstance(n.target, ast.Name) and _mentions(n.iter, var, member):
            loopvars[n.target.id] = n
    for c in ast.walk(node):
        if isinstance(c, ast.Call) and isinstance(c.func, ast.Attribute) and c.func.attr == 'accept' and [core.src(a) for a in c.args] == ['self']:
            recv = c.func.value
            if _mentions(recv, var, member):
                return True
            base = recv.value if isinstance(recv, ast.Attribute) and recv.attr == 'feature' else recv
            if isinstance(base, ast.Name) and base.id in loopvars and any(c is x for x in ast.walk(loopvars[base.id])):
                return True
    return False


def _mentions(node: ast.AST, var: str, member: str) -> bool:
    return any(isinstance(n, ast.Attribute) and n.attr == member and isinstance(n.value, ast.Name) and n.value.id == var for n in ast.walk(node))


def own_key_rule(ctx, rule: str) -> None:
    """A factor constrains rows of its own origin only: it must be registered under the unmodified key of the factors
    mapping (re-attributing it - e.g. from a reference to its base table - filters other scans of that table and makes
    visit_table generate a predicate over a reference that is not opened yet, so parsing fails with KeyError)."""
    prog = ctx.prog
    filt = prog.func(f'{PARSER}:Container.Context.Tables.filter')
    # a factor constrains rows of its own origin only: it must be registered under the unmodified key of the
    # factors mapping (re-attributing it - e.g. from a reference to its base table - filters other scans of that table
    # and makes visit_table generate a predicate over a reference that is not opened yet)
    loops = [n for n in core.walk_local(filt.node) if isinstance(n, ast.For) and 'factors.items()' in core.src(n.iter)]
    ok_key = False
    for lp in loops:
        if isinstance(lp.target, ast.Tuple) and len(lp.target.elts) == 2 and isinstance(lp.target.elts[0], ast.Name):
            kvar, fvar = lp.target.elts[0].id, core.src(lp.target.elts[1])
            adds = [c for c in core.calls_in(lp) if isinstance(c.func, ast.Attribute) and c.func.attr == 'add' and core.src(c.func.value).endswith('.factors')]
            rebinds = [s for s in ast.walk(lp) if isinstance(s, (ast.Assign, ast.AugAssign, ast.NamedExpr)) and kvar in {x.id for tg in ([s.target] if not isinstance(s, ast.Assign) else s.targets) for x in ast.walk(tg) if isinstance(x, ast.Name)}]
            ok_key = bool(adds) and not rebinds and all(core.src(c.func.value) == f'self[{kvar}].factors' and [core.src(a) for a in c.args] == [fvar] for c in adds)
    ctx.check(ok_key, rule, filt, 'each factor is registered under its own origin key, unmodified (no re-attribution across origins)', filt.node, key='filter:own-key')


def registration(ctx) -> None:
    prog = ctx.prog
    query, join = prog.cls(f'{FRAME}:Query'), prog.cls(f'{FRAME}:Join')
    qmembers = feature_members(query)
    jmembers = feature_members(join)
    jmembers = [m for m in jmembers if m not in ('left', 'right')]
    ctx.floor('C14.members', len(qmembers) + len(jmembers), 6)
    ctx.sample({'query_feature_members': qmembers, 'join_feature_members': jmembers})
    for cls_members, mname, alias in ((qmembers, 'visit_query', {'selection': 'features'}), (jmembers, 'visit_join', {})):
        fn = prog.func(f'{PARSER}:Visitor.{mname}')
        var = [p for p in fn.param_names if p != 'self'][0]
        graph = cfg.CFG(fn.node)
        supers = [c for c in core.calls_in(fn.node) if isinstance(c.func, ast.Attribute) and c.func.attr == mname and core.src(c.func.value) == 'super()']
        if len(supers) != 1:
            ctx.fail('C14.registration', fn, f'{mname}: descent through super().{mname} not found exactly once', fn.node, key=f'{mname}:super')
            continue
        sup = core.enclosing_stmt(supers[0])
        regs = _register_calls(fn)
        for m in cls_members:
            names = {m, alias.get(m, m)}
            sites = [c for c in regs if any(_mentions(c, var, n) for n in names)]
            if not sites:
                ctx.fail('C14.registration', fn, f'{mname}: `{var}.{m}` is never registered with the table segments (its columns are missing from the push-down column set)', fn.node, key=f'{mname}:{m}:unregistered')
                continue
            ok_any = False
            for c in sites:
                st = core.enclosing_stmt(c)
                if not graph.has(st):
                    continue
                if graph.dominates(st, sup):
                    ok_any = True
                    continue
                # conditional registration: the guarding ifs must all be None-tests of the member (possibly refined by
                # the join kind, in which case the other arm must register it as well) and the outer `if` must dominate
                gs = cfg.guards(c, fn.node)
                none_guard = [t for t, pol in gs if pol and core.src(t) in {f'{var}.{n} is not None' for n in names}]
                outer = None
                for a in core.ancestors(c):
                    if isinstance(a, ast.If) and core.src(a.test) in {f'{var}.{n} is not None' for n in names}:
                        outer = a
                if none_guard and outer is not None and graph.has(outer) and graph.dominates(outer, sup):
                    # all paths through the non-None arm to the descent must pass a registration of the member
                    site_stmts = [core.enclosing_stmt(x) for x in sites]
                    first = outer.body[0]
                    through = graph.must_pass(first, sup, via=[s for s in site_stmts if graph.has(s)], normal_only=True) or first in site_stmts
                    if through:
                        ok_any = True
            ctx.check(ok_any, 'C14.registration', fn, f'{mname}: `{var}.{m}` registered on every path where it is not None, before the descent', sites[0], key=f'{mname}:{m}')
    # Tables.filter registers columns too and one factor per table
    filt = prog.func(f'{PARSER}:Container.Context.Tables.filter')
    text = core.src(filt.node)
    ctx.check('self.select(expression)' in text, 'C14.registration', filt, 'filter() also registers the columns of the expression', filt.node, key='filter:select')
    ctx.check('expression.factors.items()' in text and '.factors.add(factor)' in text, 'C14.registration', filt, 'filter() registers the factor of each table with that table', filt.node, key='filter:factors')
    own_key_rule(ctx, 'C14.registration')
    # columns are filed under the origin of the very column that is filed (the segment visit_table reads); referenced
    # elements are re-attributed to their base table (the lazy feed and every push-down consumer are keyed by tables),
    # elements of any other referenced source are left to that source's own statement.  Decided by walking the loop body of
    # select() once per case (origin is a Reference? its instance a Table?) over symbolic values - the spelling is free
    sel = prog.func(f'{PARSER}:Container.Context.Tables.select')
    _select_cases(ctx, sel)
    # the only reader
    vt = prog.func(f'{PARSER}:Visitor.visit_table')
    _visit_table(ctx, vt)
    # sibling: lazy column extractor
    cols = prog.cls(f'{LAZY}:_Columns')
    for members, mname in ((qmembers, 'visit_query'), (jmembers, 'visit_join')):
        if mname not in cols.methods:
            ctx.fail('R-SIBLING', cols.ref, f'_Columns lacks {mname}', key=mname, loc=cols.module.relpath)
            continue
        fn = prog.func(f'{cols.ref}.{mname}')
        var = [p for p in fn.param_names if p != 'self'][0]
        for m in members:
            names = {'features'} if m == 'selection' else {m}  # the *effective* selection: an empty select list means every source feature
            covered = any(_accepts(fn.node, var, n) for n in names)
            ctx.check(covered, 'R-SIBLING', fn, f'_Columns.{mname} visits `{var}.{m}` (an accept(self) on the member or on each of its items) like the parser registers it', fn.node, key=f'{mname}:{m}')
            # visited whenever present: an accept() of the member may only be guarded by its own positive None-test
            for c in core.calls_in(fn.node):
                if isinstance(c.func, ast.Attribute) and c.func.attr == 'accept' and any(_mentions(c.func.value, var, n) for n in names) and not any(isinstance(a, (ast.For, ast.comprehension)) for a in core.ancestors(c) if a is not fn.node):
                    gs = [(core.src(t), pol) for t, pol in cfg.guards(c, fn.node, siblings=False)]
                    okg = all((t == f'{var}.{m} is not None' and pol) or (t == f'{var}.{m} is None' and not pol) for t, pol in gs)
                    ctx.check(okg, 'R-SIBLING', fn, f'`{var}.{m}` is visited whenever it is present (guards: {gs})', c, key=f'{mname}:{m}:guard')


def _select_cases(ctx, sel) -> None:
    loop = next((x for x in core.walk_local(sel.node) if isinstance(x, ast.For)), None)
    if loop is None or not isinstance(loop.target, ast.Name):
        ctx.fail('C14.registration', sel, 'select(): loop over the dissected elements not found', sel.node, key='select:loop')
        return
    ctx.check('Element.dissect(' in core.src(loop.iter), 'C14.registration', sel, 'select() walks every element of the given features (Element.dissect)', loop, key='select:dissect')
    F, O, I, COL = 'FIELD', 'FIELD.origin', 'FIELD.origin.instance', 'Column(FIELD.origin.instance, FIELD.name)'

    class Unknown(Exception):
        pass

    def value(e: ast.AST, env: dict):
        if isinstance(e, ast.Name):
            if e.id in env:
                return env[e.id]
            raise Unknown(core.src(e))
        if isinstance(e, ast.Attribute):
            base = value(e.value, env) if not (isinstance(e.value, ast.Name) and e.value.id in ('self', 'dsl')) else core.src(e.value)
            if e.attr == 'origin' and base == F:
                return O
            if e.attr == 'origin' and base == COL:
                return I  # a Column reports the table it was made for
            if e.attr == 'instance' and base == O:
                return I
            if e.attr == 'name' and base == F:
                return 'FIELD.name'
            return f'{base}.{e.attr}'
        if isinstance(e, ast.Call) and core.src(e.func) in ('dsl.Column', 'Column') and len(e.args) == 2 and not e.keywords:
            a, b = value(e.args[0], env), value(e.args[1], env)
            return COL if (a, b) == (I, 'FIELD.name') else f'Column({a}, {b})'
        raise Unknown(core.src(e)[:40])

    def truth(t: ast.AST, env: dict, case: dict):
        if isinstance(t, ast.UnaryOp) and isinstance(t.op, ast.Not):
            return not truth(t.operand, env, case)
        if isinstance(t, ast.BoolOp):
            vals = [truth(v, env, case) for v in t.values]
            return all(vals) if isinstance(t.op, ast.And) else any(vals)
        if isinstance(t, ast.Call) and core.call_name(t) == 'isinstance' and len(t.args) == 2:
            what, cls = value(t.args[0], env), core.src(t.args[1])
            if what == O and cls == 'dsl.Reference':
                return case['ref']
            if what == I and cls == 'dsl.Table':
                return case['table']
        raise Unknown(core.src(t)[:60])

    def run(body: list, env: dict, case: dict, out: list) -> bool:
        """False when the round was left (continue)."""
        for st in body:
            if isinstance(st, ast.Assign) and len(st.targets) == 1 and isinstance(st.targets[0], ast.Name):
                env[st.targets[0].id] = value(st.value, env)
            elif isinstance(st, ast.If):
                if not run(st.body if truth(st.test, env, case) else st.orelse, env, case, out):
                    return False
            elif isinstance(st, ast.Continue):
                return False
            elif isinstance(st, ast.Expr) and isinstance(st.value, ast.Call) and isinstance(st.value.func, ast.Attribute) and st.value.func.attr == 'add' and isinstance(st.value.func.value, ast.Attribute) and st.value.func.value.attr == 'fields' and isinstance(st.value.func.value.value, ast.Subscript) and core.src(st.value.func.value.value.value) == 'self' and len(st.value.args) == 1:
                out.append((value(st.value.func.value.value.slice, env), value(st.value.args[0], env)))
            elif isinstance(st, ast.Expr) and isinstance(st.value, ast.Constant):
                continue
            elif isinstance(st, ast.Pass):
                continue
            else:
                raise Unknown(core.src(st)[:60])
        return True

    want = {(False, False): [(O, F)], (False, True): [(O, F)], (True, True): [(I, COL)], (True, False): []}
    texts = {(False, False): 'a plain column is registered in the segment of its own origin', (False, True): 'a plain column is registered in the segment of its own origin', (True, True): 'an element of a referenced table is registered as the column of that table, in the segment of that table', (True, False): 'only elements of referenced non-table sources are skipped'}
    keys = {(False, False): 'select:own-origin', (False, True): 'select:own-origin:2', (True, True): 'select:re-attribute', (True, False): 'select:skip'}
    for (ref, table), expect in want.items():
        got: typing.Any = []
        try:
            run(loop.body, {loop.target.id: F}, {'ref': ref, 'table': table}, got)
        except Unknown as err:
            got = f'construct outside the vocabulary of the case walk: {err}'
        ctx.check(got == expect, 'C14.registration', sel, f'{texts[(ref, table)]} (reference={ref}, table={table}: registered {got})', loop, key=keys[(ref, table)])


def _visit_table(ctx, vt) -> None:
    """visit_table hands generate_table (origin, translated fields of the table's segment, translated row filter of the same
    segment - or None under an alias / without a filter).  Decided on the normal form of the function by evaluating the
    third argument over the four cases (aliased?, filter absent?) - so temporaries, nesting and arm order do not matter."""
    nf = vt.normal().node
    defs: dict = {}
    for st in nf.body:
        if isinstance(st, ast.Assign) and len(st.targets) == 1 and isinstance(st.targets[0], ast.Name):
            defs.setdefault(st.targets[0].id, []).append(st.value)
    single = {k: v[0] for k, v in defs.items() if len(v) == 1}

    def resolve(e: ast.AST) -> ast.AST:
        class R(ast.NodeTransformer):
            def visit_Name(self, n):  # noqa: N802
                if isinstance(n.ctx, ast.Load) and n.id in single:
                    return resolve(single[n.id])
                return n

        return R().visit(ast.parse(ast.unparse(e), mode='eval').body)

    seg = 'self.context.tables[source]'
    pred = f'{seg}.predicate'

    def value(e: ast.AST, env: dict):
        """NONE / PRED / ('gen', PRED) / None (unknown)."""
        if isinstance(e, ast.Constant) and e.value is None:
            return 'NONE'
        if ast.unparse(e) == pred:
            return 'NONE' if env['absent'] else 'PRED'
        if isinstance(e, ast.IfExp):
            t = truth(e.test, env)
            return None if t is None else value(e.body if t else e.orelse, env)
        if isinstance(e, ast.Call) and ast.unparse(e.func) == 'self.generate_feature' and len(e.args) == 1 and not e.keywords:
            inner = value(e.args[0], env)
            return ('gen', inner) if inner == 'PRED' else None
        return None

    def truth(t: ast.AST, env: dict):
        if isinstance(t, ast.UnaryOp) and isinstance(t.op, ast.Not):
            v = truth(t.operand, env)
            return None if v is None else not v
        if isinstance(t, ast.BoolOp):
            for v in t.values:
                b = truth(v, env)
                if b is None:
                    return None
                if b != isinstance(t.op, ast.And):
                    return b
            return isinstance(t.op, ast.And)
        if ast.unparse(t) == 'self.context.aliased':
            return env['aliased']
        if isinstance(t, ast.Compare) and len(t.ops) == 1 and isinstance(t.ops[0], (ast.Is, ast.IsNot)) and isinstance(t.comparators[0], ast.Constant) and t.comparators[0].value is None:
            v = value(t.left, env)
            if v is None:
                return None
            return (v == 'NONE') == isinstance(t.ops[0], ast.Is)
        return None

    call = next((c for c in ast.walk(nf) if isinstance(c, ast.Call) and isinstance(c.func, ast.Attribute) and c.func.attr == 'generate_table'), None)
    args = [resolve(a) for a in call.args] if call is not None and len(call.args) == 3 and not call.keywords else []
    ctx.check(len(args) == 3, 'C14.registration', vt, 'generate_table(origin, features, predicate) in declaration order', vt.node, key='visit_table:args')
    if len(args) != 3:
        return
    table = {(a, n): value(args[2], {'aliased': a, 'absent': n}) for a in (False, True) for n in (False, True)}
    want = {(False, False): ('gen', 'PRED'), (False, True): 'NONE', (True, False): 'NONE', (True, True): 'NONE'}
    ctx.check(table == want, 'C14.registration', vt, f'an offered row filter of the bare table is translated to target code like any other feature; none under an alias (aliased, absent) -> {table}', vt.node, key='visit_table:translate')
    feats = args[1]
    okf = isinstance(feats, ast.ListComp) and len(feats.generators) == 1 and not feats.generators[0].ifs and ast.unparse(feats.generators[0].iter) == f'sorted({seg}.fields)' and isinstance(feats.elt, ast.Call) and ast.unparse(feats.elt.func) == 'self.generate_feature' and [ast.unparse(a) for a in feats.elt.args] == [ast.unparse(feats.generators[0].target)]
    ctx.check(okf and ast.unparse(args[0]) == 'self.resolve_source(source)', 'C14.registration', vt, 'visit_table hands the resolved origin and every translated field of the segment of the visited table to generate_table', vt.node, key='visit_table:segment')


def lazy_columns(ctx) -> None:
    """The lazy feed loads exactly the columns its extractor collects: the extractor must descend everywhere (each override
    ends in its super() call), record a plain column as it is and an element of a referenced *table* as the column of that
    table (so that the load request names real table columns), and descend into any other referenced source."""
    prog = ctx.prog
    cols = prog.cls(f'{LAZY}:_Columns')
    n = 0
    for mname, m in cols.methods.items():
        if not mname.startswith('visit_'):
            continue
        n += 1
        fn = prog.func(f'{cols.ref}.{mname}')
        var = [p for p in fn.param_names if p != 'self'][0]
        sup = [st for st in fn.body if isinstance(st, ast.Expr) and core.src(st.value) == f'super().{mname}({var})']
        ctx.check(len(sup) == 1 and not cfg.cguards(sup[0], fn.node), 'R-SIBLING', fn, f'_Columns.{mname} continues the default descent unconditionally (super().{mname}({var}))', fn.node, key=f'{mname}:super')
    ctx.floor('C14.lazy-columns', n, 3)
    # each clause of a query is visited on its own: the visit of one clause is guarded by the presence of that clause only -
    # never nested in the loop over another clause (HAVING without GROUP BY would never be visited)
    vq = prog.func(f'{cols.ref}.visit_query')
    visits = [c for c in core.walk_local(vq.node) if isinstance(c, ast.Call) and isinstance(c.func, ast.Attribute) and c.func.attr == 'accept' and core.src(c.args[0] if c.args else None) == 'self']
    ctx.check(len(visits) >= 5, 'C14.lazy-columns', vq, f'the five clauses of a query (features, where, grouping, having, ordering) are each visited ({len(visits)} visits found)', vq.node, key='visit_query:clauses')
    for c in visits:
        subject = core.src(c.func.value)
        loops = [a for a in core.ancestors(c) if isinstance(a, (ast.For, ast.While))]
        own_loop = all(any(isinstance(x, ast.Name) and x.id in core.names_in(lp.target) for x in ast.walk(c.func.value)) for lp in loops if isinstance(lp, ast.For))
        foreign = [g for g in cfg.cguards(c, vq.node) if subject.split('.')[1] not in g[0]] if subject.startswith('source.') else []
        ctx.check(len(loops) <= 1 and own_loop and not foreign, 'C14.lazy-columns', vq, f'`{subject}.accept(self)` is reached whenever its own clause is present (loops: {len(loops)}, foreign guards: {foreign})', c, key=f'visit_query:{subject}')
    ve = prog.func(f'{cols.ref}.visit_element')
    f = ve.param_names[1]
    col = (f'isinstance({f}, dsl.Column)', True)
    tab = (f'isinstance({f}.origin.instance, dsl.Table)', True)
    shared.stmt_under(ctx, 'R-SIBLING', ve, f'self._items.add({f})', [col], 'a table column is collected as it is', 'visit_element:column', siblings=False)
    shared.stmt_under(ctx, 'R-SIBLING', ve, f'self._items.add(dsl.Column({f}.origin.instance, {f}.name))', [(col[0], False), tab], 'an element of a referenced table is collected as the column of that table', 'visit_element:reference-table', siblings=False)
    shared.stmt_under(ctx, 'R-SIBLING', ve, f'{f}.origin.instance.accept(self)', [(col[0], False), (tab[0], False)], 'an element of any other referenced source makes the extractor descend into that source', 'visit_element:reference-other', siblings=False)
    rd = prog.func(f'{LAZY}:Feed.Reader.__call__')
    loops = [x for x in core.walk_local(rd.node) if isinstance(x, ast.For) and '_Columns.extract(statement)' in core.src(x.iter)]
    ctx.check(len(loops) == 1 and isinstance(loops[0].target, ast.Tuple) and len(loops[0].target.elts) == 2, 'R-SIBLING', rd, 'the reader requests, per table, the columns the extractor found for the statement being read', rd.node, key='reader:extract')
    if loops:
        t, c = [core.src(e) for e in loops[0].target.elts]
        parts = [x for x in core.calls_in(loops[0]) if isinstance(x.func, ast.Attribute) and x.func.attr == 'partitions']
        ctx.check(len(parts) == 1 and core.src(parts[0].args[0]) == c and core.src(parts[0].func.value) in ('origin', f'self._origins[{t}]'), 'R-SIBLING', rd, 'the partitions are requested from the table\'s own origin with that table\'s columns', parts[0] if parts else loops[0], key='reader:partitions')
        org = [a for a in core.walk_local(loops[0]) if isinstance(a, ast.Assign) and core.src(a.targets[0]) == 'origin']
        ctx.check(all(core.src(a.value) == f'self._origins[{t}]' for a in org), 'R-SIBLING', rd, 'the origin is looked up by the table of the same iteration', loops[0], key='reader:origin')
        miss = [r for r in core.walk_local(loops[0]) if isinstance(r, ast.Raise)]
        ctx.check(len(miss) == 1 and cfg.cguards(miss[0], loops[0]) == cfg.cg((f'{t} not in self._origins', True)) and 'MissingError' in core.src(miss[0]), 'R-SIBLING', rd, 'a table without an origin is refused (missing), never silently skipped', loops[0], key='reader:missing')
        reg = [x for x in core.calls_in(loops[0]) if isinstance(x.func, ast.Attribute) and x.func.attr == 'execute']
        g = cfg.cguards(reg[0], loops[0]) if reg else None
        ctx.check(len(reg) == 1 and g == cfg.cg(('origin not in self.PARTITIONS or self.PARTITIONS[origin].symmetric_difference(partitions)', True)), 'R-SIBLING', rd, f'the origin is (re)registered whenever it is new or its partition set changed (guards {g})', reg[0] if reg else loops[0], key='reader:reregister')
    ext = prog.func(f'{cols.ref}.extract')
    ctx.check('key=lambda c: c.origin' in core.src(ext.node) and 'sorted(cls()(statement)' in core.src(ext.node), 'R-SIBLING', ext, 'columns are grouped by their own table', ext.node, key='extract:groupby')


# ---- factor soundness -----------------------------------------------------------------------------
def merge_case_split(ctx) -> None:
    prog = ctx.prog
    fn = prog.func(f'{SERIES}:Predicate.Factors.merge')
    gens = [n for n in core.walk_local(fn.node) if isinstance(n, ast.GeneratorExp)]
    if len(gens) != 1:
        raise core.AnalysisError('Factors.merge: single generator expression idiom not found')
    gen = gens[0]
    it = core.src(gen.generators[0].iter)
    ctx.check(it in ('left.keys() | right.keys()', 'right.keys() | left.keys()'), 'C14.merge', fn, f'merge iterates the union of both key sets ({it})', gen, key='merge:keys')
    kvar = core.src(gen.generators[0].target)
    cases = {'left-only': (True, False), 'right-only': (False, True), 'both': (True, True)}
    for cname, (inl, inr) in cases.items():
        def decide(test: ast.AST, inl=inl, inr=inr) -> typing.Optional[bool]:
            if isinstance(test, ast.BoolOp):
                vals = [decide(v) for v in test.values]
                if isinstance(test.op, ast.And):
                    return False if any(v is False for v in vals) else (True if all(v is True for v in vals) else None)
                return True if any(v is True for v in vals) else (False if all(v is False for v in vals) else None)
            if isinstance(test, ast.UnaryOp) and isinstance(test.op, ast.Not):
                v = decide(test.operand)
                return None if v is None else not v
            text = core.src(test)
            if text == f'{kvar} in left':
                return inl
            if text == f'{kvar} in right':
                return inr
            if text == f'{kvar} not in left':
                return not inl
            if text == f'{kvar} not in right':
                return not inr
            return None

        selected = casesplit.fold_ifexp(gen.elt, decide)
        classes = set()
        for e in selected:
            t = core.src(e)
            if t == f'left[{kvar}]':
                classes.add('LEFT')
            elif t == f'right[{kvar}]':
                classes.add('RIGHT')
            elif isinstance(e, ast.Call) and core.src(e.func) == 'operator' and {core.src(a) for a in e.args} == {f'left[{kvar}]', f'right[{kvar}]'}:
                classes.add('COMBINE')
            else:
                classes.add(f'OTHER({t})')
        allowed = {'left-only': {'LEFT'}, 'right-only': {'RIGHT'}, 'both': {'COMBINE', 'LEFT', 'RIGHT'}}[cname]
        ctx.sample({'merge_case': cname, 'selected': sorted(classes)})
        ctx.check(
            bool(classes) and classes <= allowed and (cname != 'both' or 'COMBINE' in classes), 'C14.merge', fn,
            f'merge case {cname}: yields {sorted(classes)} (allowed {sorted(allowed)}; every yielded item must be a predicate)',
            gen, key=f'merge:{cname}',
        )
    for dunder, op in (('__and__', 'And'), ('__or__', 'Or')):
        d = prog.func(f'{SERIES}:Predicate.Factors.{dunder}')
        ctx.check(core.src(d.body[-1]) == f'return self.merge(self, other, {op})', 'C14.merge', d, f'Factors.{dunder} merges with {op}', d.node, key=f'factors{dunder}')
    seg = prog.func(f'{PARSER}:Container.Context.Tables.Segment.predicate')
    text = core.src(seg.node)
    ctx.check('reduce(function.Or' in text or 'reduce(dsl.function.Or' in text or 'reduce(operator.or_' in text, 'C14.merge', seg, 'several factors registered for one table are OR-combined', seg.node, key='segment:or')


class KeySets:
    """Key-set algebra over Factors expressions: evaluates an expression to a set term over atoms L, R."""

    def __init__(self, fn: core.FuncInfo):
        self.fn = fn
        self.env: dict[str, typing.Any] = {}

    def keys_of(self, node: ast.AST):
        """frozenset of atoms for the *key set* denoted by a Factors-valued or key-set-valued expression:
        returns ('set', lower, upper) approximated as a term: ('atom', 'L'), ('and', a, b), ('or', a, b), ('empty',)"""
        t = core.src(node)
        if t in ('self.left.factors',):
            return ('atom', 'L')
        if t in ('self.right.factors',):
            return ('atom', 'R')
        if isinstance(node, ast.Name) and node.id in self.env:
            return self.env[node.id]
        if isinstance(node, ast.Call) and isinstance(node.func, ast.Attribute) and node.func.attr == 'keys' and not node.args:
            return self.keys_of(node.func.value)
        if isinstance(node, ast.BinOp) and isinstance(node.op, (ast.BitOr, ast.BitAnd)):
            a, b = self.keys_of(node.left), self.keys_of(node.right)
            if a is None or b is None:
                return None
            lk = self._is_keyset(node.left) or self._is_keyset(node.right)
            if isinstance(node.op, ast.BitAnd) and lk:
                return ('and', a, b)
            # Factors & Factors and Factors | Factors both go through merge: key union
            return ('or', a, b)
        if isinstance(node, ast.Call) and (core.call_name(node) or '').endswith('Factors'):
            if not node.args:
                return ('empty',)
            if len(node.args) == 1 and isinstance(node.args[0], ast.Starred) and isinstance(node.args[0].value, ast.GeneratorExp):
                gen = node.args[0].value
                if len(gen.generators) == 1 and not gen.generators[0].ifs:
                    over = self.keys_of(gen.generators[0].iter)
                    k = core.src(gen.generators[0].target)
                    if isinstance(gen.elt, ast.Subscript) and core.src(gen.elt.slice) == k:
                        return over
            return None
        return None

    def _is_keyset(self, node: ast.AST) -> bool:
        if isinstance(node, ast.Call) and isinstance(node.func, ast.Attribute) and node.func.attr == 'keys':
            return True
        if isinstance(node, ast.Name) and node.id in self.env:
            return self.env.get('#ks:' + node.id, False)
        return False

    def bind(self, stmt: ast.Assign) -> None:
        tgt = stmt.targets[0]
        if isinstance(tgt, ast.Tuple) and isinstance(stmt.value, ast.Tuple):
            for t, v in zip(tgt.elts, stmt.value.elts):
                if isinstance(t, ast.Name):
                    self.env[t.id] = self.keys_of(v)
                    self.env['#ks:' + t.id] = self._is_keyset(v)
        elif isinstance(tgt, ast.Name):
            self.env[tgt.id] = self.keys_of(stmt.value)
            self.env['#ks:' + tgt.id] = self._is_keyset(stmt.value) or (
                isinstance(stmt.value, ast.BinOp) and (self._is_keyset(stmt.value.left) or self._is_keyset(stmt.value.right))
            )


def _subset_of_both(term, l: bool, r: bool) -> bool:
    """Evaluate the key-set term for a key that is in L iff l and in R iff r."""
    if term is None:
        return True  # unknown => assume the key may survive
    if term[0] == 'atom':
        return l if term[1] == 'L' else r
    if term[0] == 'empty':
        return False
    if term[0] == 'and':
        return _subset_of_both(term[1], l, r) and _subset_of_both(term[2], l, r)
    if term[0] == 'or':
        return _subset_of_both(term[1], l, r) or _subset_of_both(term[2], l, r)
    return True


def logical_factors(ctx) -> None:
    prog = ctx.prog
    # And / Or through the key-set algebra
    for cname, one_sided_allowed in (('And', True), ('Or', False)):
        fn = prog.func(f'{SERIES}:{cname}.factors')
        ks = KeySets(fn)
        rets = []
        for st in fn.body:
            if isinstance(st, ast.Assign):
                ks.bind(st)
            elif isinstance(st, ast.Return):
                rets.append(st)
        if len(rets) != 1:
            raise core.AnalysisError(f'{cname}.factors: single return idiom not found')
        term = ks.keys_of(rets[0].value)
        if term is None:
            ctx.fail('C14.factors', fn, f'{cname}.factors: key set of `{core.src(rets[0].value)}` not derivable (idiom not recognised)', rets[0], key=f'{cname}:unknown')
            continue
        left_only = _subset_of_both(term, True, False)
        right_only = _subset_of_both(term, False, True)
        both = _subset_of_both(term, True, True)
        ctx.sample({'class': cname, 'key_survives(left-only,right-only,both)': (left_only, right_only, both), 'term': str(term)})
        if one_sided_allowed:
            ctx.check(both and left_only and right_only, 'C14.factors', fn, f'{cname}.factors keeps every factor of either side (conjunction constrains both)', rets[0], key=f'{cname}:keys')
            uses_and = isinstance(rets[0].value, ast.BinOp) and isinstance(rets[0].value.op, ast.BitAnd)
            ctx.check(uses_and, 'C14.factors', fn, f'{cname}.factors combines two-sided factors with AND', rets[0], key=f'{cname}:op')
        else:
            ctx.check(
                not left_only and not right_only, 'C14.factors', fn,
                f'{cname}.factors must drop one-sided factors (a disjunction is not constrained by one branch): left-only survives={left_only}, right-only survives={right_only}',
                rets[0], key=f'{cname}:one-sided',
            )
            text = core.src(rets[0].value)
            uses_or = '|' in text and '&' not in text.split('Factors(')[0]
            ctx.check(uses_or, 'C14.factors', fn, f'{cname}.factors combines two-sided factors with OR', rets[0], key=f'{cname}:op')
    # Not / Comparison: itself under the *exactly one origin* test, or nothing (a predicate over no column at all - a
    # constant comparison - is not a factor of any table: Factors(predicate) would refuse it and parsing would fail)
    for cname in ('Not', 'Comparison'):
        fn = prog.func(f'{SERIES}:{cname}.factors')
        subject = 'self'
        rets = [s for s in core.walk_local(fn.node) if isinstance(s, ast.Return)]
        # a shared helper of Predicate.Factors may carry the decision: follow it (one level)
        if len(rets) == 1 and isinstance(rets[0].value, ast.Call) and isinstance(rets[0].value.func, ast.Attribute) and core.src(rets[0].value.func.value).endswith('Factors') and [core.src(a) for a in rets[0].value.args] == ['self']:
            href = f'{SERIES}:Predicate.Factors.{rets[0].value.func.attr}'
            if prog.has_func(href):
                fn = prog.func(href)
                subject = [p for p in fn.param_names if p not in ('cls', 'self')][0]
                rets = [s for s in core.walk_local(fn.node) if isinstance(s, ast.Return)]
        good = bool(rets)
        for r in rets:
            alts = casesplit.fold_ifexp(r.value, lambda t: None)
            for alt in alts:
                t = core.src(alt)
                if t.endswith('Factors()') or t == 'cls()':
                    continue
                if t.endswith(f'Factors({subject})') or t == f'cls({subject})':
                    gs = cfg.cguards(alt, fn.node)
                    want = f'len({{f.origin for f in Element.dissect({subject})}}) == 1'
                    single = len(gs) == 1 and gs[0][1] and gs[0][0].replace(' ', '') in (want.replace(' ', ''), f'1==len({{f.origin for f in Element.dissect({subject})}})'.replace(' ', ''))
                    if not single:
                        good = False
                        ctx.fail('C14.factors', fn, f'{cname}.factors offers the predicate itself under {gs}: it is a factor exactly when it constrains exactly one origin (`{want}`)', r, key=f'{cname}:unguarded')
                    continue
                good = False
                ctx.fail('C14.factors', fn, f'{cname}.factors returns `{t}`: only the predicate itself (under the single-origin test) or no factor is sound' + (' - the operand factors are un-negated' if cname == 'Not' else ''), r, key=f'{cname}:forward')
        if good:
            ctx.ok('C14.factors', fn, f'{cname}.factors is itself-or-nothing under the exactly-one-origin test', fn.node)


def _reads_join_kind(prog, resolver, fn: core.FuncInfo, expr: ast.AST, depth: int) -> bool:
    """Does evaluating ``expr`` read the ``kind`` of a join - directly or through a resolved callee (bounded depth)?"""
    for n in ast.walk(expr):
        if isinstance(n, ast.Attribute) and n.attr == 'kind':
            return True
    if depth <= 0:
        return False
    for call in [n for n in ast.walk(expr) if isinstance(n, ast.Call)]:
        callee = resolver.resolve(fn, call)
        if callee is None and isinstance(call.func, ast.Attribute) and isinstance(call.func.value, ast.Name) and call.func.value.id in ('self', 'cls') and fn.cls:
            found = fn.cls.lookup(call.func.attr)
            if found and isinstance(found[1], core.FUNC):
                callee = resolver._from_func(prog.func(f'{found[0].ref}.{call.func.attr}'), bound=True)
        if callee is not None and callee.func is not None:
            if any(_reads_join_kind(prog, resolver, callee.func, s, depth - 1) for s in callee.func.body):
                return True
    return False


def _helper_says_outer(prog, helper: core.FuncInfo, kind: str):
    """Fold the helper's join branch for a join of the given kind (recursive calls on the operands count as False)."""
    kind_enum = prog.cls(f'{FRAME}:Join.Kind')
    for st in core.walk_local(helper.node):
        if isinstance(st, ast.If) and 'isinstance' in core.src(st.test) and 'Join' in core.src(st.test):
            ret = next((r for r in st.body if isinstance(r, ast.Return)), None)
            if ret is None:
                return None

            def ev(e):
                if isinstance(e, ast.BoolOp):
                    vals = [ev(v) for v in e.values]
                    if isinstance(e.op, ast.Or):
                        return True if any(v is True for v in vals) else (False if all(v is False for v in vals) else None)
                    return False if any(v is False for v in vals) else (True if all(v is True for v in vals) else None)
                if isinstance(e, ast.UnaryOp) and isinstance(e.op, ast.Not):
                    v = ev(e.operand)
                    return None if v is None else not v
                if isinstance(e, ast.Call):
                    return False  # recursion into the operands: plain tables
                if isinstance(e, ast.Compare) and len(e.ops) == 1 and core.src(e.left).endswith('.kind'):
                    members = []
                    comp = e.comparators[0]
                    elts = comp.elts if isinstance(comp, (ast.Set, ast.Tuple, ast.List)) else [comp]
                    for x in elts:
                        members.append((core.dotted(x) or '').split('.')[-1])
                    inside = kind in members
                    if isinstance(e.ops[0], (ast.In, ast.Is, ast.Eq)):
                        return inside
                    if isinstance(e.ops[0], (ast.NotIn, ast.IsNot, ast.NotEq)):
                        return not inside
                return None

            return ev(ret.value)
    return None


def outer_kinds(ctx) -> None:
    """What counts as an *outer* join is decided for every member of ``Join.Kind``: the helper that blocks row-filter push-down
    answers True for each kind that preserves unmatched rows (everything but INNER and CROSS - LEFT, RIGHT and FULL) and
    False for INNER and CROSS.  A positive list that forgets a member lets filters slip below that kind of join."""
    prog = ctx.prog
    kinds = [n for n, v in prog.cls(f'{FRAME}:Join.Kind').assigns.items() if n.isupper()]
    ctx.floor('C14.outer-kinds', len(kinds), 4)
    if not prog.has_func(f'{PARSER}:Visitor._outer_joined'):
        ctx.fail('C14.outer-kinds', f'{PARSER}:Visitor', 'the helper deciding which joins are outer (Visitor._outer_joined) is gone: the push-down decision cannot be established for every join kind', key='outer:helper')
        return
    helper = prog.func(f'{PARSER}:Visitor._outer_joined')
    for k in kinds:
        says = _helper_says_outer(prog, helper, k)
        want = k not in ('INNER', 'CROSS')
        ctx.check(says is want, 'C14.outer-kinds', helper, f'a {k} join counts as {"outer" if want else "inner"} for the push-down decision (helper folds to {says})', helper.node, key=f'outer:{k}')


def kind_guards(ctx) -> None:
    prog = ctx.prog
    tenv_ = types.TypeEnv(prog)
    resolver = calls.Resolver(prog)
    visitor = prog.cls(f'{PARSER}:Visitor')
    n = 0
    for mname in visitor.methods:
        fn = prog.func(f'{visitor.ref}.{mname}')
        for c in core.calls_in(fn.node):
            if not (isinstance(c.func, ast.Attribute) and c.func.attr == 'filter' and 'tables' in (core.dotted(c.func) or '')):
                continue
            n += 1
            gs = cfg.guards(c, fn.node)
            texts = [(core.src(t), pol) for t, pol in gs]
            arg = core.src(c.args[0]) if c.args else ''
            if arg.endswith('.condition'):
                inner = any(pol and 'kind' in t and 'INNER' in t and ('is ' in t or '==' in t or ' in ' in t) and 'not' not in t for t, pol in texts)
                inner = inner or any((not pol) and 'kind' in t and 'INNER' in t and ('is not' in t or '!=' in t) for t, pol in texts)
                helper = False
                for g, pol in gs:
                    if isinstance(g, ast.Call) and isinstance(g.func, ast.Attribute) and isinstance(g.func.value, ast.Name) and g.func.value.id in ('self', 'cls') and fn.cls:
                        found = fn.cls.lookup(g.func.attr)
                        if found and isinstance(found[1], core.FUNC):
                            hf = prog.func(f'{found[0].ref}.{g.func.attr}')
                            left, innerv = _helper_says_outer(prog, hf, 'LEFT'), _helper_says_outer(prog, hf, 'INNER')
                            # filter() must sit in the arm taken when the helper says "not outer"
                            if left is True and innerv is False and pol is False and core.src(g.args[0]) in ('source', arg.rsplit('.', 1)[0]):
                                helper = True
                # an explicit test of this join's own kind is enough only if the operands are inspected as well
                operands = any('left' in t and 'right' in t for t, _ in texts)
                ctx.check((inner and operands) or helper, 'C14.kind-guard', fn, 'a join condition is registered as a row filter only when this join and every join nested in its operands is inner: outer joins preserve unmatched rows (also below an inner join stacked on top)', c, key=f'{mname}:condition-filter')
            else:
                reads_kind = any(_reads_join_kind(prog, resolver, fn, g, 2) for g, _ in gs)
                # polarity: with an outer (LEFT) join in the source the filter branch must be infeasible, with INNER feasible
                for g, pol in gs:
                    calls_in_g = [x for x in ast.walk(g) if isinstance(x, ast.Call)]
                    for hc in calls_in_g:
                        callee = None
                        if isinstance(hc.func, ast.Attribute) and isinstance(hc.func.value, ast.Name) and hc.func.value.id in ('self', 'cls') and fn.cls:
                            found = fn.cls.lookup(hc.func.attr)
                            if found and isinstance(found[1], core.FUNC):
                                callee = prog.func(f'{found[0].ref}.{hc.func.attr}')
                        if callee is None:
                            continue
                        # the helper must be asked about something that *can* be a join: applied to a value whose static type
                        # is unrelated to every class the helper discriminates on (a Query is never a Join/Reference), it is a
                        # constant and the guard is vacuous
                        if hc.args:
                            try:
                                at = types.strip_opt(tenv_.expr_type(fn, hc.args[0], tenv_.locals(fn)))
                            except Exception:
                                at = None
                            ac = prog.classes.get(at[1]) if at and at[0] == 'cls' else None
                            hparam = callee.param_names[1] if len(callee.param_names) > 1 else None
                            tested = []
                            for x in ast.walk(callee.node):
                                if isinstance(x, ast.Call) and core.call_name(x) == 'isinstance' and len(x.args) == 2 and core.src(x.args[0]) == hparam:
                                    for t_ in (x.args[1].elts if isinstance(x.args[1], ast.Tuple) else [x.args[1]]):
                                        r_ = prog.resolve_expr(callee, t_)
                                        if isinstance(r_, core.ClassInfo):
                                            tested.append(r_)
                            if ac is not None and tested:
                                related = any(ac is k or ac.is_subclass_of(k) or k.is_subclass_of(ac) for k in tested)
                                ctx.check(related, 'C14.kind-guard', fn, f'`{core.src(hc)}` asks about a {ac.name}, which can never be one of {[k.name for k in tested]}: the outer-join guard is vacuous (it must inspect the queried source)', hc, key=f'{mname}:guard-subject')
                        verdicts = {}
                        for kind in ('LEFT', 'INNER'):
                            verdicts[kind] = _helper_says_outer(prog, callee, kind)
                        if None in verdicts.values():
                            continue
                        # guard value for a LEFT join must route away from filter()
                        guard_left = verdicts['LEFT'] if isinstance(g, ast.Call) else (not verdicts['LEFT'] if isinstance(g, ast.UnaryOp) else None)
                        if guard_left is None:
                            continue
                        taken_for_left = (guard_left == pol)
                        ctx.check(verdicts['LEFT'] is True and verdicts['INNER'] is False and not taken_for_left, 'C14.kind-guard', fn, f'the where-filter branch is not taken when the source involves an outer join (helper says outer for LEFT={verdicts["LEFT"]}, INNER={verdicts["INNER"]})', c, key=f'{mname}:where-filter:polarity')
                ctx.check(
                    reads_kind, 'C14.kind-guard', fn,
                    f'`{arg}` factors become table row filters without consulting the kinds of the joins in the query source (unsafe on the null-supplying side of an outer join)',
                    c, key=f'{mname}:where-filter',
                )
    ctx.floor('C14.kind-guard', n, 2)


def alias_rule(ctx) -> None:
    """Row filters are keyed by the bare table: the scan of that table reached through a reference (alias, self-join)
    must not inherit them.  visit_reference brackets its descent with a marker, visit_table consults it."""
    prog = ctx.prog
    vt = prog.func(f'{PARSER}:Visitor.visit_table')
    defs = [s for s in core.walk_local(vt.node) if isinstance(s, ast.Assign) and core.src(s.targets[0]) == 'predicate' and '.predicate' in core.src(s.value)]
    ok = False
    marker = None
    for d in defs:
        conds = [core.src(t) for t, pol in cfg.guards(d, vt.node, siblings=False)]
        if isinstance(d.value, ast.IfExp):
            conds.append(core.src(d.value.test))
        for c in conds:
            if c.startswith('not self.context.'):
                ok, marker = True, c[len('not self.context.'):]
    ctx.check(ok, 'C14.alias', vt, 'visit_table offers the row filter of the bare table only when the table is not scanned under a reference', defs[0] if defs else vt.node, key='visit_table:alias-guard')
    vr = prog.func(f'{PARSER}:Visitor.visit_reference')
    graph = cfg.CFG(vr.node)
    sup = [s for s in graph.statements() if any(core.call_tail(c) == 'visit_reference' and isinstance(c.func, ast.Attribute) and core.src(c.func.value) == 'super()' for c in cfg.header_calls(s))]
    incs = [s for s in graph.statements() if isinstance(s, ast.AugAssign) and isinstance(s.op, ast.Add) and marker and core.src(s.target) == f'self.context.{marker}']
    decs = [s for s in graph.statements() if isinstance(s, ast.AugAssign) and isinstance(s.op, ast.Sub) and marker and core.src(s.target) == f'self.context.{marker}']
    in_finally = all(any(isinstance(a, ast.Try) and d in a.finalbody for a in core.ancestors(d)) for d in decs) and bool(decs)
    ok2 = len(sup) == 1 and len(incs) == 1 and graph.dominates(incs[0], sup[0]) and in_finally
    ctx.check(ok2, 'C14.alias', vr, 'visit_reference marks the descent into the referenced source (set before, reset in finally)', vr.node, key='visit_reference:bracket')


def run(ctx) -> None:
    # nothing is computed from a loop variable after its loop ran to completion (it would be the last element's value)
    shared.r_staleloop(ctx, ctx.prog.functions([m for m in ctx.prog.modules if m.startswith(('forml.io.dsl', 'forml.provider.feed'))]))
    prog = ctx.prog
    tenv = types.TypeEnv(prog)
    registration(ctx)
    lazy_columns(ctx)
    alias_rule(ctx)
    from . import C06

    C06.context_caches(ctx)
    n = shared.r_element(ctx, [
        f'{PARSER}:Container.Context.Tables.select', f'{SERIES}:Predicate.Factors.__init__',
        f'{SERIES}:Comparison.factors', f'{SERIES}:Not.factors',
    ])
    ctx.floor('R-ELEMENT', n, 3)
    merge_case_split(ctx)
    nne = shared.r_nebool(ctx, tenv, list(prog.functions([m for m in prog.modules if m.startswith(('forml.io.dsl', 'forml.provider.feed'))])))
    ctx.floor('R-NEBOOL.contexts', nne, 100)
    nrep = shared.r_repreq(ctx, list(prog.functions([m for m in prog.modules if m.startswith(('forml.io.dsl', 'forml.provider.feed'))])))
    ctx.floor('R-REPREQ.functions', nrep, 300)
    logical_factors(ctx)
    kind_guards(ctx)
    mods = [m for m in prog.modules if m.startswith((PARSER, LAZY, 'forml.io.dsl._struct.series'))]
    shared.r_truthy(ctx, tenv, prog.functions(mods), rule='R-TRUTHY', select=lambda fn, e, t: not shared.is_native(t))
    shared.argname_scope(ctx, ('forml.io.dsl.parser', 'forml.provider.feed.lazy'), floor=2)
    outer_kinds(ctx)
