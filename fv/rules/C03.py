"""C03 - operator composition realises train/apply coherence for every expression (DESIGN.md section 4/C03)."""
from __future__ import annotations

import ast

from .. import cfg, core, roles
from ..roles import APPLY, LABEL, TRAIN, Role
from . import shared

EXPLANATION = (
    'Static decision of C03 by role typing of every wiring method of the operator library (abstract interpretation of the '
    'compose implementations over trunks / segments / worker groups / publishers, fv/roles.py): T1 every worker.train(f, l) gets '
    'TRAIN-mode features and LABEL-mode labels produced by the path preceding the operator (left.train / left.label, or the '
    'operator\'s own label actor once it exists); T2 the segments handed to Trunk.extend / use / Trunk(...) carry data of '
    'their own mode; T3 stateful twin rule - the applier placed in the train path and the one in the apply path are forks '
    'of the group whose (single) trained fork is fed by the preceding train path, and a trained fork publishes nothing; an '
    'expanded trunk segment is subscribed at most once; scope discipline - Compound.compose extends scope.expand() with '
    'self.expand(), Compound.expand is right.compose(left), Operator.expand is compose(Origin()), Origin is the empty trunk; '
    'Trunk.extend/use/__new__ and Segment.extend/copy keep modes and port indices (the segment copy wires publisher output i '
    'to the subscriber\'s own input port). The denotation of compiled segments for arbitrary user-written operators is not '
    'decided.'
)
ASSUMPTIONS = ['the abstract semantics of the flow API in fv/roles.py (Worker/fork/train/subscribe/extend/use/expand)']
MANIFEST = {
    'level': 'Abstract interpretation (role typing) of all library wiring code plus exact structural rules on the four '
             'composition primitives every expression is built from. Coherence for every expression tree follows by induction '
             'over the expression from per-operator coherence and the scope discipline of Compound/Origin - both decided here.',
    'note': 'Trusted: stdlib ast; abstract flow-API semantics. Not decided: user-written operators outside forml/, the '
            'denotational equivalence of compiled segments.',
    'technique': 'static analysis: abstract interpretation / typestate over worker groups (role typing), def-use argument '
                 'agreement on composition primitives, ordering rule for the label switch',
}

MEMBER = 'forml.flow._suite.member'
ASSEMBLY = 'forml.flow._suite.assembly'
SPAN = 'forml.flow._graph.span'
WRAP = 'forml.pipeline.wrap._operator'
GENERIC = 'forml.pipeline.payload._generic'
STACK = 'forml.pipeline.ensemble._stacking'
DEBUG = 'forml.pipeline.payload._debug'
STAGE = 'forml.evaluation._stage'
EXTRACT = 'forml.io._input.extract'
COMMIT = 'forml.io._output.commit'

# operators whose trained worker has deliberately no applier twin (one line of reason each)
NO_TWIN_OK = {
    f'{DEBUG}:Dump.compose': 'the train-mode dumper only writes the train set to a file; it exports no state',
    f'{DEBUG}:Sniff.compose': 'the train-mode captor only captures the train set; it exports no state',
}


# operator -> {builder expression of a trained worker group: number of trainer sites} (confirmed by reading; a deleted trainer
# is a violation, a *new* trained group is judged by T1/T3 as before)
TRAINED = {
    f'{STACK}:Ensembler.compose': {'self._splitter': 1},
    f'{DEBUG}:Dump.compose': {'self._train(self._instances)': 1},
    f'{DEBUG}:Sniff.compose': {'self.Captor.builder(self._client)': 1},
    f'{GENERIC}:MapReduce.compose': {'mapper': 1},
    f'{WRAP}:Operator.compose': {'builder.update(*self._args, **self._kwargs)': 3},
}


SEPARATE_GROUPS_OK = {
    f'{DEBUG}:Sniff.compose': 'the apply-mode and train-mode captors are independent sinks, each with its own captured value',
}


def _atoms(text: str, pol: bool = True) -> list[tuple[str, bool]]:
    """Conjunctive atoms of a guard text with their polarity (``not`` peeled; a negated conjunction is kept whole)."""
    try:
        node = ast.parse(text, mode='eval').body
    except SyntaxError:
        return [(text, pol)]

    def walk(n: ast.AST, p: bool) -> list[tuple[str, bool]]:
        if isinstance(n, ast.UnaryOp) and isinstance(n.op, ast.Not):
            return walk(n.operand, not p)
        if isinstance(n, ast.BoolOp) and (isinstance(n.op, ast.And) if p else isinstance(n.op, ast.Or)):
            return [a for v in n.values for a in walk(v, p)]
        return [(core.src(n), p)]

    return walk(node, pol)


def _short(r: Role) -> str:
    return r.short()


def connected(ctx, fn, it, R, rule: str = 'C03.T5') -> int:
    """Every worker that takes part in the flow (its output is subscribed to, or it is handed to extend/use/Trunk/Segment)
    has its input ports fed: each port 0..szin-1 for a constant arity, at least one loop-indexed subscription for a symbolic
    arity.  Trainer forks are fed through train(); source workers (szin 0) have nothing to feed.  Returns #workers checked."""
    events = it.events
    trained = {id(e.data['worker']) for e in events if e.kind == 'train'}
    returned = set()
    for val, _ in it.returned:
        for v in (val.elts if isinstance(val, roles.VTuple) else [val]):
            if isinstance(v, roles.VWorker):
                returned.add(id(v))
    n = 0
    for w in it.workers:
        if id(w) in trained:
            continue
        consumed = any(e.kind == 'subscribe' and isinstance(e.data['pub'], roles.VPub) and e.data['pub'].kind == 'port' and e.data['pub'].ref.worker is w for e in events)
        passed = any(e.kind in ('trunk-extend', 'trunk', 'trunk-use', 'seg-extend') and any(v is w for v in list(e.data.get('args', {}).values()) + [e.data.get('tail'), e.data.get('right')]) for e in events)
        if not (consumed or passed or id(w) in returned):
            continue
        szin = w.group.szin
        if isinstance(szin, roles.VInt) and szin.var is None and szin.b == 0:
            continue
        keys = [k for k, _ in R.worker_inputs(w)]
        n += 1
        if isinstance(szin, roles.VInt) and szin.var is None:
            missing = [i for i in range(szin.b) if (0, None, i) not in keys and not any(k is not None and k[1] is not None for k in keys)]
            ctx.check(not missing, rule, fn, f'{w!r} takes part in the flow but its input port(s) {missing} are never subscribed', w.node, key=f'T5:{core.stmt_key(w.node)}')
        else:
            ctx.check(bool(keys), rule, fn, f'{w!r} (arity {szin!r}) takes part in the flow but none of its input ports is subscribed', w.node, key=f'T5:{core.stmt_key(w.node)}')
    return n


def operators(ctx) -> None:
    prog = ctx.prog
    composable = prog.cls(f'{MEMBER}:Composable')
    targets = []
    for ci in prog.subclasses(composable):
        if 'compose' in ci.methods and ci.ref not in (f'{MEMBER}:Origin', f'{MEMBER}:Compound', 'forml.flow._suite.clean:Stateless'):
            targets.append(prog.func(f'{ci.ref}.compose'))
    ctx.floor('C03.compose-methods', len(targets), 10)
    ntrain = nsub = nconn = nvoid = 0
    for fn in sorted(targets, key=lambda f: f.ref):
        it = roles.interpret(prog, fn)
        R = roles.Roles(it, {'features': Role(TRAIN, 'WHOLE'), 'labels': Role(LABEL, 'WHOLE')})
        if it.incomplete:
            ctx.fail('C03.roles', fn, f'wiring construct outside the interpreter vocabulary: {it.incomplete}', fn.node, key='incomplete')
            continue
        events = it.events
        label_workers = []  # workers passed as `label` to Trunk.extend
        for e in events:
            if e.kind == 'trunk-extend' and isinstance(e.data['args'].get('label'), roles.VWorker):
                label_workers.append(e.data['args']['label'])
        # T1
        for e in [e for e in events if e.kind == 'train']:
            ntrain += 1
            fr, lr = R.role(e.data['features']), R.role(e.data['labels'])
            ok = fr.mode == TRAIN and lr.mode == LABEL and fr.part == lr.part and (fr.part == 'WHOLE' or (isinstance(fr.part, tuple) and fr.part[0] == 'FOLD_TRAIN'))
            ctx.check(ok, 'C03.T1', fn, f'train(features={_short(fr)}, labels={_short(lr)}): a trainer is fed the TRAIN features and LABEL labels of one and the same part', e.node, key=f'T1:{core.stmt_key(e.node)}')
            # the operator's own label actor, once present, provides the labels of later trainers
            lw = [w for w in label_workers if w.group is not e.data['worker'].group]
            if lw and not any('Label' in g for g in e.guards):
                lp = e.data['labels']
                uses_own = isinstance(lp, roles.VPort) and lp.worker in lw or (isinstance(lp, roles.VPub) and lp.kind == 'port' and lp.ref.worker in lw)
                ctx.check(uses_own, 'C03.T1', fn, 'an operator with its own label actor trains its other actors on the transformed labels (label_publisher switched to the label actor output before they are built)', e.node, key=f'label-switch:{[g for g in e.guards if g.startswith("self.")]}')
        # T4: a trainer fork conditional on statefulness exists exactly when the actor IS stateful
        for e in [e for e in events if e.kind == 'train']:
            for gtext in e.guards:
                for atom, pol in _atoms(gtext):
                    if 'stateful' in atom:
                        ctx.check(pol, 'C03.T4', fn, f'the trainer fork is created for stateful actors (guard atom `{atom}` must hold positively)', e.node, key=f'T4:{atom}')
                    if atom.endswith('.derived'):
                        ctx.check(not pol, 'C03.T4', fn, 'a derived (pre-trained) worker gets no trainer fork', e.node, key=f'T4:{atom}')
        # T3 twin rule per trained group
        for e in [e for e in events if e.kind == 'train']:
            g = e.data['worker'].group
            trained = e.data['worker']
            others = [w for w in g.members if w is not trained]
            used = []
            for w in others:
                ins = R.worker_inputs(w)
                passed = any(ev.kind in ('trunk-extend', 'trunk', 'trunk-use', 'seg-extend') and any(v is w for v in list(ev.data.get('args', {}).values()) + [ev.data.get('tail'), ev.data.get('right')]) for ev in events)
                if ins or passed:
                    used.append(w)
            pubs_from_trained = [ev for ev in events if ev.kind == 'subscribe' and isinstance(ev.data['pub'], roles.VPub) and ev.data['pub'].kind == 'port' and ev.data['pub'].ref.worker is trained]
            ctx.check(not pubs_from_trained, 'C03.T3', fn, 'a trained fork publishes nothing', e.node, key=f'T3:silent:{core.stmt_key(e.node)}')
            if fn.ref in NO_TWIN_OK:
                ctx.ok('C03.T3', fn, f'trained worker without applier twin: {NO_TWIN_OK[fn.ref]}', e.node)
                continue
            ctx.check(bool(used), 'C03.T3', fn, 'the trained worker is a fork of the group of the applier(s) wired into the flow (otherwise the freshly trained state never reaches an applier)', e.node, key=f'T3:twin:{core.stmt_key(e.node)}')
            ctx.check(trained.forked_from is not None or any(w.forked_from is trained for w in others), 'C03.T3', fn, 'trainer and appliers are related by fork()', e.node, key=f'T3:fork:{core.stmt_key(e.node)}')
            ntr = [ev for ev in events if ev.kind == 'train' and ev.data['worker'].group is g]
            ctx.check(len(ntr) == 1, 'C03.T3', fn, 'exactly one fork of a group is trained', e.node, key=f'T3:one:{core.stmt_key(e.node)}')
        # T2: modes of what is handed to extend/use/Trunk
        for e in [e for e in events if e.kind in ('trunk-extend', 'trunk-use', 'trunk')]:
            for mode, v in e.data['args'].items():
                if v is None or isinstance(v, roles.VUnknown):
                    continue
                nsub += 1
                want = roles.MODE[mode]
                if isinstance(v, roles.VWorker):
                    if e.kind == 'trunk-extend':
                        # the worker is subscribed to the segment of `mode`; it must be the one built for that mode
                        gs = [g for g in v.guards if g.startswith('self.')]
                        named = [g.split('.')[-1].lower() for g in gs]
                        okm = (not named) or named[-1] == mode
                        ctx.check(okm, 'C03.T2', fn, f'the worker handed to extend({mode}=...) is the one built for the {mode} path (built under {gs})', e.node, key=f'T2:{mode}:worker')
                    continue
                if isinstance(v, roles.VSeg):
                    root = v.root()
                    if root.trunk is not None and root.trunk.origin in ('expand', 'head') and root.copy_of is None:
                        ctx.check(root.mode == mode, 'C03.T2', fn, f'{e.kind.split("-")[-1]}({mode}=...) receives a segment rooted in the {root.mode} segment', e.node, key=f'T2:{mode}:segment')
                    # the tail of an extended segment must carry data of that mode
                    ext = [ev for ev in events if ev.kind == 'seg-extend' and ev.data['result'] is v]
                    for x in ext:
                        tail = x.data.get('tail')
                        if isinstance(tail, roles.VWorker):
                            rs = [R.role(p) for _, p in R.worker_inputs(tail)]
                            modes = {r.mode for r in rs if r.mode}
                            if modes:
                                ctx.check(modes == {want} or (want == LABEL and modes <= {LABEL, TRAIN}), 'C03.T2', fn, f'the tail closing the {mode} segment is fed {sorted(modes)} data', x.node, key=f'T2:{mode}:tail')
        # T6: the trainers confirmed on the pinned tree are still there (a stateful actor without its trainer fork keeps
        # serving an untrained / stale state; with the trainer gone no other rule has an event to look at)
        have = {}
        for e in [e for e in events if e.kind == 'train']:
            b = e.data['worker'].group.builder
            have[b] = have.get(b, 0) + 1
        for b, cnt in TRAINED.get(fn.ref, {}).items():
            ctx.check(have.get(b, 0) >= cnt, 'C03.T6', fn, f'the worker group built from `{b}` is trained ({have.get(b, 0)} trainer site(s), {cnt} confirmed on the pinned tree)', fn.node, key=f'T6:{b}')
        # T7: one worker group per builder: state is shared by the forks of ONE group - two Worker(builder, ...) constructions
        # of the same builder are two unrelated groups (the second never sees what the first was trained to)
        byb = {}
        for w in it.workers:
            byb.setdefault(w.group.builder, {})[id(w.group.node)] = w.group  # one entry per construction *site* (an inlined helper re-uses its site)
        for b, gs in byb.items():
            if len(gs) > 1:
                if fn.ref in SEPARATE_GROUPS_OK:
                    ctx.ok('C03.T7', fn, f'`{b}` builds {len(gs)} separate groups: {SEPARATE_GROUPS_OK[fn.ref]}', fn.node)
                else:
                    g2 = list(gs.values())[1]
                    ctx.fail('C03.T7', fn, f'the builder `{b}` is instantiated as {len(gs)} separate worker groups: the appliers of the train and apply paths must be forks of one group to share the trained state', g2.node, key=f'T7:{b}')
        # T8: the flow API is functional - Segment.extend / Trunk.extend / Trunk.use / expand return a *new* object and leave
        # the receiver alone, so a call whose result is dropped wires nothing; and a worker that is fed but whose output
        # nobody receives (not subscribed to, not handed to an extension, not returned) computes into the void
        for e in [e for e in events if e.kind in ('seg-extend', 'trunk-extend', 'trunk-use')]:
            st = core.enclosing_stmt(e.node)
            nvoid += 1
            ctx.check(not (isinstance(st, ast.Expr) and st.value is e.node), 'C03.T8', fn, f'the result of {core.src(e.node)[:60]} is used (extend/use return a new segment/trunk, the receiver is not changed)', e.node, key=f'T8:discard:{e.kind}')
        trained_ids = {id(e.data['worker']) for e in events if e.kind == 'train'}
        returned_ids = set()
        for val, _ in it.returned:
            for v in (val.elts if isinstance(val, roles.VTuple) else [val]):
                returned_ids.add(id(v))
        consumed_results = set()
        for ev in events:
            if ev.kind in ('trunk-extend', 'trunk', 'trunk-use'):
                consumed_results |= {id(v) for v in ev.data.get('args', {}).values()}
            if ev.kind == 'seg-extend':
                consumed_results |= {id(ev.data.get('seg')), id(ev.data.get('right'))}
        for w in it.workers:
            if id(w) in trained_ids or not R.worker_inputs(w):
                continue
            szout = w.group.szout if hasattr(w.group, 'szout') else None
            if isinstance(szout, roles.VInt) and szout.var is None and szout.b == 0:
                continue
            consumed = any(ev.kind == 'subscribe' and isinstance(ev.data['pub'], roles.VPub) and ev.data['pub'].kind == 'port' and ev.data['pub'].ref.worker is w for ev in events)
            live_ext = any(ev.kind == 'seg-extend' and (ev.data.get('tail') is w or ev.data.get('right') is w) and (id(ev.data['result']) in consumed_results or id(ev.data['result']) in returned_ids) for ev in events)
            direct = any(ev.kind in ('trunk-extend', 'trunk', 'trunk-use') and any(v is w for v in ev.data.get('args', {}).values()) for ev in events)
            other = any(ev.kind in ('self-call',) and (any(v is w for v in ev.data.get('args', [])) or any(v is w for v in ev.data.get('kwargs', {}).values())) for ev in events)
            if not consumed:
                # a subscriber outside the interpreter's vocabulary (a Future placeholder): any X.subscribe(<w>[i]) counts
                wst = core.enclosing_stmt(w.node)
                wname = wst.targets[0].id if isinstance(wst, ast.Assign) and len(wst.targets) == 1 and isinstance(wst.targets[0], ast.Name) else None
                consumed = wname is not None and any(isinstance(c.func, ast.Attribute) and c.func.attr == 'subscribe' and c.args and isinstance(c.args[0], ast.Subscript) and isinstance(c.args[0].value, ast.Name) and c.args[0].value.id == wname for c in core.calls_in(fn.node))
            nvoid += 1
            ctx.check(consumed or live_ext or direct or other or id(w) in returned_ids, 'C03.T8', fn, f'{w!r} is fed but its output reaches nobody: not subscribed to, not the tail of a segment that is used, not returned', w.node, key=f'T8:void:{core.stmt_key(w.node)}')
        # T5: no dangling input - a worker whose output is consumed (or that is handed to extend/use/Trunk) has every input fed
        nconn += connected(ctx, fn, it, R)
        # sharing: a segment of an expanded trunk is subscribed at most once
        for key, evs in R.subs.items():
            if key[0] == 'seg':
                segs = {id(ev.data['target'].root()): ev.data['target'].root() for ev in evs}
                for s in segs.values():
                    if s.trunk is not None and s.trunk.origin == 'expand' and s.copy_of is None:
                        ctx.check(len(evs) <= 1, 'C03.sharing', fn, f'segment {s!r} of an expanded scope is subscribed once (a second subscription would feed one graph from two publishers)', evs[-1].node, key=f'sharing:{s.mode}')
        ctx.sample({'operator': fn.ref, 'events': {k: sum(1 for e in events if e.kind == k) for k in ('expand', 'worker', 'train', 'subscribe', 'trunk-extend', 'trunk-use', 'trunk')}})
    ctx.floor('C03.train-sites', ntrain, 6)
    ctx.floor('C03.connected-workers', nconn, 12)
    ctx.floor('C03.segment-args', nsub, 12)
    ctx.floor('C03.used-results', nvoid, 20)


def wrap_label_order(ctx) -> None:
    """In wrap.Operator.compose the label actor is built (and label_publisher switched) before the apply/train actors."""
    prog = ctx.prog
    fn = prog.func(f'{WRAP}:Operator.compose')
    graph = cfg.CFG(fn.node)
    sw = [s for s in graph.statements() if isinstance(s, ast.Assign) and core.src(s.targets[0]) == 'label_publisher' and core.src(s.value) != 'left.label.publisher']
    builds = [s for s in graph.statements() if isinstance(s, ast.Assign) and isinstance(s.value, ast.Call) and core.src(s.value.func) == 'build' and core.src(s.value.args[0]) in ('self.Apply', 'self.Train')]
    ctx.check(len(sw) == 1 and len(builds) == 2 and not any(graph.reaches(b, sw[0]) for b in builds), 'C03.label-order', fn, 'the label switch precedes the construction of the apply/train actors on every path', sw[0] if sw else fn.node, key='label-before-apply-train')
    if sw:
        ctx.check(core.src(sw[0].value) == 'label[0]' and any(core.src(t) == 'self.Label' and pol for t, pol in cfg.guards(sw[0], fn.node, siblings=False)), 'C03.label-order', fn, 'with a label actor, downstream labels are its output', sw[0], key='label-switch')
    ret = next((r for r in core.walk_local(fn.node) if isinstance(r, ast.Return)), None)
    ctx.check(ret is not None and core.src(ret.value) == 'left.extend(apply, train, label)', 'C03.label-order', fn, 'the three actors extend the segments of their own mode', ret or fn.node, key='extend-args')
    b = fn.nested('build')
    text = core.src(b.node)
    ctx.check('worker.fork().train(left.train.publisher, label_publisher)' in text and 'worker.stateful and (not worker.derived)' in text, 'C03.label-order', b, 'a stateful actor gets exactly one trainer fork per group, fed by the preceding train path', b.node, key='build:trainer')
    ctx.check('groups.setdefault(id(builder)' in text and '.fork()' in text, 'C03.label-order', b, 'actors built from one builder share one group (apply and train twins)', b.node, key='build:group')


def copy_ports(ctx) -> None:
    """Traversal.copy re-creates every subscription inside the copied segment between the copies of the same nodes on the
    same ports: output port i of the copied publisher -> the subscriber's *own* input port."""
    prog = ctx.prog
    # Traversal.copy: publisher output index i -> subscriber's own input port
    tc = prog.func(f'{SPAN}:Traversal.copy')
    gen = next((n for n in ast.walk(tc.node) if isinstance(n, ast.GeneratorExp) and isinstance(n.elt, ast.Tuple) and len(n.elt.elts) == 2), None)
    ok = False
    if gen is not None:
        pub, sub = [core.src(e) for e in gen.elt.elts]
        enum = next((g for g in gen.generators if core.src(g.iter).startswith('enumerate(') and '.output' in core.src(g.iter)), None)
        inner = next((g for g in gen.generators if isinstance(g.target, ast.Name) and enum is not None and core.src(g.iter) == core.src(enum.target.elts[1])), None) if enum is not None else None
        if enum is not None and inner is not None:
            o = core.src(enum.iter)[len('enumerate('):-len('.output)')]
            i, s = core.src(enum.target.elts[0]), core.src(inner.target)
            ok = pub == f'get({o})[{i}]' and sub == f'get({s}.node)[{s}.port]'
    if gen is not None and ok:
        ifs = [core.src(c) for g_ in gen.generators for c in g_.ifs]
        s_ = core.src(inner.target)
        conj = len(ifs) == 1 and isinstance(gen.generators[-1].ifs[0], ast.BoolOp) and isinstance(gen.generators[-1].ifs[0].op, ast.And) and not any(isinstance(b, ast.BoolOp) and isinstance(b.op, ast.Or) for b in ast.walk(gen.generators[-1].ifs[0]))
        terms = [core.src(v) for v in gen.generators[-1].ifs[0].values] if conj else []
        ctx.check(conj and f'{s_}.node in t.members' in terms, 'C03.copy', tc, f'only subscriptions whose subscriber lies inside the copied segment are re-created (conjunctive filter {ifs})', gen, key='Traversal.copy:members-only')
    ctx.check(ok, 'C03.copy', tc, 'the copy connects output port i of the copied publisher to the subscriber\'s own input port (get(o)[i] -> get(s.node)[s.port])', gen or tc.node, key='Traversal.copy:ports')
    ctx.check('copies.get(node) or copies.setdefault(node, node.fork())' in core.src(tc.node), 'C03.copy', tc, 'copied nodes are forks (same group => same state) created once per node', tc.node, key='Traversal.copy:fork')


def primitives(ctx) -> None:
    prog = ctx.prog
    cc = prog.func(f'{MEMBER}:Compound.compose')
    ctx.check(core.src(cc.inlined().node.body[-1]) == 'return scope.expand().extend(*self.expand())', 'C03.scope', cc, 'Compound.compose = scope.expand() extended by the own expansion (explicit scoping is preserved)', cc.node, key='Compound.compose')
    ce = prog.func(f'{MEMBER}:Compound.expand')
    ctx.check(core.src(ce.body[-1]) == 'return self._right.compose(self._left)', 'C03.scope', ce, 'Compound.expand = right.compose(left)', ce.node, key='Compound.expand')
    ci = prog.func(f'{MEMBER}:Compound.__init__')
    ctx.check('self._right: \'flow.Composable\' = right' in core.src(ci.node) and 'self._left: \'flow.Composable\' = left' in core.src(ci.node), 'C03.scope', ci, 'left/right are stored under their own names', ci.node, key='Compound.__init__')
    rs = prog.func(f'{MEMBER}:Composable.__rshift__')
    ctx.check(core.src(rs.body[-1]) == 'return Compound(right, self)', 'C03.scope', rs, 'a >> b builds Compound(right=b, left=a)', rs.node, key='rshift')
    oe = prog.func(f'{MEMBER}:Operator.expand')
    ctx.check(core.src(oe.body[-1]) == 'return self.compose(Origin())', 'C03.scope', oe, 'Operator.expand = compose(Origin())', oe.node, key='Operator.expand')
    oc, ox = prog.func(f'{MEMBER}:Origin.compose'), prog.func(f'{MEMBER}:Origin.expand')
    ctx.check(core.src(oc.body[-1]) == 'return scope.expand()' and core.src(ox.body[-1]) == 'return assembly.Trunk()', 'C03.scope', oc, 'Origin composes to its scope and expands to the empty trunk', oc.node, key='Origin')
    # Trunk primitives keep the mode order
    te = prog.func(f'{ASSEMBLY}:Trunk.extend')
    ret = next((r for r in core.walk_local(te.node) if isinstance(r, ast.Return)), None)
    want = [f'self.{m}.extend({m}) if {m} else self.{m}' for m in ('apply', 'train', 'label')]
    ctx.check(ret is not None and [core.src(a) for a in ret.value.args] == want, 'C03.trunk', te, 'Trunk.extend extends each segment with the argument of its own mode', ret or te.node, key='Trunk.extend')
    tu = prog.func(f'{ASSEMBLY}:Trunk.use')
    ret = next((r for r in core.walk_local(tu.node) if isinstance(r, ast.Return)), None)
    ctx.check(ret is not None and [core.src(a) for a in ret.value.args] == [f'{m} or self.{m}' for m in ('apply', 'train', 'label')], 'C03.trunk', tu, 'Trunk.use replaces each segment by the argument of its own mode', ret or tu.node, key='Trunk.use')
    tn = prog.func(f'{ASSEMBLY}:Trunk.__new__')
    ret = next((r for r in core.walk_local(tn.node) if isinstance(r, ast.Return) and '__new__' in core.src(r.value)), None)
    ctx.check(ret is not None and [core.src(a) for a in ret.value.args[1:]] == ['init(apply)', 'init(train)', 'init(label)'], 'C03.trunk', tn, 'Trunk stores (apply, train, label) in field order', ret or tn.node, key='Trunk.__new__')
    tr = prog.cls(f'{ASSEMBLY}:Trunk')
    ctx.check(list(tr.annotations)[:3] == ['apply', 'train', 'label'], 'C03.trunk', tr.ref, 'Trunk fields are (apply, train, label)', key='Trunk:fields', loc=tr.module.relpath)
    se = prog.func(f'{SPAN}:Segment.extend')
    text = core.src(se.node)
    ctx.check('right.subscribe(self.publisher)' in text and 'return Segment(self._head, tail)' in text and 'tail = right._tail' in text, 'C03.trunk', se, 'Segment.extend feeds the right head from our tail and keeps our head', se.node, key='Segment.extend')
    segment_extend(ctx, se)
    sp = prog.func(f'{SPAN}:Segment.publisher')
    ss = prog.func(f'{SPAN}:Segment.subscribe')
    ctx.check('self._tail[0].publisher' in core.src(sp.node) and 'self._head[0].subscribe(publisher)' in core.src(ss.node), 'C03.trunk', sp, 'a segment publishes from its tail and subscribes with its head', sp.node, key='Segment.io')
    sc = prog.func(f'{SPAN}:Segment.copy')
    ctx.check('copies = Traversal(self._head).copy(self._tail)' in core.src(sc.node) and 'return Segment(copies[self._head], copies[self._tail])' in core.src(sc.node), 'C03.trunk', sc, 'a segment copy spans the copies of its own head and tail', sc.node, key='Segment.copy')
    copy_ports(ctx)
    tc = prog.func(f'{SPAN}:Traversal.copy')
    # the path enumeration is complete: every path from the pivot to the tail is yielded - no pruning of nodes already met on
    # another path (a path reaching an explored node still contributes its own prefix to the copy)
    sg = tc.nested('segments')
    t = sg.param_names[0]
    hit = (f'{t}.pivot == tail', True)
    shared.stmt_under(ctx, 'C03.copy', sg, f'yield {t}', [hit], 'a traversal that reached the tail is one path of the copy', 'segments:yield', siblings=False)
    rec = [x for x in core.walk_local(sg.node) if isinstance(x, ast.Expr) and isinstance(x.value, ast.YieldFrom)]
    okr = len(rec) == 1 and cfg.cguards(rec[0], sg.node) == [(hit[0], False)]
    if okr:
        loop = next((a for a in core.ancestors(rec[0]) if isinstance(a, ast.For)), None)
        okr = loop is not None and core.src(loop.iter) == f'{t}.mappers(tail)' and core.src(rec[0].value.value) == f'segments({core.src(loop.target)})'
    ctx.check(okr, 'C03.copy', sg, 'otherwise the enumeration descends into *every* mapper towards the tail, unconditionally', rec[0] if rec else sg.node, key='segments:descend')


def segment_extend(ctx, se: core.FuncInfo) -> None:
    """Segment.extend, statement by statement (canonical guards): the extended segment ends at the *traced* tail of what was
    appended - a bare node is wrapped as Segment(node) with no explicit tail so that a pre-wired chain is followed to its end."""
    prog = ctx.prog
    stmts = {core.src(n): n for n in core.walk_local(se.node) if isinstance(n, (ast.Assign, ast.Expr, ast.Return))}

    def under(text: str, want: list[tuple[str, bool]], msg: str, key: str) -> None:
        n = stmts.get(text)
        got = cfg.cguards(n, se.node) if n is not None else None
        ctx.check(n is not None and sorted(got) == sorted(want), 'C03.trunk', se, f'{msg} (`{text}` under {want}; found under {got})', n or se.node, key=key)

    node_t = 'isinstance(right, atomic.Node)'
    under('right = Segment(right)', [('right', True), (node_t, True)], 'a bare node is wrapped into a segment whose tail is traced from it (no explicit tail)', 'extend:wrap')
    under('right.subscribe(self.publisher)', [('right', True)], 'the appended head is fed from our tail', 'extend:subscribe')
    under('tail = right._tail', [('right', True), ('tail', False)], 'without an explicit tail the new tail is the tail of what was appended', 'extend:tail')
    under('tail = Traversal(self._tail).tail().pivot', [('right', False), ('tail', False)], 'without anything appended the segment is retraced to its physical tail', 'extend:retrace')
    under('return Segment(self._head, tail)', [], 'the extended segment keeps our head', 'extend:return')
    wraps = [c for c in core.calls_in(se.node) if core.src(c.func) == 'Segment' and c.args and core.src(c.args[0]) == 'right']
    ctx.check(all(len(c.args) == 1 and not c.keywords for c in wraps) and len(wraps) == 1, 'C03.trunk', se, 'Segment(right) is built with the head only', wraps[0] if wraps else se.node, key='extend:wrap-arity')
    new = prog.func(f'{SPAN}:Segment.__new__')
    body = [core.src(x) for x in new.inlined().node.body if isinstance(x, (ast.Assign, ast.Return))]
    ctx.check(body == ['tail = Traversal(head).tail(tail).pivot', 'return super().__new__(cls, (head, tail))'], 'C03.trunk', new, 'Segment(head, tail) = (head, the tail traced from head up to the expected one)', new.node, key='Segment.__new__')


ATOMIC = 'forml.flow._graph.atomic'
PORT = 'forml.flow._graph.port'


def flow_api(ctx) -> None:
    """The abstract semantics of the flow API assumed by the role interpreter (fv/roles.py) is what the implementation does:
    worker.train(f, l) publishes f to the Train port and l to the Label port of that worker; x[i].subscribe(p) publishes p to
    Apply port i of x; a publication reaches the publisher node's own output index (futures forward to their successor); a
    trained worker publishes nothing; fork()/fgen() create same-shaped members of the same group; Trunk(...) wraps bare
    nodes and defaults to futures."""
    prog = ctx.prog
    U = shared.stmt_under
    wt = prog.func(f'{ATOMIC}:Worker.train')
    f, l = wt.param_names[1:3]
    U(ctx, 'C03.api', wt, f'{f}.publish(self, port.Train())', [('self.stateful', True), ('any((f.trained for f in self._group))', False)], 'train(): the features publisher feeds the Train port of this worker (stateful, group not trained yet)', 'Worker.train:train')
    U(ctx, 'C03.api', wt, f'{l}.publish(self, port.Label())', [('self.stateful', True), ('any((f.trained for f in self._group))', False)], 'train(): the labels publisher feeds the Label port of this worker', 'Worker.train:label')
    wp = prog.func(f'{ATOMIC}:Worker._publish')
    U(ctx, 'C03.api', wp, 'super()._publish(index, subscription)', [('self.trained', False)], 'only a worker that is not trained publishes', 'Worker._publish')
    np_ = prog.func(f'{ATOMIC}:Node._publish')
    ctx.check(any(core.src(n) == 'self._output[index].add(subscription)' for n in core.walk_local(np_.node) if isinstance(n, ast.Expr)), 'C03.api', np_, 'a publication is recorded on the output port it was made from', np_.node, key='Node._publish')
    wf = prog.func(f'{ATOMIC}:Worker.fork')
    U(ctx, 'C03.api', wf, 'return Worker(self._group, self.szin, self.szout)', [], 'fork() = a new member of the same group with the same shape', 'Worker.fork')
    wi = prog.func(f'{ATOMIC}:Worker.__init__')
    g = wi.param_names[1]
    U(ctx, 'C03.api', wi, f'self._group: Worker.Group = {g} if isinstance({g}, Worker.Group) else self.Group({g})', [], 'a worker joins the given group or founds a new one around its builder', 'Worker.__init__:group')
    U(ctx, 'C03.api', wi, 'self._group.add(self)', [], 'a worker registers itself in its group', 'Worker.__init__:add')
    fg = prog.func(f'{ATOMIC}:Worker.fgen')
    ys = [core.src(n.value) for n in core.walk_local(fg.inlined().node) if isinstance(n, ast.Yield)]
    b, i, o = fg.param_names[1:4]
    ctx.check(len(ys) == 2 and ys[1] == f'{ys[0]}.fork()', 'C03.api', fg, 'fgen() yields one worker and then forks of it', fg.node, key='Worker.fgen')
    ctx.check(any(core.src(c) == f'cls({b}, {i}, {o})' for c in core.calls_in(fg.node)), 'C03.api', fg, 'fgen() builds the first worker from its own (builder, szin, szout)', fg.node, key='Worker.fgen:first')
    ss = prog.func(f'{PORT}:Subscriptable.subscribe')
    U(ctx, 'C03.api', ss, f'{ss.param_names[1]}.publish(self._node, Apply(self._index))', [], 'x[i].subscribe(p): p publishes to Apply port i of node x', 'Subscriptable.subscribe')
    pp = prog.func(f'{PORT}:Publishable.publish')
    sub, prt = pp.param_names[1:3]
    fwd = (f'isinstance({sub}, atomic.Future) and {sub} is not self._node', True)
    U(ctx, 'C03.api', pp, f'{sub}[{prt}].subscribe(self)', [fwd], 'a publication to a future (other than the publisher\'s own node) is forwarded through the future\'s port', 'publish:forward')
    U(ctx, 'C03.api', pp, f'self.republish(Subscription({sub}, {prt}))', [(fwd[0], False)], 'otherwise the (subscriber, port) subscription is published from this publisher', 'publish:direct')
    rp = prog.func(f'{PORT}:Publishable.republish')
    U(ctx, 'C03.api', rp, f'self._node._publish(self._index, {rp.param_names[1]})', [], 'a publisher publishes from its own node and output index', 'republish')
    for name, cls_ in (('publisher', 'Publishable'), ('subscriber', 'Subscriptable')):
        fn = prog.func(f'{PORT}:PubSub.{name}')
        U(ctx, 'C03.api', fn, f'return {cls_}(self._node, self._index)', [], f'x[i].{name} refers to the same node and index', f'PubSub.{name}')
    ap = prog.func(f'{PORT}:Applicable.__init__')
    body = {core.src(n) for n in core.walk_local(ap.node) if isinstance(n, (ast.Assign, ast.AnnAssign))}
    ctx.check({"self._node: 'flow.Node' = node", 'self._index: int = index'} <= body, 'C03.api', ap, 'port references store (node, index) under their own names', ap.node, key='Applicable.__init__')
    gi = prog.func(f'{ATOMIC}:Node.__getitem__')
    U(ctx, 'C03.api', gi, f'return port.PubSub(self, {gi.param_names[1]})', [], 'node[i] refers to port i of that node', 'Node.__getitem__')
    tn = prog.func(f'{ASSEMBLY}:Trunk.__new__')
    init = tn.nested('init')
    m = init.param_names[0]
    U(ctx, 'C03.api', init, f'{m} = atomic.Future()', [(m, False)], 'a missing mode segment defaults to a fresh future', 'Trunk.init:future')
    U(ctx, 'C03.api', init, f'{m} = span.Segment({m})', [(f'isinstance({m}, atomic.Node)', True)], 'a bare node becomes a traced segment', 'Trunk.init:segment')
    U(ctx, 'C03.api', init, f'return {m}', [], 'the cleaned segment is returned', 'Trunk.init:return')


SLOTS = ('apply', 'train', 'label')
DECORATOR_OWN = {  # decorator -> the slots it fills with the decorated actor (docstring of wrap.Operator)
    'apply': {'apply'}, 'train': {'train'}, 'label': {'label'}, 'mapper': {'apply', 'train'},
}


def wrap_decorators(ctx) -> None:
    """wrap.Operator.{apply,train,label,mapper}: the decorated actor fills the decorator's own slot(s) and every other slot
    is inherited from the parent operator (split-fashion decoration keeps the parent's label/train/apply actors)."""
    prog = ctx.prog
    op = prog.cls(f'{WRAP}:Operator')
    setup = prog.cls(f'{WRAP}:Setup')
    fields = list(setup.annotations)
    ctx.check(fields == ['origin', *SLOTS], 'C03.wrap', setup.ref, f'Setup fields are (origin, apply, train, label) - found {fields}', key='Setup:fields', loc=setup.module.relpath)
    n = 0
    for st in op.node.body:
        if not (isinstance(st, ast.Assign) and isinstance(st.targets[0], ast.Name) and st.targets[0].id in DECORATOR_OWN):
            continue
        name = st.targets[0].id
        lam = next((x for x in ast.walk(st.value) if isinstance(x, ast.Lambda)), None)
        call = lam.body if lam is not None and isinstance(lam.body, ast.Call) and core.src(lam.body.func) == 'Setup' else None
        if call is None or len(lam.args.args) != 2:
            ctx.fail('C03.wrap', op.ref, f'decorator `{name}` is not Decorator(lambda parent, builder: Setup(...))', st, key=f'decorator:{name}:shape')
            continue
        n += 1
        parent, builder = (a.arg for a in lam.args.args)
        bound = {f: core.src(a) for f, a in zip(fields, call.args)}
        bound.update({k.arg: core.src(k.value) for k in call.keywords if k.arg})
        want = {'origin': builder}
        for slot in SLOTS:
            want[slot] = builder if slot in DECORATOR_OWN[name] else f'{parent}.{slot.capitalize()}'
        ctx.check(bound == want, 'C03.wrap', op.ref, f'decorator `{name}` fills {sorted(DECORATOR_OWN[name])} with the decorated actor and inherits the other slots from the parent (wanted {want}, found {bound})', st, key=f'decorator:{name}')
    ctx.floor('C03.wrap-decorators', n, 4)
    # decorating an existing operator re-uses its origin builder *object* unless new parameters are given: the apply/train
    # twins of a chained decoration are grouped by builder identity, a reset() copy would make them two groups
    dec = prog.func(f'{WRAP}:Decorator.__call__').nested('decorator')
    bs = [a for a in core.walk_local(dec.node) if isinstance(a, ast.Assign) and core.src(a.targets[0]) == 'builder' and 'Origin' in core.src(a.value)]
    ctx.check(len(bs) == 1 and core.src(bs[0].value) == 'inner.Origin.reset(**kwargs) if kwargs else inner.Origin', 'C03.wrap', dec, f'chained decoration keeps the origin builder itself when no parameters are overridden (`{core.src(bs[0].value) if bs else None}`)', bs[0] if bs else dec.node, key='decorator:origin-builder')
    meta = prog.func(f'{WRAP}:Meta.__new__')
    pairs = {}
    for d in ast.walk(meta.node):
        if isinstance(d, ast.Dict):
            for k, v in zip(d.keys, d.values):
                pairs[core.src(k)] = core.src(v)
    want = {f'Operator.{f.capitalize()}.fget.__name__': f'setup.{f}' for f in fields}
    ctx.check(pairs == want, 'C03.wrap', meta, f'the decorated class binds each builder to the property of its own mode ({pairs})', meta.node, key='Meta:namespace')


def run(ctx) -> None:
    # the order in which a walk meets sibling branches is what positions are derived from (persistent states, copied wiring)
    shared.r_lifo(ctx, ctx.prog.functions([m for m in ctx.prog.modules if m.startswith(('forml.flow._graph', 'forml.flow._suite', 'forml.flow._code'))]))
    from . import C12
    operators(ctx)
    wrap_label_order(ctx)
    wrap_decorators(ctx)
    flow_api(ctx)
    C12.fullstack(ctx)
    C12.ensembler(ctx)  # discharges the roles assumed for `folds` in the stacking builders (Fold fields come from the fold's own scope segments)
    primitives(ctx)
    shared.argname_scope(ctx, ('forml.flow._suite', 'forml.flow._graph', 'forml.pipeline', 'forml.evaluation._stage'), floor=2)
    # composition code wires one branch per mapper / base / fold: nothing is built from a loop variable after its loop
    mods = [m for m in ctx.prog.modules if m.startswith(('forml.flow._suite', 'forml.flow._graph', 'forml.pipeline', 'forml.evaluation'))]
    ctx.floor('R-STALELOOP', shared.r_staleloop(ctx, ctx.prog.functions(mods)), 8)
