"""C02 - every runner executes a compiled workflow with identical results: thin structural part only (DESIGN.md 4/C02).

Equivalence of the two evaluators with a reference evaluation is NOT decided (it is a property of data structures built
at run time).  What is decided are the argument-order / once-only / index clauses of the two linkers - necessary
conditions that a backend delivers "the same sink outputs as a dependency-ordered evaluation of the table".
"""
from __future__ import annotations

import ast

from .. import cfg, core
from . import shared

EXPLANATION = (
    'Thin structural decision for C02 (backend equivalence itself is not decided): (1) dask linker - every instruction is '
    'turned into one delayed task (memoised per instruction, shared results reused), called with the linked tasks of its own '
    'arguments in table order, the set computed is exactly the instructions nobody depends on, duplicated symbols are '
    'rejected; (2) pyfunc transcoder - a Getter becomes Get(index) with the unchanged index and Get subscripts with it, a '
    'functor is reduced with its arguments in table order (loaders evaluated eagerly), terms are ordered dependencies first, '
    'a term consumed n times is replicated through one Push and n-1 Pops over a queue of n-1 slots, Zip/Chain apply their '
    'branches in order, Dumper/Committer are refused (apply mode only); (3) the common driver hands the compiled table and '
    'the runner keyword arguments to run(). These are necessary conditions of equal sink outputs; fan-out/ordering '
    'behaviour of the push/pop scheme (e.g. the head instruction with two consumers) is not decided.'
)
ASSUMPTIONS = ['dask.delayed(f)(*args) calls f with the computed args in order; dask.compute evaluates every given leaf']
AUX_MANIFEST = {  # deliberately NOT registered: C02 stays not_applicable (text-shaped rules only, see DESIGN 4/C02)
    'level': 'Static argument-order / once-only / index-agreement rules on the two linkers (the kind of clause that a wrong '
             'index or reversed iteration breaks for every table at once). Deliberately thin: semantic equivalence of the '
             'evaluators is a run-time property and is not claimed.',
    'note': 'Trusted: stdlib ast, dask.delayed/compute semantics. NOT decided: equality of results between backends and a '
            'reference evaluation, deadlock/crash freedom of the push/pop replication for arbitrary fan-out (a known runtime '
            'counter-example exists: an apply table whose head has two consumers raises in pyfunc).',
    'technique': 'static analysis: def-use/order-preservation rules on the linkers, memoisation (once-only) rule, index '
                 'pass-through, replication arity rule',
}

DASK = 'forml.provider.runner.dask'
PYFUNC = 'forml.provider.runner.pyfunc'
AGENT = 'forml.runtime._agent'


def dask_linker(ctx) -> None:
    prog = ctx.prog
    mk = prog.func(f'{DASK}:Runner._mkjob')
    link = mk.nested('link')
    leaf = link.param_names[0]
    calls = [c for c in core.calls_in(link.node) if isinstance(c.func, ast.Call) and (core.call_name(c.func) or '').endswith('delayed')]
    ctx.check(len(calls) == 1, 'C02.dask', link, 'one delayed task per instruction', link.node, key='delayed:one')
    if calls:
        outer, inner = calls[0], calls[0].func
        ctx.check(core.src(inner.args[0]) == leaf, 'C02.dask', link, 'the delayed callable is the instruction itself', inner, key='delayed:callable')
        okargs = len(outer.args) == 1 and isinstance(outer.args[0], ast.Starred)
        if okargs:
            gen = outer.args[0].value
            okp, why = shared.order_preserving(gen, f'args.get({leaf}, [])') if isinstance(gen, (ast.GeneratorExp, ast.ListComp)) else (False, 'not a comprehension')
            rec = isinstance(gen, (ast.GeneratorExp, ast.ListComp)) and core.src(gen.elt) == f'link({core.src(gen.generators[0].target)})'
            okargs = okp and rec
        ctx.check(okargs, 'C02.dask', link, 'called with the linked tasks of its own arguments, in table order', outer, key='delayed:args')
        st = core.enclosing_stmt(outer)
        memo = isinstance(st, ast.Assign) and core.src(st.targets[0]) == f'branches[{leaf}]' and any(core.src(t) == f'{leaf} not in branches' and pol for t, pol in cfg.guards(st, link.node, siblings=False))
        ctx.check(memo, 'C02.dask', link, 'linked once per instruction: a shared result is one task reused by all its consumers', st, key='delayed:memo')
    ret = next((r for r in core.walk_local(link.node) if isinstance(r, ast.Return)), None)
    ctx.check(ret is not None and core.src(ret.value) == f'branches[{leaf}]', 'C02.dask', link, 'the memoised task is returned', ret or link.node, key='link:return')
    text = core.src(mk.node)
    ctx.check('dict(symbols)' in text and 'len(args) == len(symbols)' in text, 'C02.dask', mk, 'duplicated symbols are rejected', mk.node, key='mkjob:duplicates')
    ctx.check('leaves = set(args).difference((p for a in args.values() for p in a))' in text, 'C02.dask', mk, 'leaves = instructions nobody depends on', mk.node, key='mkjob:leaves')
    ret = next((r for r in mk.body if isinstance(r, ast.Return)), None)
    ctx.check(ret is not None and core.src(ret.value) == '(link(d) for d in leaves)', 'C02.dask', mk, 'every leaf is linked and returned', ret or mk.node, key='mkjob:return')
    run = prog.func(f'{DASK}:Runner.run')
    ctx.check('dask.compute(cls._mkjob(symbols))' in core.src(run.node), 'C02.dask', run, 'run() computes the whole linked job', run.node, key='run')


def pyfunc_transcoder(ctx) -> None:
    prog = ctx.prog
    build = prog.func(f'{PYFUNC}:Expression._build')
    text = core.src(build.node)
    ctx.check('term = Get(instruction.index)' in text and 'args = upstream[instruction]' in text, 'C02.pyfunc', build, 'a Getter becomes Get(index) with the unchanged index over its own upstream', build.node, key='build:getter')
    ctx.check('action.reduce(actor, *(evaluate(a) for a in upstream[instruction]))' in text and 'term = Task(actor, action)' in text, 'C02.pyfunc', build, 'a functor is reduced with its arguments in table order', build.node, key='build:functor')
    ctx.check('dag.append((term, tuple((resolve(a) for a in args))))' in text, 'C02.pyfunc', build, 'upstream terms keep the argument order', build.node, key='build:args')
    ctx.check('for instruction in cls._order(upstream)' in text, 'C02.pyfunc', build, 'terms are created dependencies first', build.node, key='build:order')
    ctx.check('isinstance(instruction, (flow.Dumper, flow.Committer))' in text, 'C02.pyfunc', build, 'persisting instructions are refused (apply mode only)', build.node, key='build:apply-only')
    ev = build.nested('evaluate')
    ctx.check('return arg() if isinstance(arg, flow.Loader) else arg' in core.src(ev.node), 'C02.pyfunc', ev, 'loaders are evaluated eagerly into the state argument', ev.node, key='build:loader')
    rs = build.nested('resolve')
    ctx.check('target = i2t[source]' in core.src(rs.node) and 'szout[target] += 1' in core.src(rs.node), 'C02.pyfunc', rs, 'each use of an upstream term is counted once', rs.node, key='build:szout')
    get = prog.func(f'{PYFUNC}:Get.__call__')
    ctx.check(core.src(get.body[-1]) == f'return {get.param_names[1]}[self._index]', 'C02.pyfunc', get, 'Get subscripts with its stored index', get.node, key='get')
    gi = prog.func(f'{PYFUNC}:Get.__init__')
    ctx.check('self._index: int = index' in core.src(gi.node) or 'self._index = index' in core.src(gi.node), 'C02.pyfunc', gi, 'the index is stored unchanged', gi.node, key='get:init')
    zp = prog.func(f'{PYFUNC}:Zip.__call__')
    ctx.check(core.src(zp.body[-1]) == 'return self._instruction(*(b(arg) for b in self._branches))', 'C02.pyfunc', zp, 'Zip applies the instruction to its branches in order', zp.node, key='zip')
    ch = prog.func(f'{PYFUNC}:Chain.__call__')
    ctx.check(core.src(ch.body[-1]) == 'return self._right(self._left(arg))', 'C02.pyfunc', ch, 'Chain = right(left(arg))', ch.node, key='chain')
    tk = prog.func(f'{PYFUNC}:Task.__call__')
    ctx.check(core.src(tk.body[-1]) == 'return self._action(self._actor, *args)', 'C02.pyfunc', tk, 'Task = action(actor, *args)', tk.node, key='task')
    fk = prog.func(f'{PYFUNC}:Branch.fork')
    t = core.src(fk.node)
    ctx.check('replicas = szout - 1' in t and 'collections.deque(maxlen=replicas)' in t and '[Push(queue, term, replicas), *(Pop(queue, repr(term)) for _ in range(replicas))]' in t, 'C02.pyfunc', fk, 'a term with n consumers = one Push and n-1 Pops over a queue of n-1 slots', fk.node, key='fork')
    ps = prog.func(f'{PYFUNC}:Push.__call__')
    t = core.src(ps.node)
    ctx.check('value = self._term(arg)' in t and 'for _ in range(self._replicas)' in t and 'self._queue.append(value)' in t and 'return value' in t, 'C02.pyfunc', ps, 'Push evaluates once and enqueues one copy per further consumer', ps.node, key='push')
    pp = prog.func(f'{PYFUNC}:Pop.__call__')
    ctx.check(core.src(pp.body[-1]) == 'return self._queue.popleft()', 'C02.pyfunc', pp, 'Pop takes the replicated value in order', pp.node, key='pop')
    init = prog.func(f'{PYFUNC}:Expression.__init__')
    t = core.src(init.node)
    ctx.check('args = [providers[a].popleft() for a in node.args]' in t and '(Zip if len(args) > 1 else Chain)(providers[node.term].popleft(), *args)' in t and 'providers[node.term].extend(Branch.fork(term, node.szout))' in t, 'C02.pyfunc', init, 'every node consumes one provider per argument, in order, and offers as many providers as it has consumers', init.node, key='init:providers')
    ctx.check("assert not any(providers.values()), 'Outstanding providers'" in t, 'C02.pyfunc', init, 'no provider is left unused', init.node, key='init:drained')
    od = prog.func(f'{PYFUNC}:Expression._order')
    t = core.src(od.node)
    ctx.check('index[node] = max(index[node], level)' in t and 'sorted(index, key=lambda i: index[i], reverse=True)' in t, 'C02.pyfunc', od, 'instructions are ordered by their longest distance to the output, farthest first', od.node, key='order')
    rn = prog.func(f'{PYFUNC}:Runner.__init__')
    ctx.check('Expression(flow.compile(composition.apply, self._instance.state(composition.persistent)))' in core.src(rn.node), 'C02.pyfunc', rn, 'the serving expression is built from the compiled apply segment with its persistent states', rn.node, key='runner:init')


def driver(ctx) -> None:
    prog = ctx.prog
    ex = prog.func(f'{AGENT}:Runner._exec')
    ctx.check('return self.run(flowmod.compile(segment, assets), **self._kwargs)' in core.src(ex.node), 'C02.driver', ex, 'every backend receives the same compiled table (and the runner keyword arguments)', ex.node, key='_exec')
    runner = prog.cls(f'{AGENT}:Runner')
    impls = [c for c in prog.subclasses(runner) if 'run' in c.methods and c.module.name.startswith('forml.provider.runner')]
    ctx.floor('C02.backends', len(impls), 2)
    for c in impls:
        fn = prog.func(f'{c.ref}.run')
        ctx.check('symbols' in fn.param_names, 'C02.driver', fn, f'{c.module.name.split(".")[-1]} backend implements run(symbols, ...)', fn.node, key=f'run:{c.module.name}')


def run(ctx) -> None:
    dask_linker(ctx)
    pyfunc_transcoder(ctx)
    driver(ctx)
