"""C10 - ordinal windows deliver each record as the delivery semantic promises (DESIGN.md section 4/C10)."""
from __future__ import annotations

import ast

from .. import calls, cfg, core, types
from . import shared

EXPLANATION = (
    'Static decision of the structural clauses of C10: (1) the Once enum members are read from the AST as (lower, upper) '
    'operator pairs and the complete truth table over the three orderings of a record ordinal against a bound shared by '
    'two consecutive windows is evaluated (exactly-once: exactly one window selects; at-most: <=1 and exactly one off the '
    'bound; at-least: >=1 and exactly one off the bound); alias spellings map to the member of their stem; (2) Ordinal.where '
    'applies the lower operator to the cast lower bound and the upper operator to the cast upper bound, each under an '
    '`is not None` guard, AND-reduced; (3) Operable dunder -> expression class -> SQL operator chain agrees with the class '
    'symbol; (4) R-TRUTHY: no Optional[dsl.Native] bound or Optional DSL feature is truth-tested anywhere in forml/; '
    '(5) R-ARGORDER: lower/upper never cross at a resolved call; (6) bounds given to a source without ordinal are refused '
    'under a None-test; (7) the training driver substitutes the tag ordinal only when lower is None. Decides these necessary '
    'conditions, not the database comparison semantics per kind.'
)
MANIFEST = {
    'level': 'Complete static decision of the finite part of the property (the semantic/ordering truth table of the three '
             'delivery semantics over consecutive windows, exhaustively enumerated) plus type-directed and path rules over '
             'every function of forml/ that carries a bound: the structural necessary conditions of the tiling. This is '
             'the right level because the tiling argument touches data only through comparisons against a shared bound.',
    'note': 'Trusted: stdlib ast; meaning of operator.lt/le/gt/ge; annotations (Optional[dsl.Native]) as the source of bound '
            'types. Not decided: cast results of particular value representations and the database comparison semantics.',
    'technique': 'static analysis: enum/table extraction + exhaustive ordering case split, annotation-typed truthiness lint '
                 '(R-TRUTHY), resolved-callee argument-order lint (R-ARGORDER), lexical guard/dominance rules',
}
ASSUMPTIONS = [
    'operator.lt/le/gt/ge have their standard meaning; the storage engine compares ordinals consistently with the kind cast',
    'bounds form an increasing sequence and window i+1 uses the upper bound of window i as its lower bound',
]

COMPONENT = 'forml.project._component'
EXTRACT = 'forml.io._input.extract'
STEMS = {'EXACTLY': 'exact', 'ATMOST': 'most', 'ATLEAST': 'least'}


def once_table(ctx) -> None:
    prog = ctx.prog
    once = prog.cls(f'{COMPONENT}:Source.Extract.Ordinal.Once')
    bounds = prog.cls(f'{COMPONENT}:Source.Extract.Ordinal.Once.Bounds')
    fields = calls.namedtuple_fields(bounds)
    if not fields or set(fields) != {'lower', 'upper'}:
        raise core.AnalysisError(f'Once.Bounds fields not recognised: {fields}')
    members = {}
    for name, val in once.assigns.items():
        if isinstance(val, ast.Call) and core.call_name(val) == 'Bounds':
            args = {f: a for f, a in zip(fields, val.args)}
            for kw in val.keywords:
                args[kw.arg] = kw.value
            members[name] = (val, args)
    ctx.floor('C10.once-members', len(members), 3)
    fake = prog.func(f'{COMPONENT}:Source.Extract.Ordinal.Once._missing_')
    for name, (node, args) in members.items():
        lo, up = shared.comparison_of(args.get('lower')), shared.comparison_of(args.get('upper'))
        if lo is None or up is None:
            ctx.fail('C10.once-table', once.ref, f'{name}: bound operators not recognisable comparisons: {core.src(node)}', key=f'{name}', loc=f'{once.module.relpath}:{node.lineno}')
            continue
        # window i selects v with upper(v, b); window i+1 selects v with lower(v, b); orderings v<b, v==b, v>b
        counts = tuple(int(shared.CMP_TABLE[up][k]) + int(shared.CMP_TABLE[lo][k]) for k in range(3))
        # sanity: the upper operator must accept values below the bound, the lower operator values above it
        shape = shared.CMP_TABLE[up][0] and not shared.CMP_TABLE[up][2] and shared.CMP_TABLE[lo][2] and not shared.CMP_TABLE[lo][0]
        if name == 'EXACTLY':
            good = shape and counts == (1, 1, 1)
        elif name == 'ATMOST':
            good = shape and counts[0] == 1 and counts[2] == 1 and counts[1] <= 1
        elif name == 'ATLEAST':
            good = shape and counts[0] == 1 and counts[2] == 1 and counts[1] >= 1
        else:
            raise core.AnalysisError(f'unknown Once member {name}: extend the semantic table before deciding')
        ctx.sample({'member': name, 'lower_op': lo, 'upper_op': up, 'selected_by_windows(v<b,v==b,v>b)': counts})
        if good:
            ctx.ok('C10.once-table', once.ref, f'{name}: lower={lo} upper={up} selections per ordering {counts}', lower=lo, upper=up, counts=counts)
        else:
            ctx.fail(
                'C10.once-table', once.ref,
                f'{name} = Bounds(lower={lo}, upper={up}): consecutive windows select a record (v<b, v==b, v>b) {counts} times - violates the {name.lower()} contract',
                key=f'{name}', loc=f'{once.module.relpath}:{node.lineno}',
            )
    # alias spellings
    seen: dict[str, str] = {}
    nsets = 0
    for node in core.walk_local(fake.node):
        if isinstance(node, ast.If) and isinstance(node.test, ast.Compare) and isinstance(node.test.ops[0], ast.In):
            coll = node.test.comparators[0]
            ret = next((s for s in node.body if isinstance(s, ast.Return)), None)
            if not isinstance(coll, (ast.Set, ast.Tuple, ast.List)) or ret is None:
                continue
            target = (core.dotted(ret.value) or '').split('.')[-1]
            if target not in STEMS:
                continue
            nsets += 1
            for e in coll.elts:
                if not isinstance(e, ast.Constant) or not isinstance(e.value, str):
                    continue
                alias = e.value
                stems = [s for s in STEMS.values() if s in alias.replace('-', '')]
                good = stems == [STEMS[target]] and alias not in seen
                ctx.check(good, 'C10.once-alias', fake, f'alias {alias!r} -> {target}', node, key=f'alias {alias}')
                seen[alias] = target
    # the same table written as a mapping - ``dict.fromkeys((aliases..), cls.X)`` groups or ``{'alias': cls.X}`` entries - anywhere in
    # the enum (a later group overriding an earlier spelling is exactly the slip to look for)
    once_cls = prog.cls(f'{COMPONENT}:Source.Extract.Ordinal.Once')
    for mname in once_cls.methods:
        mfn = prog.func(f'{once_cls.ref}.{mname}')
        for c in ast.walk(mfn.node):
            groups = []
            if isinstance(c, ast.Call) and core.src(c.func) == 'dict.fromkeys' and len(c.args) == 2 and isinstance(c.args[0], (ast.Tuple, ast.List, ast.Set)):
                groups.append(([e for e in c.args[0].elts], c.args[1]))
            elif isinstance(c, ast.Dict):
                groups += [([k], v_) for k, v_ in zip(c.keys, c.values) if k is not None]
            for elts, val in groups:
                target = (core.dotted(val) or '').split('.')[-1]
                if target not in STEMS:
                    continue
                nsets += 1
                for e in elts:
                    if isinstance(e, ast.Constant) and isinstance(e.value, str):
                        alias = e.value
                        stems = [s_ for s_ in STEMS.values() if s_ in alias.replace('-', '')]
                        ctx.check(stems == [STEMS[target]] and alias not in seen, 'C10.once-alias', mfn, f'alias {alias!r} -> {target}' + (f' (already maps to {seen[alias]}: the later entry wins)' if alias in seen else ''), c, key=f'alias {alias}')
                        seen[alias] = target
    ctx.floor('C10.once-alias-sets', nsets, 3)
    # each member is returned exactly under "a string, lower-cased, member of its alias set"; anything else falls through
    v = fake.param_names[1]
    rets = [r for r in core.walk_local(fake.node) if isinstance(r, ast.Return) and (core.dotted(r.value) or '').split('.')[-1] in STEMS]
    for r in rets:
        g = cfg.cguards(r, fake.node)
        ok = len(g) == 2 and (f'isinstance({v}, str)', True) in g and any(t.startswith(f'{v} in ') and pol for t, pol in g)
        ctx.check(ok, 'C10.once-alias', fake, f'{core.src(r.value)} is returned for the strings of its own alias set only (guards {g})', r, key=f'alias-guard:{core.src(r.value)}')
    got = sorted((core.dotted(r.value) or '').split('.')[-1] for r in rets)
    ctx.check(got == sorted(STEMS), 'C10.once-alias', fake, f'every delivery guarantee has its spellings (members returned: {got})', fake.node, key='alias:all-members')
    low = [a for a in core.walk_local(fake.node) if isinstance(a, ast.Assign) and core.src(a.targets[0]) == v]
    ctx.check(len(low) == 1 and core.src(low[0].value) == f'{v}.lower()' and all(r.lineno > low[0].lineno for r in rets), 'C10.once-alias', fake, 'the spelling is matched case-insensitively', fake.node, key='alias:lower')
    last = fake.body[-1]
    ctx.check(isinstance(last, ast.Return) and core.src(last.value) == f'super()._missing_({v})' and not cfg.cguards(last, fake.node), 'C10.once-alias', fake, 'an unknown spelling falls through to the enum default (ValueError)', last, key='alias:fallthrough')


def prepared_call(ctx) -> None:
    """The window predicate built from the bounds is *applied*: Prepared.__call__ filters the statement by it whenever the
    source is ordinal and a predicate exists (presence tested by ``is not None`` - the predicate object overloads bool), returns
    the filtered statement, and refuses bounds for a source without an ordinal."""
    prog = ctx.prog
    fn = prog.func('forml.io._input.extract:Statement.Prepared.__call__')
    lo, up = fn.param_names[1:3]
    U = shared.stmt_under
    U(ctx, 'C10.prepared', fn, f'where = self.ordinal.where({lo}, {up})', [('self.ordinal', True)], 'the window predicate is built from (lower, upper) for an ordinal source', 'prepared:where', inlined=False)
    U(ctx, 'C10.prepared', fn, 'statement = statement.query.where(where)', [('self.ordinal', True), ('where is not None', True)], 'and applied to the statement whenever it exists', 'prepared:apply', inlined=False)
    U(ctx, 'C10.prepared', fn, 'return statement', [], 'the (filtered) statement is what gets read', 'prepared:return', inlined=False, siblings=False)
    rs = [r for r in core.walk_local(fn.node) if isinstance(r, ast.Raise)]
    ctx.check(len(rs) == 1 and sorted(cfg.cguards(rs[0], fn.node)) == cfg.cg(('self.ordinal', False), (f'{lo} is not None or {up} is not None', True)), 'C10.prepared', fn, 'bounds given for a source without an ordinal are refused', rs[0] if rs else fn.node, key='prepared:refuse')
    first = next((a for a in fn.body if isinstance(a, ast.Assign)), None)
    ctx.check(first is not None and core.src(first) == 'statement = self.statement', 'C10.prepared', fn, 'the window is cut out of the prepared statement', first or fn.node, key='prepared:base')


def extract_binding(ctx) -> None:
    """The source descriptor keeps each statement in its own role: Source.query(features, labels, apply, ordinal, once) builds
    Extract(train=features, apply=apply or features, labels, ordinal, once); Extract stores (train, apply, labels,
    Ordinal(ordinal, once)) in its field order (the ordinal column and its delivery semantic stay paired)."""
    prog = ctx.prog
    q = prog.func(f'{COMPONENT}:Source.query')
    calls_ = [c for c in core.calls_in(q.node) if core.call_tail(c) == 'Extract']
    ok = len(calls_) == 1 and [core.src(a) for a in calls_[0].args] == ['features', 'apply or features', 'labels', 'ordinal', 'once'] and not calls_[0].keywords
    ctx.check(ok, 'C10.extract', q, 'Source.query -> Extract(features, apply or features, labels, ordinal, once)', calls_[0] if calls_ else q.node, key='query:extract')
    new = prog.func(f'{COMPONENT}:Source.Extract.__new__')
    sup = [c for c in core.calls_in(new.node) if isinstance(c.func, ast.Attribute) and c.func.attr == '__new__' and core.src(c.func.value) == 'super()']
    ctx.check(len(sup) == 1 and [core.src(a) for a in sup[0].args] == ['cls', 'train', 'apply', 'labels', 'ordinal'], 'C10.extract', new, 'Extract stores (train, apply, labels, ordinal) in field order', sup[0] if sup else new.node, key='extract:stored')
    ex = prog.cls(f'{COMPONENT}:Source.Extract')
    bases = core.src(ex.node.bases[0]) if ex.node.bases else ''
    ctx.check("'train, apply, labels, ordinal'" in bases, 'C10.extract', ex.ref, f'Extract fields are (train, apply, labels, ordinal) ({bases})', key='extract:fields', loc=ex.module.relpath)
    shared.stmt_under(ctx, 'C10.extract', new, 'ordinal = cls.Ordinal(ordinal, once)', [('ordinal is not None', True)], 'the ordinal column is paired with its delivery semantic', 'extract:ordinal', inlined=False, siblings=False)
    shared.stmt_under(ctx, 'C10.extract', new, 'train = train.statement', [], 'the train source is turned into its statement', 'extract:train', inlined=False, siblings=False)
    shared.stmt_under(ctx, 'C10.extract', new, 'apply = apply.statement', [], 'the apply source is turned into its statement', 'extract:apply', inlined=False, siblings=False)


def once_resolution(ctx) -> None:
    """The delivery semantic an ordinal is created with is the one it keeps: ``Ordinal.__new__`` stores ``Once(once)`` for every
    given value - a name *or an enum member* (``Enum(member)`` is the member) - and EXACTLY only when none is given."""
    prog = ctx.prog
    fn = prog.func(f'{COMPONENT}:Source.Extract.Ordinal.__new__').inlined()
    sup = [c for c in core.calls_in(fn.node) if isinstance(c.func, ast.Attribute) and c.func.attr == '__new__' and core.src(c.func.value) == 'super()']
    stored = core.src(sup[0].args[2]) if len(sup) == 1 and len(sup[0].args) == 3 else None
    ctx.check(stored in ('cls.Once(once) if once else cls.Once.EXACTLY', 'cls.Once.EXACTLY if not once else cls.Once(once)', 'cls.Once(once or cls.Once.EXACTLY)'), 'C10.once-resolution', fn, f'the stored semantic is Once(once) for any given value, EXACTLY for none (stored: `{stored}`)', sup[0] if sup else fn.node, key='ordinal:once')


BOUND_REBIND_OK = {
    ('forml.runtime._agent:Runner.train', 'lower'): 'incremental training: an absent lower bound defaults to the ordinal the last training reached (under `lower is None`)',
}


def bounds_pass_through(ctx) -> None:
    """The window a caller asks for is the window that is read: on the way from the launcher to the reader (runtime agent, feed
    loading, statement preparation) the parameters ``lower`` / ``upper`` are never re-bound - one reviewed default aside - and
    the feed is asked for its extraction operator on *every* build with the bounds of that build (a memoised operator would
    re-read the first window for every later one)."""
    prog = ctx.prog
    n = 0
    for fn in prog.functions([m for m in prog.modules if m.startswith(('forml.io._input', 'forml.runtime._agent', 'forml.runtime._pad'))]):
        mine = {p for p in fn.param_names if p in ('lower', 'upper')}
        if not mine:
            continue
        n += 1
        for st in core.walk_local(fn.node):
            if isinstance(st, (ast.Assign, ast.AugAssign, ast.AnnAssign)):
                targets = st.targets if isinstance(st, ast.Assign) else [st.target]
                hit = {x.id for t in targets for x in ast.walk(t) if isinstance(x, ast.Name)} & mine
                for name in sorted(hit):
                    # the reviewed default applies exactly when that bound is absent - under no further condition (a default
                    # that also depends on the other bound silently reads an open window when only that one is given)
                    if (fn.ref, name) in BOUND_REBIND_OK and (cfg.cguards(st, fn.node) == [(f'{name} is None', True)] or [(t, p) for t, p in cfg.cguards(st, fn.node, siblings=True)] == [(f'{name} is None', True)]):
                        ctx.ok('C10.bounds', fn, f'{name}: {BOUND_REBIND_OK[(fn.ref, name)]}', st)
                        continue
                    ctx.fail('C10.bounds', fn, f'the `{name}` bound of the requested window is re-bound on the way to the reader (`{core.src(st)[:70]}`)', st, key=f'rebind:{name}')
    ctx.floor('C10.bounds', n, 6)
    build = prog.func('forml.runtime._agent:Runner._build')
    loads = [c for c in core.walk_local(build.node) if isinstance(c, ast.Call) and isinstance(c.func, ast.Attribute) and c.func.attr == 'load' and core.src(c.func.value) == 'self._feed']
    ok = len(loads) == 1 and not cfg.cguards(loads[0], build.node, siblings=True) and [core.src(a) for a in loads[0].args[1:]] == ['lower', 'upper']
    stored = [st for st in core.walk_local(build.node) if isinstance(st, ast.Assign) and any(isinstance(t, ast.Attribute) and core.src(t.value) == 'self' for t in st.targets)]
    ctx.check(ok and not stored, 'C10.bounds', build, 'every build asks the feed for the extraction of *its* (lower, upper) and keeps nothing of it on the runner', loads[0] if loads else build.node, key='build:load')


# functions that consume the bounds one by one instead of handing them on (one reason each)
BOUND_CONSUMERS = {
    'forml.project._component:Source.Extract.Ordinal.where': 'each side becomes its own term of the where-clause (checked by C10.where)',
}


def bounds_paired(ctx) -> None:
    """A window has two sides and they travel together: wherever a function that receives ``lower`` and ``upper`` hands one of
    them on as it is, it hands on the other one right next to it (positionally ``lower, upper`` or under the keywords of the
    same names).  A forwarder that drops one side opens the window on that side: consecutive windows then overlap (or leave
    gaps) whatever the delivery semantic promises."""
    prog = ctx.prog
    n = 0
    for fn in prog.functions(sorted(prog.modules)):
        if not {'lower', 'upper'} <= set(fn.param_names):
            continue
        if fn.ref in BOUND_CONSUMERS:
            ctx.ok('C10.bounds', fn, f'end of the line: {BOUND_CONSUMERS[fn.ref]}', fn.node)
            continue
        sites = []
        for c in ast.walk(fn.node):
            if not isinstance(c, ast.Call):
                continue
            pos = [a.id if isinstance(a, ast.Name) else None for a in c.args]
            kws = {k.arg: k.value.id for k in c.keywords if isinstance(k.value, ast.Name)}
            if 'lower' in pos or 'upper' in pos or 'lower' in kws.values() or 'upper' in kws.values():
                sites.append((c, pos, kws))
        for c, pos, kws in sites:
            n += 1
            positional = 'lower' in pos and pos.index('lower') + 1 < len(pos) and pos[pos.index('lower') + 1] == 'upper' and pos.count('lower') == pos.count('upper') == 1
            keyword = kws.get('lower') == 'lower' and kws.get('upper') == 'upper' and 'lower' not in pos and 'upper' not in pos
            ctx.check(positional != keyword, 'C10.bounds', fn, f'both sides of the window are handed on together, in their roles (`{core.src(c)[:70]}`)', c, key=f'paired:{core.src(c.func)[-40:]}')
    ctx.floor('C10.bounds-paired', n, 15)


def feed_roles(ctx) -> None:
    """The feed keeps the two statements in their roles all the way into the drivers: in ``Feed.load`` the *apply* actor of the
    extraction operator is built from ``extract.apply`` and the *train* actor from ``extract.train`` (def-use closure over
    the function: assignments, the nested actor helper, functools.partial) - so that the windows of train mode are cut from
    the train query even when an explicit apply query differs from it."""
    prog = ctx.prog
    fn = prog.func('forml.io._input:Feed.load')
    defs: dict = {}
    for a in ast.walk(fn.node):
        if isinstance(a, ast.Assign):
            for t in a.targets:
                for x in ast.walk(t):
                    if isinstance(x, ast.Name) and isinstance(x.ctx, ast.Store):
                        defs.setdefault(x.id, []).append(a.value)
        elif isinstance(a, ast.AnnAssign) and isinstance(a.target, ast.Name) and a.value is not None:
            defs.setdefault(a.target.id, []).append(a.value)

    def prov(e: ast.AST, seen=()) -> set:
        out = set()
        for x in ast.walk(e):
            if isinstance(x, ast.Attribute) and isinstance(x.value, ast.Name) and x.value.id == 'extract' and x.attr in ('train', 'apply'):
                out.add(x.attr)
            elif isinstance(x, ast.Name) and isinstance(x.ctx, ast.Load) and x.id in defs and x.id not in seen:
                for d in defs[x.id]:
                    out |= prov(d, seen + (x.id,))
        return out

    ops = [c for c in core.calls_in(fn.node) if core.call_tail(c) == 'Operator']
    ctx.floor('C10.feed-roles', len(ops), 1)
    for c in ops:
        args = list(c.args) + [None] * 3
        named = {k.arg: k.value for k in c.keywords}
        apply_arg = named.get('apply', args[0])
        train_arg = named.get('train', args[1])
        pa = prov(apply_arg) if apply_arg is not None else set()
        pt = prov(train_arg) if train_arg is not None else set()
        ctx.check(pa == {'apply'}, 'C10.feed-roles', fn, f'the apply-mode driver reads the apply statement only (derives from extract.{sorted(pa)})', c, key='load:apply')
        ctx.check(pt == {'train'}, 'C10.feed-roles', fn, f'the train-mode driver reads the train statement only (derives from extract.{sorted(pt)})', c, key='load:train')


def where_construction(ctx, tenv) -> None:
    prog = ctx.prog
    fn = prog.func(f'{COMPONENT}:Source.Extract.Ordinal.where').inlined()
    params = [p for p in fn.param_names if p != 'self']
    if params[:2] != ['lower', 'upper']:
        raise core.AnalysisError(f'Ordinal.where signature changed: {params}')
    terms = {}
    for call in core.calls_in(fn.node):
        if isinstance(call.func, ast.Attribute) and call.func.attr in ('lower', 'upper') and len(call.args) == 2:
            chain = core.dotted(call.func) or ''
            if 'once' not in chain:
                continue
            terms.setdefault(call.func.attr, []).append(call)
    for side in ('lower', 'upper'):
        sites = terms.get(side, [])
        if len(sites) != 1:
            ctx.fail('C10.where', fn, f'expected exactly one application of the `{side}` bound operator, found {len(sites)}', fn.node, key=f'where:{side}')
            continue
        call = sites[0]
        val = call.args[1]
        used = core.names_in(val) & {'lower', 'upper'}
        ctx.check(used == {side}, 'C10.where', fn, f'`.{side}` operator applied to the `{side}` bound (uses {sorted(used)})', call)
        is_cast = isinstance(val, ast.Call) and isinstance(val.func, ast.Attribute) and val.func.attr == 'cast' and 'kind' in (core.dotted(val.func) or '')
        ctx.check(is_cast, 'C10.where', fn, f'`{side}` bound is cast to the ordinal column kind before comparison', call, key=f'cast:{side}:{core.src(val)}')
        col0 = core.src(call.args[0])
        ctx.check(col0 == 'self.column' or 'column' in col0, 'C10.where', fn, f'`.{side}` operator compares the ordinal column', call, key=f'col:{side}:{col0}')
        gs = cfg.guards(call, fn.node)
        guarded = any(pol and core.src(t) == f'{side} is not None' for t, pol in gs) or any((not pol) and core.src(t) == f'{side} is None' for t, pol in gs)
        ctx.check(guarded, 'C10.where', fn, f'`{side}` term built only under `{side} is not None` (guards: {[core.src(t) for t, _ in gs]})', call, key=f'guard:{side}')
    # reduction with AND and None when empty
    rets = [n for n in core.walk_local(fn.node) if isinstance(n, ast.Return)]
    reduced = False
    for r in rets:
        text = core.src(r.value)
        if 'reduce' in text and ('and_' in text or '&' in text):
            reduced = True
            ok_none = isinstance(r.value, ast.IfExp) and core.is_const(r.value.orelse, None) or 'None' in text
            ctx.check(ok_none, 'C10.where', fn, 'no term => None (side left open)', r)
    ctx.check(reduced, 'C10.where', fn, 'terms are AND-reduced', fn.node, key='where:and-reduce')


def refusal(ctx) -> None:
    prog = ctx.prog
    fn = prog.func(f'{EXTRACT}:Statement.Prepared.__call__')
    raises = [n for n in core.walk_local(fn.node) if isinstance(n, ast.Raise)]
    found = False
    for r in raises:
        gs = cfg.guards(r, fn.node)
        none_tests = set()
        no_ordinal = False
        for t, pol in gs:
            text = core.src(t)
            if 'ordinal' in text and not pol:
                no_ordinal = True
            if 'ordinal' in text and pol and ('is None' in text or text.startswith('not ')):
                no_ordinal = True
            if pol:
                for sub in ast.walk(t):
                    if isinstance(sub, ast.Compare) and isinstance(sub.ops[0], ast.IsNot) and core.is_const(sub.comparators[0], None) and isinstance(sub.left, ast.Name):
                        none_tests.add(sub.left.id)
                # (a is not None or b is not None) must be a disjunction
                if isinstance(t, ast.BoolOp) and isinstance(t.op, ast.And):
                    none_tests.discard('lower') if False else None
        if no_ordinal:
            found = True
            disj = any(pol and isinstance(t, ast.BoolOp) and isinstance(t.op, ast.Or) for t, pol in gs)
            ctx.check(
                {'lower', 'upper'} <= none_tests and disj,
                'C10.refusal', fn,
                f'bounds on a non-ordinal source are refused under `lower is not None or upper is not None` (None-tests on: {sorted(none_tests)})',
                r, key='refusal',
            )
    ctx.check(found, 'C10.refusal', fn, 'a raise exists on the branch without ordinal', fn.node, key='refusal-exists')
    # ordinal branch: where(lower, upper) result is applied when not None
    applied = False
    for call in core.calls_in(fn.node):
        if isinstance(call.func, ast.Attribute) and call.func.attr == 'where' and 'ordinal' in (core.dotted(call.func) or ''):
            applied = True
            ctx.check(
                [core.src(a) for a in call.args] == ['lower', 'upper'], 'C10.refusal', fn,
                'ordinal.where receives (lower, upper)', call,
            )
    ctx.check(applied, 'C10.refusal', fn, 'ordinal predicate constructed from the bounds', fn.node, key='where-call')


def default_lower(ctx) -> None:
    prog = ctx.prog
    prog.func('forml.runtime._agent:Runner.train')
    n = 0
    for fn in prog.functions([m for m in prog.modules if m.startswith(('forml.runtime', 'forml.io._input', 'forml.provider.runner'))]):
        for ref in [n for n in core.walk_local(fn.node) if isinstance(n, ast.Attribute) and (core.dotted(n) or '').endswith('training.ordinal')]:
            n += 1
            if fn.ref != 'forml.runtime._agent:Runner.train':
                ctx.fail('C10.default-lower', fn, 'the last training ordinal is substituted for a missing lower bound outside the training driver: in apply/evaluation modes a missing bound must leave that side open', ref)
                continue
            gs = cfg.cguards(ref, fn.node, siblings=True)
            ok_guard = ('lower is None', True) in gs or ('lower is not None', False) in gs
            ctx.check(ok_guard, 'C10.default-lower', fn, 'tag ordinal substitutes the lower bound only when `lower is None`', ref, key='default-lower')
    if n == 0:
        ctx.ok('C10.default-lower', 'forml.runtime._agent:Runner.train', 'no implicit lower bound is derived from the training tag (every missing bound stays open)')


def run(ctx) -> None:
    prog = ctx.prog
    tenv = types.TypeEnv(prog)
    resolver = calls.Resolver(prog, tenv)
    extract_binding(ctx)
    feed_roles(ctx)
    bounds_pass_through(ctx)
    bounds_paired(ctx)
    prepared_call(ctx)
    where_construction(ctx, tenv)
    once_resolution(ctx)
    once_table(ctx)
    from . import C06

    C06.cache_key(ctx)  # consecutive windows of one shape differ in their bound literals only
    from . import C15

    C15.kind_cast(ctx)  # bounds are interpreted through the ordinal kind's cast: it must land exactly in that kind
    shared.operator_chain(ctx, 'C10.chain', only={'<', '<=', '>', '>='})
    # scope: ordinal bounds (Optional[dsl.Native]) anywhere, and optional ordinal features/specs
    n = shared.r_truthy(
        ctx, tenv, prog.functions(), rule='R-TRUTHY',
        select=lambda fn, expr, t: shared.is_native(t) or 'ordinal' in core.src(expr).lower(),
    )
    ctx.floor('R-TRUTHY', n, 6)
    m = shared.r_argorder(ctx, resolver, prog.functions(), ('lower', 'upper'))
    ctx.floor('R-ARGORDER', m, 8)
    k = shared.r_passthrough(ctx, resolver, prog.functions(), ('lower', 'upper'))
    ctx.floor('R-PASSTHROUGH', k, 5)
    refusal(ctx)
    default_lower(ctx)
    shared.r_rawcmp(ctx, tenv, prog.functions())
    ctx.ok('R-RAWCMP', 'forml', 'no ordering comparison / min / max / sorted over a raw Optional[dsl.Native] bound anywhere in forml/')
    shared.argname_scope(ctx, ('forml.io._input', 'forml.runtime._agent', 'forml.runtime._pseudo', 'forml.project._component'), floor=2)
