"""C05 - registry history is append-only, gap-free and crash-consistent (DESIGN.md section 4/C05)."""
from __future__ import annotations

import ast
import typing

from .. import cfg, core
from . import shared

EXPLANATION = (
    'Static decision of the structural clauses of C05 on the posix registry and the asset directory levels. Slots are read '
    'from the code: visibility markers = the constants tested by Path.<Level>.content (TAGFILE, PKGFILE); marker paths = '
    'Path methods whose result ends in a marker (tag, package). (1) R-ATOMIC.1 - a value flowing from a marker path is never '
    'opened for writing / written / copied onto; it is only the target of a rename/replace from a sibling temporary that was '
    'completely written before; (2) R-ATOMIC.2 - in close(), every state move precedes the marker publication on every path '
    'and nothing touches the generation after it; staging writes go to the stage directory only; (3) append-only - no '
    'unlink/rmtree/remove/truncate in the registry; (4) monotonic release - push is reachable only through the version '
    'comparison or the no-previous-release handler; (5) gap-free numbering - the generation handed to close() is '
    'list().last.next or Key.MIN on the empty handler; next = self + 1; listings are sorted(set()) with last = maximum; (6) '
    'listing validity = key valid AND marker present, key-constructor exceptions are caught by the matcher; (7) R-CACHE - no '
    'memoisation of listings. Byte-identity of earlier content under arbitrary histories is not decided beyond append-only.'
)
ASSUMPTIONS = [
    'rename/replace within one directory is atomic on the posix file system; a crash inside shutil/pathlib calls leaves at '
    'most an unlisted temporary',
]
MANIFEST = {
    'level': 'Static path/ordering rules (CFG dominance and must-pass-through) and who-may-write rules over the registry '
             'provider plus table/expression rules over the level classes. Crash consistency at every crash point follows '
             'from "the marker is published last and atomically", which is a property of the shape of close()/push() on all '
             'paths - exactly what a CFG rule decides and an un-interrupted test run cannot.',
    'note': 'Trusted: stdlib ast; atomicity of rename on posix. Not decided: crash points inside library calls writing the '
            'temporary (irrelevant once publication is a rename), the mlflow registry provider, byte identity of old items.',
    'technique': 'static analysis: taint from marker-path constructors to write sinks (R-ATOMIC), CFG dominance / '
                 'must-pass-through ordering, destructive-call census (append-only), def-use of the generation number, '
                 'exception-hierarchy check, cache decorator census (R-CACHE)',
}

POSIX = 'forml.provider.registry.filesystem.posix'
DIRECTORY = 'forml.io.asset._directory'
MAJOR = f'{DIRECTORY}.level.major'
MINOR = f'{DIRECTORY}.level.minor'
CASE = f'{DIRECTORY}.level.case'

WRITE_METHODS = {'write_bytes', 'write_text', 'touch', 'mkdir_p'}
COPY_FUNCS = {'shutil.copy', 'shutil.copy2', 'shutil.copyfile', 'shutil.copytree', 'shutil.move', 'shutil.copyfileobj'}
RENAME_METHODS = {'rename', 'replace'}
RENAME_FUNCS = {'os.rename', 'os.replace', 'shutil.move'}
DESTRUCTIVE = {'unlink', 'rmtree', 'remove', 'rmdir', 'truncate', 'removedirs'}

POSITIVE_EXAMPLE = '''
def close(self, tag):
    path = self._path.tag(1, 2, 3)
    with path.open('wb') as tagfile:
        tagfile.write(tag.dumps())
    shutil.copytree(src, path)
    path.write_bytes(b'')
'''


def marker_slots(prog: core.Program) -> tuple[set[str], set[str]]:
    """(marker constants, marker path methods) derived from Path.<Level>.content and the Path methods."""
    path = prog.cls(f'{POSIX}:Path')
    consts = set()
    for level in ('Project', 'Release', 'Generation'):
        ci = prog.cls(f'{POSIX}:Path.{level}')
        fn = ci.methods.get('content')
        if fn is None:
            raise core.AnalysisError(f'anchor vanished: Path.{level}.content')
        for n in ast.walk(fn):
            if isinstance(n, ast.Attribute) and isinstance(n.value, ast.Name) and n.value.id == 'Path' and n.attr.isupper():
                consts.add(n.attr)
    methods = set()
    for name, fn in path.methods.items():
        rets = [r for r in core.walk_local(fn) if isinstance(r, ast.Return) and r.value is not None]
        for r in rets:
            if isinstance(r.value, ast.BinOp) and isinstance(r.value.op, ast.Div):
                tail = r.value.right
                if isinstance(tail, ast.Attribute) and tail.attr in consts:
                    methods.add(name)
    return consts, methods


def _marker_taint(fn_node: ast.AST, marker_methods: set[str]) -> dict[str, ast.AST]:
    """Variables holding a marker path (assigned from <..>._path.<marker>(...) or aliases)."""
    tainted: dict[str, ast.AST] = {}
    changed = True
    while changed:
        changed = False
        for n in ast.walk(fn_node):
            if isinstance(n, ast.Assign) and len(n.targets) == 1 and isinstance(n.targets[0], ast.Name):
                v = n.value
                name = n.targets[0].id
                if name in tainted:
                    continue
                if isinstance(v, ast.Call) and isinstance(v.func, ast.Attribute) and v.func.attr in marker_methods and '_path' in core.src(v.func.value):
                    tainted[name] = v
                    changed = True
                elif isinstance(v, ast.Name) and v.id in tainted:
                    tainted[name] = v
                    changed = True
    return tainted


def _is_marker_expr(node: ast.AST, tainted: dict[str, ast.AST], marker_methods: set[str]) -> bool:
    if isinstance(node, ast.Name):
        return node.id in tainted
    if isinstance(node, ast.Call) and isinstance(node.func, ast.Attribute) and node.func.attr in marker_methods and '_path' in core.src(node.func.value):
        return True
    return False


def marker_write_violations(fn_node: ast.AST, marker_methods: set[str]) -> tuple[list[tuple[ast.AST, str]], list[ast.Call]]:
    """(in-place writes onto a marker path, atomic publications onto a marker path)."""
    tainted = _marker_taint(fn_node, marker_methods)
    bad: list[tuple[ast.AST, str]] = []
    pubs: list[ast.Call] = []
    for c in ast.walk(fn_node):
        if not isinstance(c, ast.Call):
            continue
        name = core.call_name(c) or ''
        if isinstance(c.func, ast.Attribute) and _is_marker_expr(c.func.value, tainted, marker_methods):
            m = c.func.attr
            if m == 'open':
                mode = c.args[0] if c.args else next((k.value for k in c.keywords if k.arg == 'mode'), None)
                if isinstance(mode, ast.Constant) and isinstance(mode.value, str) and any(ch in mode.value for ch in 'wax+'):
                    bad.append((c, f'marker opened for in-place writing ({mode.value!r})'))
            elif m in WRITE_METHODS:
                bad.append((c, f'marker written in place through .{m}()'))
            elif m in DESTRUCTIVE:
                bad.append((c, f'marker removed through .{m}()'))
        if name in COPY_FUNCS and len(c.args) >= 2 and _is_marker_expr(c.args[1], tainted, marker_methods):
            bad.append((c, f'{name} writes straight onto the marker path'))
        if name == 'open' and c.args and _is_marker_expr(c.args[0], tainted, marker_methods):
            mode = c.args[1] if len(c.args) > 1 else next((k.value for k in c.keywords if k.arg == 'mode'), None)
            if isinstance(mode, ast.Constant) and any(ch in str(mode.value) for ch in 'wax+'):
                bad.append((c, 'marker opened for in-place writing'))
        # publications
        if isinstance(c.func, ast.Attribute) and c.func.attr in RENAME_METHODS and c.args and _is_marker_expr(c.args[0], tainted, marker_methods):
            if not _is_marker_expr(c.func.value, tainted, marker_methods):
                pubs.append(c)
        if name in RENAME_FUNCS and len(c.args) >= 2 and _is_marker_expr(c.args[1], tainted, marker_methods) and name != 'shutil.move':
            pubs.append(c)
    return bad, pubs


def atomic(ctx) -> None:
    prog = ctx.prog
    consts, methods = marker_slots(prog)
    ctx.sample({'marker_constants': sorted(consts), 'marker_path_methods': sorted(methods)})
    if not {'TAGFILE', 'PKGFILE'} <= consts or not {'tag', 'package'} <= methods:
        raise core.AnalysisError(f'marker slots not recognised: {consts} {methods}')
    # matcher self-check on the embedded positive example
    ex = ast.parse(POSITIVE_EXAMPLE).body[0]
    exbad, _ = marker_write_violations(ex, {'tag'})
    if len(exbad) != 3:
        raise core.AnalysisError('R-ATOMIC matcher self-check failed on the embedded positive example')
    registry = prog.cls(f'{POSIX}:Registry')
    nsites = 0
    for mname in registry.methods:
        fn = prog.func(f'{registry.ref}.{mname}')
        tainted = _marker_taint(fn.node, methods)
        uses = [c for c in ast.walk(fn.node) if isinstance(c, ast.Call) and isinstance(c.func, ast.Attribute) and c.func.attr in methods and '_path' in core.src(c.func.value)]
        if not uses:
            continue
        nsites += len(uses)
        bad, pubs = marker_write_violations(fn.node, methods)
        for node, why in bad:
            ctx.fail('R-ATOMIC.1', fn, f'{why}: a crash inside the write leaves a listed item with unreadable metadata; publish by rename/replace of a complete sibling temporary', node)
        if not bad:
            ctx.ok('R-ATOMIC.1', fn, f'{mname}: marker path never written in place ({len(pubs)} atomic publication(s))', fn.node)
        if mname in ('close', 'push'):
            ctx.check(bool(pubs), 'R-ATOMIC.1', fn, f'{mname} publishes the marker by rename/replace', fn.node, key=f'{mname}:publishes')
            graph = cfg.CFG(fn.node)
            for p in pubs:
                pst = core.enclosing_stmt(p)
                # the temporary is a sibling derived from the marker path and is completely written before publication
                tmp = p.func.value if isinstance(p.func, ast.Attribute) and p.func.attr in RENAME_METHODS else p.args[0]
                tmpname = core.src(tmp)
                defs = [s for s in core.walk_local(fn.node) if isinstance(s, ast.Assign) and core.src(s.targets[0]) == tmpname]
                sibling = bool(defs) and all(isinstance(d.value, ast.Call) and isinstance(d.value.func, ast.Attribute) and d.value.func.attr in ('with_name', 'with_suffix') and _is_marker_expr(d.value.func.value, tainted, methods) for d in defs)
                ctx.check(sibling, 'R-ATOMIC.1', fn, f'{mname}: the temporary `{tmpname}` is a sibling of the marker (same directory => rename is atomic)', p, key=f'{mname}:sibling')
                # ... of its own: a *fresh* name per publication (uuid) that starts empty - a fixed staging name left behind by a
                # publication that died is found again by the next one (copytree(dirs_exist_ok=True) merges into it, a plain
                # copytree refuses it forever), so what gets renamed onto the marker is not "the complete new item"
                fresh = bool(defs) and all('uuid.uuid4()' in core.src(d.value) for d in defs)
                ctx.check(fresh, 'R-ATOMIC.1', fn, f'{mname}: the temporary `{tmpname}` carries a fresh unique name (uuid4) for every publication', defs[0] if defs else p, key=f'{mname}:fresh-temporary')
                merges = [c for c in core.walk_local(fn.node) if isinstance(c, ast.Call) and any(k.arg == 'dirs_exist_ok' and not core.is_const(k.value, False) for k in c.keywords)]
                ctx.check(not merges, 'R-ATOMIC.1', fn, f'{mname}: the staged copy starts from nothing (no dirs_exist_ok merge into a left-over directory)', merges[0] if merges else p, key=f'{mname}:no-merge')
                writes = []
                for s in graph.statements():
                    for c in cfg.header_calls(s):
                        nm = core.call_name(c) or ''
                        if (isinstance(c.func, ast.Attribute) and core.src(c.func.value) == tmpname and c.func.attr in ('write_bytes', 'write_text', 'open')) or (nm in COPY_FUNCS and len(c.args) >= 2 and core.src(c.args[1]) == tmpname):
                            writes.append(s)
                ok_order = bool(writes) and graph.must_pass(cfg.ENTRY, pst, via=writes, normal_only=True) and not any(graph.reaches(pst, w, normal_only=True) for w in writes)
                ctx.check(ok_order, 'R-ATOMIC.1', fn, f'{mname}: the temporary is completely written on every path before it is published, never after', p, key=f'{mname}:write-before-publish')
                open_withs = [a for a in core.ancestors(p) if isinstance(a, (ast.With, ast.AsyncWith)) and any(tmpname in core.src(i.context_expr) and '.open(' in core.src(i.context_expr) for i in a.items)]
                ctx.check(not open_withs, 'R-ATOMIC.1', fn, f'{mname}: the temporary is closed (flushed) before it is renamed onto the marker - publishing inside the `with {tmpname}.open(...)` block exposes an empty/partial file if the process dies before the block exits', p, key=f'{mname}:publish-after-close')
    ctx.floor('R-ATOMIC.sites', nsites, 4)
    # R-OWNER: marker paths are touched only by the posix Registry
    outside = []
    for fn in prog.functions():
        if fn.ref.startswith(f'{POSIX}:Registry.') or fn.ref.startswith(f'{POSIX}:Path.'):
            continue
        for c in core.calls_in(fn.node):
            if isinstance(c.func, ast.Attribute) and c.func.attr in methods and '_path' in core.src(c.func.value) and fn.module.name.startswith('forml.provider.registry.filesystem'):
                outside.append(fn.loc(c))
    ctx.check(not outside, 'R-OWNER', f'{POSIX}:Registry', f'marker paths are derived only inside posix.Registry (other sites: {outside})', key='marker-owner', loc=POSIX)


def path_injective(ctx) -> None:
    """Distinct keys live in distinct directories: each posix ``Path`` builder names its component after the *whole* key it is
    given (``str(key)``, the key itself, or an f-string of it) under the directory of the level above - never after a
    projection of the key (``release.public`` drops the local version label: 1.0 and 1.0+hotfix would share one directory,
    the later package overwriting the earlier one and both sharing one generation sequence)."""
    prog = ctx.prog
    builders = {'project': ['project'], 'release': ['project', 'release'], 'generation': ['project', 'release', 'generation'], 'state': ['project', 'release', 'generation', 'sid'], 'tag': ['project', 'release', 'generation'], 'package': ['project', 'release']}
    n = 0
    for name, keys in builders.items():
        fn = prog.func(f'{POSIX}:Path.{name}')
        rets = [r for r in core.walk_local(fn.inlined().node) if isinstance(r, ast.Return)]
        if len(rets) != 1 or not isinstance(rets[0].value, ast.BinOp) or not isinstance(rets[0].value.op, ast.Div):
            ctx.fail('C05.path-injective', fn, f'Path.{name} is not of the shape <parent directory> / <component>', fn.node, key=f'{name}:shape')
            continue
        n += 1
        left, comp = rets[0].value.left, rets[0].value.right
        own = keys[-1]
        params = set(fn.param_names) - {'self'}
        # the component: the own key as a whole (for package/tag: a class constant - their key is the directory above)
        if name in ('package', 'tag'):
            okc = core.src(comp).startswith('self.') and not (core.names_in(comp) & params)
        else:
            whole = {own, f'str({own})'}
            okc = core.src(comp) in whole or (isinstance(comp, ast.JoinedStr) and any(isinstance(v, ast.FormattedValue) and core.src(v.value) == own for v in comp.values) and not any(isinstance(v, ast.FormattedValue) and core.src(v.value) != own and (core.names_in(v.value) & params) for v in comp.values))
        ctx.check(okc, 'C05.path-injective', fn, f'Path.{name}: the component `{core.src(comp)}` is the whole `{own}` key (str/f-string of it), not a projection of it', comp, key=f'{name}:component')
        # the parent: the builder of the level above with the leading keys in order (or the root itself for a project)
        above = keys[:-1] if name not in ('package', 'tag') else keys
        if not above:
            okp = core.src(left) == 'self'
        else:
            okp = isinstance(left, ast.Call) and isinstance(left.func, ast.Attribute) and core.src(left.func.value) == 'self' and [core.src(a) for a in left.args] == above and left.func.attr == {1: 'project', 2: 'release', 3: 'generation'}[len(above)]
        ctx.check(okp, 'C05.path-injective', fn, f'Path.{name}: lives under `{core.src(left)}` - the directory of the level above addressed by {above}', left, key=f'{name}:parent')
    ctx.floor('C05.path-injective', n, 6)


def volatile_append(ctx) -> None:
    """The in-memory registry is append-only too: publishing stores the new artifact *into* the project's mapping
    (``self._artifacts[project][release] = ..``); the mapping of a project is never re-bound, so earlier releases (and the
    generations below them) stay listed."""
    prog = ctx.prog
    reg = prog.cls('forml.provider.registry.filesystem.volatile:Registry')
    n = 0
    for mname in reg.methods:
        fn = prog.func(f'{reg.ref}.{mname}')
        for st in core.walk_local(fn.node):
            if isinstance(st, (ast.Assign, ast.AugAssign)):
                for t in (st.targets if isinstance(st, ast.Assign) else [st.target]):
                    if isinstance(t, ast.Subscript) and '_artifacts' in core.src(t):
                        n += 1
                        ctx.check(isinstance(t.value, ast.Subscript) and core.src(t.value.value) == 'self._artifacts', 'C05.volatile', fn, f'`{core.src(t)} = ...` adds one release to the project mapping (a store one level up replaces every earlier release)', st, key=f'{mname}:artifacts')
    ctx.floor('C05.volatile', n, 1)


def pinned_key(ctx) -> None:
    """A level resolved implicitly ("the latest") is resolved *once*: ``Level.key`` stores what it found in ``self._key``, so that
    everything done through this level object - listing, dumping states, committing the tag - addresses the same release /
    generation even when a newer one is published meanwhile."""
    prog = ctx.prog
    fn = prog.func('forml.io.asset._directory:Level.key')
    stores = [st for st in core.walk_local(fn.node) if isinstance(st, ast.Assign) and any(core.src(t) == 'self._key' for t in st.targets)]
    ok = len(stores) == 1 and core.src(stores[0].value) == 'self._parent.list().last'
    ctx.check(ok, 'C05.pinned-key', fn, 'the implicit key is taken from the parent listing once and kept (self._key = self._parent.list().last)', stores[0] if stores else fn.node, key='key:pin')
    rets = [r for r in core.walk_local(fn.node) if isinstance(r, ast.Return)]
    ctx.check(bool(rets) and all(core.src(r.value) == 'self._key' for r in rets), 'C05.pinned-key', fn, 'every exit of Level.key returns the kept key', rets[0] if rets else fn.node, key='key:return')


def staged_guard(ctx) -> None:
    """A generation is committed only from states staged under that very release: inside the loop over the tag's state ids a
    missing staged file refuses the commit - unconditionally (no resume/skip path) - before anything of this state is moved."""
    prog = ctx.prog
    cl = prog.func(f'{POSIX}:Registry.close')
    loops = [x for x in core.walk_local(cl.node) if isinstance(x, ast.For) and core.src(x.iter) == 'tag.states']
    ctx.check(len(loops) == 1, 'C05.staged', cl, 'the commit visits every state id of the tag', cl.node, key='close:loop')
    if len(loops) != 1:
        return
    lp = loops[0]
    sid = core.src(lp.target)
    rs = [r for r in ast.walk(lp) if isinstance(r, ast.Raise)]
    ok = len(rs) == 1 and 'Invalid' in core.src(rs[0]) and cfg.cguards(rs[0], lp) == [('source.exists()', False)]
    ctx.check(ok, 'C05.staged', cl, f'an unstaged state refuses the commit (raise under exactly `not source.exists()`; found {[cfg.cguards(r, lp) for r in rs]})', rs[0] if rs else lp, key='close:unstaged')
    srcs = [a for a in ast.walk(lp) if isinstance(a, ast.Assign) and core.src(a.targets[0]) == 'source']
    ctx.check(len(srcs) == 1 and core.src(srcs[0].value) == f'self._path.state({sid}, project, release)', 'C05.staged', cl, 'the staged file is looked up under this project and release (no generation yet)', srcs[0] if srcs else lp, key='close:source')
    mv = [st for st in lp.body if isinstance(st, ast.Expr) and core.src(st.value) == 'source.rename(target)']
    ctx.check(len(mv) == 1 and not any(isinstance(x, ast.Continue) for x in ast.walk(lp)), 'C05.staged', cl, 'every state of the tag is moved into the generation (no skipping)', lp, key='close:move-all')


def close_order(ctx) -> None:
    prog = ctx.prog
    _, methods = marker_slots(prog)
    fn = prog.func(f'{POSIX}:Registry.close')
    graph = cfg.CFG(fn.node)
    _, pubs = marker_write_violations(fn.node, methods)
    moves = []
    for s in graph.statements():
        for c in cfg.header_calls(s):
            if isinstance(c.func, ast.Attribute) and c.func.attr in RENAME_METHODS and not any(c is p for p in pubs):
                moves.append(s)
    ctx.check(bool(moves), 'R-ATOMIC.2', fn, 'close() moves the staged states into the generation', fn.node, key='close:moves')
    loops = [s for s in fn.body if isinstance(s, ast.For) and any(m in list(ast.walk(s)) for m in moves)]
    for p in pubs:
        pst = core.enclosing_stmt(p)
        before = all(graph.dominates(l, pst) for l in loops) and bool(loops)
        after = any(graph.reaches(pst, m, normal_only=True) for m in moves)
        ctx.check(before and not after, 'R-ATOMIC.2', fn, 'every state move precedes the tag publication on every path and none follows it (a listed generation always has all its states)', p, key='close:states-before-tag')
        # nothing but returning after publication
        later = [s for s in graph.statements() if s is not pst and graph.reaches(pst, s, normal_only=True) and cfg.header_calls(s)]
        later = [s for s in later if not all((core.call_name(c) or '').startswith('LOGGER.') for c in cfg.header_calls(s))]
        ctx.check(not later, 'R-ATOMIC.2', fn, 'the tag publication is the last file-system effect of close()', p, key='close:tag-last')
    # the state target lies in the committed generation, the source in the stage directory
    for m in moves:
        call = next(c for c in cfg.header_calls(m) if isinstance(c.func, ast.Attribute) and c.func.attr in RENAME_METHODS)
        tgt = core.src(call.args[0])
        srcv = core.src(call.func.value)
        defs = {core.src(s.targets[0]): s.value for s in core.walk_local(fn.node) if isinstance(s, ast.Assign)}
        tdef, sdef = defs.get(tgt), defs.get(srcv)
        ok = (
            isinstance(tdef, ast.Call) and core.src(tdef.func).endswith('_path.state') and len(tdef.args) == 4 and core.src(tdef.args[3]) == 'generation'
            and isinstance(sdef, ast.Call) and core.src(sdef.func).endswith('_path.state') and len(sdef.args) == 3
        )
        ctx.check(ok, 'R-ATOMIC.2', fn, 'states move from the stage directory into the generation being committed, under the same state id', m, key='close:move-endpoints')
        same_sid = ok and core.src(tdef.args[0]) == core.src(sdef.args[0])
        ctx.check(same_sid, 'R-ATOMIC.2', fn, 'source and target of a state move carry the same state id', m, key='close:same-sid')
    loop_iter = [core.src(l.iter) for l in loops]
    ctx.check(loop_iter == ['tag.states'], 'R-ATOMIC.2', fn, f'exactly the states listed on the tag are committed ({loop_iter})', fn.node, key='close:tag-states')
    # staging writes never land in a generation directory
    w = prog.func(f'{POSIX}:Registry.write')
    state_calls = [c for c in core.calls_in(w.node) if core.src(c.func).endswith('_path.state')]
    ctx.check(len(state_calls) == 1 and len(state_calls[0].args) == 3 and not state_calls[0].keywords, 'R-ATOMIC.2', w, 'write() stages the state (no generation given => stage directory), committed generations are never written', w.node, key='write:stage-only')
    st = prog.func(f'{POSIX}:Path.state')
    text = core.src(st.node)
    ctx.check('if generation is None' in text and 'generation = self.STAGEDIR' in text, 'R-ATOMIC.2', st, 'a state path without generation is the stage directory', st.node, key='state:stage-default')


def append_only(ctx) -> None:
    prog = ctx.prog
    ex = ast.parse('def f(p):\n    p.unlink()\n    shutil.rmtree(p)\n')
    if sum(1 for c in ast.walk(ex) if isinstance(c, ast.Call) and (core.call_name(c) or '').split('.')[-1] in DESTRUCTIVE) != 2:
        raise core.AnalysisError('append-only matcher self-check failed')
    n = 0
    for mod in (POSIX, MAJOR, MINOR, CASE, DIRECTORY, 'forml.io.asset._access', 'forml.io.asset._persistent'):
        for fn in prog.functions([mod]):
            n += 1
            for c in core.calls_in(fn.node):
                last = (core.call_name(c) or '').split('.')[-1]
                if last in DESTRUCTIVE:
                    ctx.fail('C05.append-only', fn, f'destructive call `{core.src(c)[:80]}` in the registry/asset layer: earlier generations, tags and packages must stay byte-identical', c)
    ctx.ok('C05.append-only', POSIX, f'{n} functions of the posix registry and asset levels contain no unlink/rmtree/remove/rmdir/truncate')
    ctx.floor('C05.append-only.functions', n, 60)


def monotonic_release(ctx) -> None:
    prog = ctx.prog
    fn = prog.func(f'{CASE}:Project.put')
    graph = cfg.CFG(fn.node)
    pushes = [core.enclosing_stmt(c) for c in core.calls_in(fn.node) if isinstance(c.func, ast.Attribute) and c.func.attr == 'push' and 'registry' in core.src(c.func.value)]
    if not pushes:
        raise core.AnalysisError('Project.put: registry.push not found')
    push = pushes[-1]
    tr = next((s for s in fn.body if isinstance(s, ast.Try)), None)
    if tr is None:
        raise core.AnalysisError('Project.put: try/except/else idiom not found')
    handlers = tr.handlers
    hnames = []
    for h in handlers:
        ts = h.type.elts if isinstance(h.type, ast.Tuple) else [h.type]
        hnames += [core.src(t).split('.')[-1] for t in ts if t is not None]
    ctx.check(set(hnames) <= {'Invalid', 'Empty'} and bool(hnames), 'C05.monotonic', fn, f'only "no previous release" conditions bypass the version check (handlers: {hnames})', tr, key='put:handlers')
    cmps = []
    for r in [n for n in core.walk_local(fn.node) if isinstance(n, ast.Raise)]:
        for t, pol in cfg.cguards(r, fn.node):
            txt = t.replace(' ', '')
            if (not pol and txt in ('release>previous', 'previous<release')) or (pol and txt in ('release<=previous', 'previous>=release')):
                cmps.append(next(a for a in core.ancestors(r) if isinstance(a, ast.If)))
    ctx.check(bool(cmps), 'C05.monotonic', fn, 'a release not greater than the latest existing one is rejected', fn.node, key='put:compare')
    hnodes = [h for h in handlers]
    via = [c for c in cmps] + hnodes
    for push in pushes:
        ok = bool(cmps) and graph.must_pass(cfg.ENTRY, push, via=via)
        ctx.check(ok, 'C05.monotonic', fn, 'registry.push is reachable only through the version comparison or the no-previous-release handler', push, key='put:dominance', path=graph.path(cfg.ENTRY, push, avoid=via))
    mm = [r for r in core.walk_local(fn.node) if isinstance(r, ast.Raise) and cfg.cg(('project != self.key', True))[0] in cfg.cguards(r, fn.node)]
    ctx.check(len(mm) == 1 and any(isinstance(a, ast.Assign) and core.src(a) == 'project = package.manifest.name' for a in core.walk_local(fn.node)), 'C05.monotonic', fn, 'a package of another project is refused (its releases must not enter this project\'s history)', mm[0] if mm else fn.node, key='put:project')
    ret = [r for r in fn.body if isinstance(r, ast.Return)]
    ctx.check(len(ret) == 1 and core.src(ret[0].value) == 'self.get(release)' and any(core.src(a) == 'release = package.manifest.version' for a in core.walk_local(fn.node)), 'C05.monotonic', fn, 'the published release is the package\'s own version', ret[0] if ret else fn.node, key='put:return')
    prev = [s for s in core.walk_local(fn.node) if isinstance(s, ast.Assign) and core.src(s.targets[0]) == 'previous']
    ctx.check(len(prev) == 1 and core.src(prev[0].value) == 'self.list().last', 'C05.monotonic', fn, 'the comparison is against the maximum existing release (list().last)', prev[0] if prev else fn.node, key='put:previous')


def gap_free(ctx) -> None:
    prog = ctx.prog
    fn = prog.func(f'{MAJOR}:Release.put')
    closes = [c for c in core.calls_in(fn.node) if isinstance(c.func, ast.Attribute) and c.func.attr == 'close' and 'registry' in core.src(c.func.value)]
    if len(closes) != 1:
        raise core.AnalysisError('Release.put: single registry.close idiom not found')
    gen_arg = closes[0].args[2] if len(closes[0].args) >= 3 else None
    ctx.check(isinstance(gen_arg, ast.Name), 'C05.gap-free', fn, 'registry.close receives the allocated generation number', closes[0], key='close-arg')
    gname = gen_arg.id if isinstance(gen_arg, ast.Name) else 'generation'
    key = prog.cls(f'{MINOR}:Generation.Key')
    minval = key.assigns.get('MIN')
    if not isinstance(minval, ast.Constant):
        raise core.AnalysisError('Generation.Key.MIN is not a literal')
    assigns = [s for s in core.walk_local(fn.node) if isinstance(s, ast.Assign) and core.src(s.targets[0]) == gname]
    kinds = []
    for a in assigns:
        text = core.src(a.value)
        handler = next((h for h in core.ancestors(a) if isinstance(h, ast.ExceptHandler)), None)
        if text == 'self.list().last.next':
            kinds.append('next')
            ctx.ok('C05.gap-free', fn, 'new generation = list().last.next', a)
        elif handler is not None and 'Empty' in core.src(handler.type) and ((isinstance(a.value, ast.Constant) and a.value.value == minval.value) or text.endswith('Key.MIN') or text.endswith('Key()')):
            kinds.append('min')
            ctx.ok('C05.gap-free', fn, f'first generation = {text} (= Generation.Key.MIN = {minval.value}) only when the listing is empty', a)
        else:
            kinds.append('other')
            ctx.fail('C05.gap-free', fn, f'generation number allocated as `{text}`: must be one above the highest existing one (list().last.next), or Key.MIN={minval.value} for an empty release', a)
    ctx.check(sorted(kinds) == ['min', 'next'], 'C05.gap-free', fn, f'generation allocation idioms: {kinds}', fn.node, key='allocation')
    ctx.check(core.src(closes[0].args[3]) == 'tag' if len(closes[0].args) > 3 else False, 'C05.gap-free', fn, 'the tag given to put() is the one committed', closes[0], key='close-tag')
    nxt = prog.func(f'{MINOR}:Generation.Key.next')
    ret = next((s for s in nxt.body if isinstance(s, ast.Return)), None)
    ctx.check(ret is not None and core.src(ret.value).replace(' ', '') in ('self.__class__(self+1)', 'type(self)(self+1)', 'Generation.Key(self+1)', 'self+1'), 'C05.gap-free', nxt, 'Generation.Key.next = self + 1', nxt.node, key='next')
    new = prog.func(f'{MINOR}:Generation.Key.__new__')
    raises = [(r, [(t.replace(' ', ''), pol) for t, pol in cfg.cguards(r, new.node)]) for r in core.walk_local(new.node) if isinstance(r, ast.Raise)]
    ctx.check(any(g == ('instance<cls.MIN', True) for _, gs in raises for g in gs), 'C05.gap-free', new, 'generation keys below MIN are rejected', new.node, key='key-min')
    lst = prog.func(f'{DIRECTORY}:Level.Listing.__new__')
    ctx.check('tuple(sorted(set(items)))' in core.src(lst.node) or 'sorted(set(items))' in core.src(lst.node), 'C05.gap-free', lst, 'listings are sorted and duplicate-free', lst.node, key='listing')
    last = prog.func(f'{DIRECTORY}:Level.Listing.last')
    text = core.src(last.node)
    ctx.check('return self[-1]' in text or 'return max(self)' in text, 'C05.gap-free', last, '"last" is the maximum of the sorted listing', last.node, key='last')
    rl = prog.func(f'{MAJOR}:Release.list')
    ctx.check('self.registry.generations(self.project.key, self.key)' in core.src(rl.node), 'C05.gap-free', rl, 'generation numbers are allocated against the registry listing of this very release', rl.node, key='list')


def listing_validity(ctx) -> None:
    prog = ctx.prog
    lst = prog.func(f'{POSIX}:Registry._listing')
    comps = [n for n in ast.walk(lst.node) if isinstance(n, (ast.ListComp, ast.GeneratorExp)) and len(n.generators) == 1 and 'iterdir()' in core.src(n.generators[0].iter)]
    okl = False
    for comp in comps:
        v = core.src(comp.generators[0].target)
        okl = okl or (core.src(comp.elt) == f'matcher.constructor({v}.name)' and [core.src(c) for c in comp.generators[0].ifs] == [f'matcher.valid({v})'])
    ctx.check(okl, 'C05.listing', lst, 'a level is listed only when matcher.valid accepts it (key built from the accepted entry)', lst.node, key='listing:valid')
    valid = prog.func(f'{POSIX}:Path.Matcher.valid')
    # valid = key AND content: returns False under `not cls.key(path)` and under `not cls.content(path)`
    falses = []
    for r in core.walk_local(valid.node):
        if isinstance(r, ast.Return) and core.is_const(r.value, False):
            falses += [f'not {t}' for t, pol in cfg.cguards(r, valid.node) if not pol]
    direct = any(isinstance(r, ast.Return) and core.src(r.value).replace(' ', '') in ('cls.key(path)andcls.content(path)',) for r in core.walk_local(valid.node))
    ctx.check(direct or {'not cls.key(path)', 'not cls.content(path)'} <= set(falses), 'C05.listing', valid, 'valid = key is valid AND the level content (marker) is present', valid.node, key='valid')
    for level, const in (('Generation', 'TAGFILE'), ('Release', 'PKGFILE')):
        fn = prog.func(f'{POSIX}:Path.{level}.content')
        ctx.check(f'(level / Path.{const}).exists()' in core.src(fn.node), 'C05.listing', fn, f'a {level.lower()} is visible iff its marker {const} exists', fn.node, key=f'content:{level}')
        rr = [r for r in core.walk_local(fn.node) if isinstance(r, ast.Return)]
        ctx.check(len(rr) == 1 and core.src(rr[0].value) == f'(level / Path.{const}).exists()', 'C05.listing', fn, f'... and on nothing else: the marker alone decides (a generation without states, a release without generations are still listed) - `{core.src(rr[0].value) if rr else None}`', fn.node, key=f'content:{level}:only-marker')
    for call, level in (('generations', 'Generation'), ('releases', 'Release'), ('projects', 'Project')):
        fn = prog.func(f'{POSIX}:Registry.{call}')
        ctx.check(f'Path.{level})' in core.src(fn.node), 'C05.listing', fn, f'{call}() lists with the {level} matcher', fn.node, key=f'{call}:matcher')
    # exceptions of the key constructors are caught by Matcher.key
    key = prog.func(f'{POSIX}:Path.Matcher.key')
    caught = set()
    for h in [n for n in ast.walk(key.node) if isinstance(n, ast.ExceptHandler)]:
        ts = h.type.elts if isinstance(h.type, ast.Tuple) else [h.type]
        caught |= {core.src(t) for t in ts if t is not None}
    rk = [r for r in key.body if isinstance(r, ast.Return)]
    ctx.check(len(rk) == 1 and core.src(rk[0].value) == 'path.is_dir() and constructs(path.name)', 'C05.listing', key, 'a listed key is a directory AND its name constructs a valid key of the level', rk[0] if rk else key.node, key='key:conjunction')
    cons = key.nested('constructs')
    tr = next((x for x in cons.body if isinstance(x, ast.Try)), None)
    ctx.check(tr is not None and len(tr.body) == 1 and core.src(tr.body[0]) == f'cls.constructor({cons.param_names[0]})' and all(core.is_const(r.value, False) for h in tr.handlers for r in ast.walk(h) if isinstance(r, ast.Return)) and isinstance(cons.body[-1], ast.Return) and core.is_const(cons.body[-1].value, True), 'C05.listing', cons, 'constructs(name) = the level key constructor accepts the name', cons.node, key='key:constructs')
    inv = prog.cls(f'{DIRECTORY}:Level.Key.Invalid')
    ext = set(inv.external_bases())
    ctx.check(bool(caught & ext) or 'Exception' in caught, 'C05.listing', key, f'Level.Key.Invalid (bases {sorted(ext)}) is caught by Matcher.key ({sorted(caught)}): an invalid directory name is skipped, not fatal', key.node, key='key:exceptions')


CACHE_OK = {'open', 'read', 'mount'}
LISTING_NAMES = {'projects', 'releases', 'generations', 'list', '_listing', 'last', 'key'}


def r_cache(ctx) -> None:
    prog = ctx.prog
    n = 0
    mods = [m for m in prog.modules if m.startswith(('forml.io.asset', 'forml.provider.registry', 'forml.application', 'forml.runtime'))]
    for fn in prog.functions(mods):
        decos = core.decorator_names(fn.node)
        if any(d.split('.')[-1] in ('lru_cache', 'cache', 'cached_property') for d in decos):
            n += 1
            ctx.check(fn.name not in LISTING_NAMES, 'R-CACHE', fn, f'memoised function `{fn.name}` is not a listing (a cached listing never shows new releases/generations)', fn.node, key=f'cache:{fn.name}')
    # ... nor by hand: a listing function keeps nothing on its object (``if not self._x: self._x = <listing>; return self._x``
    # is the same stale listing - a generation committed meanwhile is never seen, the next one re-uses its number)
    for fn in prog.functions([m for m in mods if m.startswith(('forml.io.asset', 'forml.provider.registry'))]):
        if fn.name not in LISTING_NAMES - {'key'} or fn.cls is None:
            continue
        n += 1
        stores = [x for x in core.walk_local(fn.node) if isinstance(x, ast.Attribute) and isinstance(x.ctx, ast.Store) and core.src(x.value) == 'self']
        ctx.check(not stores, 'R-CACHE', fn, f'listing `{fn.qual}` keeps nothing on the instance (writes {[core.src(x) for x in stores]}): every call reads the registry', stores[0] if stores else fn.node, key=f'listing-memo:{fn.qual}')
    for modname in mods:
        mod = prog.modules[modname]
        for name, val in mod.assigns.items():
            if isinstance(val, ast.Call) and (core.call_name(val) or '').endswith('Cache') and val.args:
                n += 1
                target = (core.dotted(val.args[0]) or '').split('.')[-1]
                ctx.check(target in CACHE_OK, 'R-CACHE', modname, f'{name} = Cache({core.src(val.args[0])}): only immutable committed content may be cached (allowed: {sorted(CACHE_OK)})', key=f'Cache:{name}', loc=f'{mod.relpath}:{val.lineno}')
    ctx.floor('R-CACHE', n, 8)


def listing_passthrough(ctx) -> None:
    """Every Level.list implementation that lists registry content asks the registry on every call (no instance-level
    or hand-rolled cache: a stale listing re-allocates an existing generation number / hides new releases)."""
    prog = ctx.prog
    level = prog.cls(f'{DIRECTORY}:Level')
    n = 0
    for ci in prog.subclasses(level):
        if 'list' not in ci.methods:
            continue
        fn = prog.func(f'{ci.ref}.list')
        reg_stmts = []
        graph = cfg.CFG(fn.node)
        for s in graph.statements():
            for c in cfg.header_calls(s):
                if isinstance(c.func, ast.Attribute) and 'registry' in core.src(c.func.value) and c.func.attr in ('projects', 'releases', 'generations'):
                    reg_stmts.append(s)
        if not reg_stmts:
            if ci.name == 'Generation':
                ctx.ok('C05.listing-fresh', fn, 'Generation.list lists the states of its (immutable) tag', fn.node)
                continue
            ctx.fail('C05.listing-fresh', fn, f'{ci.name}.list does not consult the registry', fn.node, key=f'{ci.name}.list:registry')
            continue
        n += 1
        fresh = graph.must_pass(cfg.ENTRY, cfg.EXIT, via=reg_stmts, normal_only=True)
        stores = [x for x in core.walk_local(fn.node) if isinstance(x, (ast.Assign, ast.AugAssign)) and any(isinstance(t, ast.Attribute) and core.src(t.value) == 'self' for t in (x.targets if isinstance(x, ast.Assign) else [x.target]))]
        ctx.check(fresh and not stores, 'C05.listing-fresh', fn, f'{ci.name}.list asks the registry on every call and keeps no copy on the instance', fn.node, key=f'{ci.name}.list:fresh')
    ctx.floor('C05.listing-fresh', n, 2)
    # the committed tag lists the states in the order given (actor order)
    dumps = prog.func(f'{MINOR}:Tag.dumps')
    d = next((n for n in ast.walk(dumps.node) if isinstance(n, ast.Dict) and any(isinstance(k, ast.Constant) and k.value == 'states' for k in n.keys)), None)
    if d is None:
        raise core.AnalysisError('Tag.dumps: literal with a states key not found')
    val = next(v for k, v in zip(d.keys, d.values) if isinstance(k, ast.Constant) and k.value == 'states')
    okp, why = shared.order_preserving(val, 'self.states')
    ctx.check(okp, 'C05.state-order', dumps, f'Tag.dumps writes the states in actor order ({why})', val, key='dumps:states-order')
    loads = prog.func(f'{MINOR}:Tag.loads')
    kw = next((k.value for c in core.calls_in(loads.node) for k in c.keywords if k.arg == 'states'), None)
    if kw is None:
        raise core.AnalysisError('Tag.loads: states keyword not found')
    okp, why = shared.order_preserving(kw, "meta['states']")
    ctx.check(okp, 'C05.state-order', loads, f'Tag.loads reads the states back in written order ({why})', kw, key='loads:states-order')
    new = prog.func(f'{MINOR}:Tag.__new__')
    ret = next((r for r in core.walk_local(new.node) if isinstance(r, ast.Return)), None)
    okp, why = shared.order_preserving(ret.value.args[-1], 'states') if ret is not None and isinstance(ret.value, ast.Call) and ret.value.args else (False, 'constructor idiom not recognised')
    ctx.check(okp, 'C05.state-order', new, f'Tag keeps the states as an ordered tuple ({why})', ret, key='new:states-order')


def key_paths(ctx) -> None:
    """Every registry access made by a level of the asset hierarchy addresses *its own* position: the argument bound to the
    registry parameter ``project`` / ``release`` / ``generation`` is the key of that very level of the receiver
    (``self.key`` for the own level, ``self.<level>.key`` for the ones above, or a local of that name derived from one of
    those) - both for direct ``self.registry.m(...)`` calls and for the cached accessors (TAGS/STATES/ARTIFACTS)."""
    prog = ctx.prog
    reg = prog.cls('forml.io.asset._persistent:Registry')
    levels = {f'{CASE}:Project': 'project', f'{MAJOR}:Release': 'release', f'{MINOR}:Generation': 'generation'}
    caches = {}
    for mod in (MAJOR, MINOR):
        for st in prog.module(mod).tree.body:
            if isinstance(st, ast.Assign) and isinstance(st.value, ast.Call) and core.call_tail(st.value) == 'Cache' and st.value.args:
                caches[core.src(st.targets[0])] = core.src(st.value.args[0]).split('.')[-1]
    n = 0
    for cref, own in levels.items():
        ci = prog.cls(cref)
        for mname in ci.methods:
            fn = prog.func(f'{ci.ref}.{mname}')
            local = {core.src(a.targets[0]): core.src(a.value) for a in core.walk_local(fn.node) if isinstance(a, ast.Assign) and len(a.targets) == 1 and isinstance(a.targets[0], ast.Name)}
            for c in core.calls_in(fn.node):
                method, args = None, None
                if isinstance(c.func, ast.Attribute) and core.src(c.func.value) == 'self.registry':
                    method, args = c.func.attr, list(c.args)
                elif isinstance(c.func, ast.Name) and c.func.id in caches and c.args and core.src(c.args[0]) == 'self.registry':
                    method, args = caches[c.func.id], list(c.args[1:])
                if method is None or method not in reg.methods or any(isinstance(a, ast.Starred) for a in args):
                    continue
                params = [a.arg for a in reg.methods[method].args.args[1:]]
                for pname, arg in zip(params, args):
                    if pname not in levels.values():
                        continue
                    n += 1
                    text = core.src(arg)
                    text = local.get(text, text) if isinstance(arg, ast.Name) else text
                    want = 'self.key' if pname == own else f'self.{pname}.key'
                    okk = text == want or (isinstance(arg, ast.Name) and arg.id == pname and pname != own and text == arg.id) or (isinstance(arg, ast.Name) and arg.id == pname and list(levels.values()).index(pname) > list(levels.values()).index(own))
                    ctx.check(okk, 'R-KEYPATH', fn, f'registry.{method}(... {pname}=`{core.src(arg)}` ...): the {pname} key of a {own} level is `{want}`', c, key=f'{mname}:{method}:{pname}')
    ctx.floor('R-KEYPATH', n, 10)


def run(ctx) -> None:
    path_injective(ctx)
    volatile_append(ctx)
    pinned_key(ctx)
    # nothing is computed from a loop variable after its loop ran to completion (it would be the last element's value)
    shared.r_staleloop(ctx, ctx.prog.functions([m for m in ctx.prog.modules if m.startswith(('forml.io.asset', 'forml.provider.registry'))]))
    key_paths(ctx)
    staged_guard(ctx)
    from . import C08

    C08.eqhash_agreement(ctx, ('forml.io.asset',), floor=3)
    atomic(ctx)
    listing_passthrough(ctx)
    close_order(ctx)
    append_only(ctx)
    monotonic_release(ctx)
    gap_free(ctx)
    listing_validity(ctx)
    r_cache(ctx)
    shared.argname_scope(ctx, ('forml.io.asset', 'forml.provider.registry.filesystem'), floor=2)
