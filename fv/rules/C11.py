"""C11 - graph construction keeps topology invariants under any call sequence (DESIGN.md section 4/C11)."""
from __future__ import annotations

import ast

from .. import cfg, core
from . import shared

EXPLANATION = (
    'Static decision of the structural clauses of C11: (1) R-OWNER - the subscription registry _PORTS is written only by '
    'Subscription.__new__/__del__ and the rollback handler of Publishable.publish; output port sets are extended only by '
    'Node._publish; Future._input only by the register closure; (2) override chain - Worker._publish and Future._publish '
    'reach Node._publish (self-loop check) through super() on every non-raising path; every check of Subscription.__new__ '
    'precedes the registration write; a placeholder input index accepts one publisher only; (3) guards dominate effects - '
    'in Worker.train the stateless and fork-collision raises dominate both publishes; in Worker._publish the trained raise '
    'dominates the upstream publish; (4) R-TXN - inside port.py/atomic.py no raise-capable publish/collapse follows an '
    'already committed mutation without a compensating handler (Publishable.publish is the model: register, try republish, '
    'except discard); (5) composition gate - Composition.__new__ validates both the apply and the train segment before '
    'constructing, the validator refuses placeholders, traversal raises Cyclic for a subscriber that is already a member. '
    'Equivalence of Future-mediated wiring with direct wiring for all call orders is not decided.'
)
ASSUMPTIONS = ['TopologyError is the only error the construction API raises on illegal calls']
MANIFEST = {
    'level': 'Static who-may-write, dominance and transaction (mutation-then-may-raise) rules over the two modules that '
             'implement the construction API, with a may-raise summary computed over their call graph. "Leaves the graph '
             'exactly as it was" under any call sequence is a property of every failing path, which is what a path rule '
             'covers and a per-rule example test does not.',
    'note': 'Trusted: stdlib ast; name-based method resolution inside forml.flow._graph (closed module). Known findings K5, '
            'K6, K7 (no rollback in Worker.train / Future registration; several publishers on one placeholder index).',
    'technique': 'static analysis: who-may-write census (R-OWNER), may-raise call-graph summary + CFG ordering (R-TXN), '
                 'dominance of guards over effects, super()-chain resolution via static MRO',
}

PORT = 'forml.flow._graph.port'
ATOMIC = 'forml.flow._graph.atomic'
SPAN = 'forml.flow._graph.span'
ASSEMBLY = 'forml.flow._suite.assembly'
CLEAN = 'forml.flow._suite.clean'

COMPENSATORS = {'discard', 'remove', 'pop', 'clear'}


def _stores(fn_node: ast.AST, what: str) -> list[ast.AST]:
    """Statements/calls that write the container attribute named ``what`` (subscript store, add/discard/update...)."""
    out = []
    for n in core.walk_deep(fn_node):
        if isinstance(n, (ast.Assign, ast.AugAssign, ast.Delete)):
            tgts = n.targets if isinstance(n, (ast.Assign, ast.Delete)) else [n.target]
            for t in tgts:
                base = t.value if isinstance(t, ast.Subscript) else t
                if (core.dotted(base) or '').split('.')[-1] == what:
                    out.append(n)
        elif isinstance(n, ast.Call) and isinstance(n.func, ast.Attribute) and n.func.attr in ('add', 'discard', 'update', 'remove', 'pop', 'clear', 'setdefault', 'append'):
            base = n.func.value
            while isinstance(base, (ast.Subscript, ast.Call)):
                base = base.value if isinstance(base, ast.Subscript) else base.func
            if isinstance(base, ast.Attribute) and base.attr == 'get':
                base = base.value
            if (core.dotted(base) or '').split('.')[-1] == what:
                out.append(n)
    return out


def registration_function(prog: core.Program) -> core.FuncInfo:
    """The function of class Future that records a publisher in ``self._input`` (located by what it does, not by name)."""
    cands = []
    for fn in prog.functions([ATOMIC]):
        if not fn.qual.startswith('Future.'):
            continue
        for n in core.walk_local(fn.node):
            if isinstance(n, ast.Assign) and any(isinstance(t, ast.Subscript) and core.src(t.value) == 'self._input' for t in n.targets):
                cands.append(fn)
    if len(cands) != 1:
        raise core.AnalysisError(f'anchor vanished: the placeholder registration function (writers of Future._input: {[c.ref for c in cands]})')
    return cands[0]


def owners(ctx) -> None:
    prog = ctx.prog
    mods = [m for m in prog.modules if m.startswith('forml.flow')]
    table = {
        '_PORTS': {f'{PORT}:Subscription.__new__', f'{PORT}:Subscription.__del__', f'{PORT}:Publishable.publish'},
        '_output': {f'{ATOMIC}:Node._publish', f'{ATOMIC}:Node.__init__'},
        '_input': {registration_function(prog).ref, f'{ATOMIC}:Future.__init__'},
    }
    for attr, allowed in table.items():
        n = 0
        for fn in prog.functions(mods):
            # closures are reported under their own ref; skip the enclosing function's duplicate view
            for w in _stores(fn.node, attr):
                if prog.func_of_node(w) is not fn:
                    continue
                n += 1
                ctx.check(fn.ref in allowed, 'R-OWNER', fn, f'`{attr}` is written only by its owner ({sorted(a.split(":")[1] for a in allowed)})', w)
        ctx.floor(f'R-OWNER.{attr}', n, 2 if attr == '_PORTS' else 1)
    dl = prog.func(f'{PORT}:Subscription.__del__')
    body = [core.src(x) for x in dl.body if not (isinstance(x, ast.Expr) and isinstance(x.value, ast.Constant))]
    ctx.check(body == ['self._PORTS.get(self.node, {}).discard(self.port)'], 'R-OWNER', dl, f'a dying subscription releases exactly its own port of its own node - the other ports of the node stay registered ({body})', dl.node, key='__del__:own-port-only')
    pub = prog.func(f'{PORT}:Publishable.publish')
    for w in _stores(pub.node, '_PORTS'):
        in_handler = any(isinstance(a, ast.ExceptHandler) for a in core.ancestors(w))
        ctx.check(in_handler and isinstance(w, ast.Call) and w.func.attr == 'discard', 'R-OWNER', pub, 'outside Subscription the registry is touched only to roll a failed publish back', w, key='publish:rollback-only')


def chains_and_guards(ctx) -> None:
    prog = ctx.prog
    node = prog.cls(f'{ATOMIC}:Node')
    for cname in ('Worker', 'Future'):
        ci = prog.cls(f'{ATOMIC}:{cname}')
        fn = prog.func(f'{ci.ref}._publish')
        graph = cfg.CFG(fn.node)
        sup = [s for s in graph.statements() if any(isinstance(c.func, ast.Attribute) and c.func.attr == '_publish' and core.src(c.func.value) == 'super()' for c in cfg.header_calls(s))]
        nxt = ci.lookup_after(ci, '_publish')
        ok = len(sup) == 1 and graph.must_pass(cfg.ENTRY, cfg.EXIT, via=sup, normal_only=True) and nxt is not None and nxt[0] is node
        ctx.check(ok, 'C11.chain', fn, f'{cname}._publish reaches Node._publish (self-loop check) through super() on every non-raising path', fn.node, key=f'{cname}:super')
        if sup:
            call = next(c for c in cfg.header_calls(sup[0]) if isinstance(c.func, ast.Attribute) and c.func.attr == '_publish')
            ctx.check([core.src(a) for a in call.args] == ['index', 'subscription'], 'C11.chain', fn, 'index and subscription are forwarded unchanged', sup[0], key=f'{cname}:args')
        if cname == 'Worker':
            raises = [r for r in core.walk_local(fn.node) if isinstance(r, ast.Raise)]
            gate = [next(a for a in core.ancestors(r) if isinstance(a, ast.If)) for r in raises if [(core.src(t), pol) for t, pol in cfg.guards(r, fn.node, siblings=False)] == [('self.trained', True)]]
            ctx.check(bool(gate) and bool(sup) and all(graph.dominates(g, sup[0]) for g in gate), 'C11.guard', fn, 'a trained worker publishes nothing: the trained raise dominates the upstream publish', fn.node, key='Worker._publish:trained')
    np = prog.func(f'{node.ref}._publish')
    g = cfg.CFG(np.node)
    adds = [s for s in g.statements() if any(isinstance(c.func, ast.Attribute) and c.func.attr == 'add' and '_output' in core.src(c.func.value) for c in cfg.header_calls(s))]
    raises = [r for r in core.walk_local(np.node) if isinstance(r, ast.Raise)]
    selfloop = [next(a for a in core.ancestors(r) if isinstance(a, ast.If)) for r in raises if [(core.src(t), pol) for t, pol in cfg.guards(r, np.node, siblings=False)] in ([('self is subscription.node', True)], [('subscription.node is self', True)])]
    ctx.check(len(adds) == 1 and bool(selfloop) and all(g.dominates(s, adds[0]) for s in selfloop), 'C11.guard', np, 'no node feeds itself: the self-subscription raise dominates the port write', np.node, key='Node._publish:selfloop')
    if adds:
        call = next(c for c in cfg.header_calls(adds[0]) if isinstance(c.func, ast.Attribute) and c.func.attr == 'add')
        ctx.check(core.src(call.func.value) == 'self._output[index]' and core.src(call.args[0]) == 'subscription', 'C11.guard', np, 'the subscription is added to the addressed output port', adds[0], key='Node._publish:port')
    # Subscription.__new__: every check precedes the registration
    sn = prog.func(f'{PORT}:Subscription.__new__')
    g = cfg.CFG(sn.node)
    regs = [s for s in g.statements() if any(isinstance(c.func, ast.Attribute) and c.func.attr == 'add' and '_PORTS' in core.src(c.func.value) for c in cfg.header_calls(s))]
    checks = [next(a for a in core.ancestors(r) if isinstance(a, ast.If)) for r in core.walk_local(sn.node) if isinstance(r, ast.Raise)]
    ctx.floor('C11.subscription-checks', len(checks), 3)
    ctx.check(len(regs) == 1 and all(g.dominates(c, regs[0]) for c in checks), 'C11.guard', sn, f'all {len(checks)} exclusivity checks dominate the registration write', sn.node, key='Subscription:checks-first')
    conds = []
    for r in [r for r in core.walk_local(sn.node) if isinstance(r, ast.Raise)]:
        gs = cfg.guards(r, sn.node, siblings=False)
        if len(gs) == 1 and gs[0][1]:  # raised when the (single) condition holds
            conds.append(core.src(gs[0][0]))
    want = {
        'double': any(c == 'port in cls._PORTS[subscriber]' for c in conds),
        'apply/train': any(c.startswith('cls._PORTS[subscriber] and isinstance(port, Apply) ^ any(') for c in conds),
        'trained publishes': any(c == 'isinstance(port, (Train, Label)) and any(subscriber.output)' for c in conds),
        'future subscribing': any(c == 'isinstance(subscriber, atomic.Future)' for c in conds),
    }
    for k, v in want.items():
        ctx.check(v, 'C11.guard', sn, f'subscription check present: {k}', sn.node, key=f'Subscription:{k}')
    trd = prog.func(f'{ATOMIC}:Worker.trained')
    ret = next((r for r in core.walk_local(trd.node) if isinstance(r, ast.Return)), None)
    okt = ret is not None and core.src(ret.value).replace(' ', '') in ('any((isinstance(p,(port.Train,port.Label))forpinself.input))', 'any(isinstance(p,(port.Train,port.Label))forpinself.input)', 'any((isinstance(p,(port.Label,port.Train))forpinself.input))')
    ctx.check(okt, 'C11.guard', trd, 'a worker counts as trained as soon as it holds a Train *or* a Label subscription (either one makes it a non-publisher and occupies the group\'s single trained slot)', trd.node, key='Worker.trained')
    # Worker.train guards
    tr = prog.func(f'{ATOMIC}:Worker.train')
    g = cfg.CFG(tr.node)
    pubs = [s for s in g.statements() if any(isinstance(c.func, ast.Attribute) and c.func.attr == 'publish' for c in cfg.header_calls(s))]
    gates = {}
    for r in [r for r in core.walk_local(tr.node) if isinstance(r, ast.Raise)]:
        gs = cfg.guards(r, tr.node, siblings=False)
        if len(gs) == 1 and gs[0][1]:
            gates[core.src(gs[0][0])] = next(a for a in core.ancestors(r) if isinstance(a, ast.If))
    ok = len(pubs) == 2 and 'not self.stateful' in gates and any(k.replace(' ', '') in ('any((f.trainedforfinself._group))', 'any(f.trainedforfinself._group)') for k in gates) and all(g.dominates(x, p) for x in gates.values() for p in pubs)
    ctx.check(ok, 'C11.guard', tr, 'stateless and fork-collision refusals dominate both train publishes (a group has at most one trained member)', tr.node, key='Worker.train:guards')
    if len(pubs) == 2:
        texts = [core.src(p) for p in pubs]
        ctx.check(texts == ['train.publish(self, port.Train())', 'label.publish(self, port.Label())'], 'C11.guard', tr, 'train feeds the Train port, label the Label port', tr.node, key='Worker.train:ports')
    # port proxies / callbacks created per index must bind that index early
    shared.r_latebind(ctx, prog.functions([PORT, ATOMIC, SPAN]))
    # the registration callback handed to the placeholder proxy records the index of the proxy it was created for
    regname = reg_name = registration_function(prog)
    # a placeholder input index takes one publisher
    reg = registration_function(prog)
    conds = [core.src(t) for r in core.walk_local(reg.node) if isinstance(r, ast.Raise) for t, pol in cfg.guards(r, reg.node, siblings=False) if pol]
    ctx.check('publisher in self._input' in conds, 'C11.guard', reg, 'a publisher registers once per placeholder', reg.node, key='register:publisher-once')
    ctx.check(any('index in' in c and '_input' in c for c in conds), 'C11.guard', reg, 'a placeholder input index must refuse a second publisher (both would be forwarded to the same downstream input ports: more than one publisher per input port)', reg.node, key='register:index-once')


# ---- R-TXN ------------------------------------------------------------------------------------------
def may_raise_names(prog: core.Program) -> set[str]:
    """Method/function names of forml.flow._graph that may raise TopologyError (transitively, name-based)."""
    fns = list(prog.functions([PORT, ATOMIC, SPAN]))
    direct = set()
    calls = {}
    for fn in fns:
        names = set()
        for n in core.walk_local(fn.node):
            if isinstance(n, ast.Raise) and n.exc is not None and ('TopologyError' in core.src(n.exc) or 'Cyclic' in core.src(n.exc)):
                direct.add(fn.name if fn.name != '__new__' else fn.qual.split('.')[-2])
            if isinstance(n, ast.Call):
                names.add(core.call_tail(n))
                if isinstance(n.func, ast.Subscript):
                    names.add('__getitem__')
        calls[fn.name if fn.name != '__new__' else fn.qual.split('.')[-2]] = calls.get(fn.name, set()) | names
    mr = set(direct)
    changed = True
    while changed:
        changed = False
        for name, callees in calls.items():
            if name not in mr and callees & mr:
                mr.add(name)
                changed = True
    return mr


COMMITTING = {'publish', 'republish', '_publish', 'Subscription', 'subscribe', 'train'}


def r_txn(ctx) -> None:
    prog = ctx.prog
    mr = may_raise_names(prog)
    ctx.sample({'may_raise_TopologyError': sorted(mr)})
    if not {'publish', 'republish', '_publish', '_collapse', 'Subscription', registration_function(prog).name, 'train'} <= mr:
        raise core.AnalysisError(f'may-raise summary incomplete: {sorted(mr)}')
    n = 0
    for fn in prog.functions([PORT, ATOMIC, SPAN]):
        graph = cfg.CFG(fn.node)
        stmts = [s for s in graph.statements() if not isinstance(s, (ast.Try, ast.ExceptHandler, ast.If, ast.For, ast.While, ast.With)) or isinstance(s, (ast.If, ast.For, ast.While))]
        muts, risky = [], []
        for s in graph.statements():
            if any(isinstance(a, ast.ExceptHandler) for a in core.ancestors(s)):
                continue
            hc = cfg.header_calls(s)
            names = {core.call_tail(c) for c in hc}
            is_store = isinstance(s, ast.Assign) and any(isinstance(t, ast.Subscript) and core.src(t.value).startswith('self._') for t in s.targets)
            is_add = any(isinstance(c.func, ast.Attribute) and c.func.attr == 'add' and ('self._' in core.src(c.func.value) or '_PORTS' in core.src(c.func.value)) for c in hc)
            if is_store or is_add or names & COMMITTING:
                muts.append(s)
            if names & mr:
                risky.append(s)
        for c in risky:
            prior = [m for m in muts if m is not c and graph.reaches(m, c, normal_only=True, no_back=True)]
            if not prior:
                # ... or inside the statement itself: a committing call evaluated as an argument of the call that may refuse
                # (``self.republish(Subscription(subscriber, port))``: the registration happens before republish runs)
                hc = cfg.header_calls(c)
                nested = [(m, r) for r in hc if core.call_tail(r) in mr for m in hc if m is not r and core.call_tail(m) in COMMITTING and any(m is x for a in list(r.args) + [k.value for k in r.keywords] for x in ast.walk(a))]
                if nested:
                    prior = [c]
            if not prior:
                continue
            n += 1
            tr = next((a for a in core.ancestors(c) if isinstance(a, ast.Try) and any(c is x for b in a.body for x in ast.walk(b))), None)
            compensated = False
            if tr is not None:
                for h in tr.handlers:
                    for x in ast.walk(h):
                        if isinstance(x, ast.Call) and isinstance(x.func, ast.Attribute) and x.func.attr in COMPENSATORS:
                            compensated = True
                        if isinstance(x, ast.Delete):
                            compensated = True
            ctx.check(
                compensated, 'R-TXN', fn,
                f'`{core.stmt_key(c)}` may raise TopologyError after `{core.stmt_key(prior[0])}` already changed the graph, and no handler undoes it: a refused call does not leave the graph as it was',
                c, key=f'txn:{core.stmt_key(c)}',
            )
    ctx.floor('R-TXN', n, 3)


def gate(ctx) -> None:
    prog = ctx.prog
    new = prog.func(f'{ASSEMBLY}:Composition.__new__')
    graph = cfg.CFG(new.node)
    ret = next((s for s in graph.statements() if isinstance(s, ast.Return)), None)
    stored = [core.src(a) for a in ret.value.args[1:]] if ret is not None and isinstance(ret.value, ast.Call) else []
    ctx.check(stored == ['apply', 'train'], 'C11.gate', new, 'the composition holds the validated (apply, train) segments', ret or new.node, key='gate:stored')
    for seg in ('apply', 'train'):
        vals = [s for s in graph.statements() if isinstance(s, ast.Expr) and core.src(s.value).replace(' ', '') == f'{seg}.accept(clean.Validator())']
        ok = bool(vals) and ret is not None and all(graph.dominates(v, ret) for v in vals)
        ctx.check(ok, 'C11.gate', new, f'the {seg} segment is validated (no placeholders) before the composition is constructed', new.node, key=f'gate:{seg}')
        defs = [s for s in graph.statements() if isinstance(s, ast.Assign) and core.src(s.targets[0]) == seg]
        ctx.check(len(defs) == 1 and core.src(defs[0].value) == f'composed.{seg}.extend()', 'C11.gate', new, f'`{seg}` is the traced {seg} segment of the composed trunk', defs[0] if defs else new.node, key=f'gate:{seg}:def')
    val = prog.cls(f'{CLEAN}:Validator')
    vn, vs = prog.func(f'{val.ref}.visit_node'), prog.func(f'{val.ref}.visit_segment')
    adds = [c for c in core.calls_in(vn.node) if core.src(c.func) == 'self._futures.add']
    ctx.check(len(adds) == 1 and [(core.src(t), pol) for t, pol in cfg.guards(adds[0], vn.node, siblings=False)] == [('isinstance(node, atomic.Future)', True)], 'C11.gate', vn, 'placeholders met during traversal are collected', vn.node, key='validator:collect')
    conds = [(core.src(t), pol) for r in core.walk_local(vs.node) if isinstance(r, ast.Raise) for t, pol in cfg.guards(r, vs.node, siblings=False)]
    ctx.check(conds == [('self._futures', True)], 'C11.gate', vs, 'a segment still containing placeholders is refused', vs.node, key='validator:raise')
    sub = prog.func(f'{SPAN}:Traversal.subscribers')
    conds = [(core.src(t), pol) for r in core.walk_local(sub.node) if isinstance(r, ast.Raise) for t, pol in cfg.guards(r, sub.node, siblings=False) if isinstance(core.parent(r), ast.If) and core.parent(r).test is t]
    ctx.check(('node in self.members', True) in conds and 'Cyclic' in core.src(sub.node), 'C11.gate', sub, 'a subscriber that is already on the traversal path is a cycle', sub.node, key='traversal:cyclic')
    # The membership test of `subscribers` runs *after* its mask: a mask that remembers visited nodes hides a back edge
    # from the Cyclic check (legitimate in `each`, which walks an already traced segment).  The tracer `tail` must
    # therefore enumerate successors through state-free masks only (`mappers`, or a mask closing over no tail-local).
    tl = prog.func(f'{SPAN}:Traversal.tail')
    tail_locals = {t.id for n in ast.walk(tl.node) for t in ast.walk(n) if isinstance(n, (ast.Assign, ast.AnnAssign, ast.AugAssign, ast.For, ast.NamedExpr)) and isinstance(t, ast.Name) and isinstance(t.ctx, ast.Store)}
    nested = {d.name: d for d in ast.walk(tl.node) if isinstance(d, (ast.FunctionDef,)) and d is not tl.node}
    succ = [c for c in ast.walk(tl.node) if isinstance(c, ast.Call) and isinstance(c.func, ast.Attribute) and c.func.attr in ('mappers', 'subscribers')]
    ctx.floor('C11.gate/tail-successors', len(succ), 2)
    for c in succ:
        mk = next((k.value for k in c.keywords if k.arg == 'mask'), None)
        if mk is None:
            ctx.ok('C11.gate', tl, 'the tail tracer enumerates successors without a caller-side mask', c)
            continue
        seen_fns, work, stateful = set(), [mk], []
        while work:
            m = work.pop()
            if isinstance(m, ast.Name) and m.id in nested:
                m = nested[m.id]
            if id(m) in seen_fns:
                continue
            seen_fns.add(id(m))
            if isinstance(m, (ast.Lambda, ast.FunctionDef)):
                params = {a.arg for a in m.args.args + m.args.kwonlyargs + m.args.posonlyargs}
                body = [m.body] if isinstance(m, ast.Lambda) else m.body
                own = {t.id for b in body for t in ast.walk(b) if isinstance(t, ast.Name) and isinstance(t.ctx, ast.Store)}
                for b in body:
                    for t in ast.walk(b):
                        if isinstance(t, ast.Name) and isinstance(t.ctx, ast.Load) and t.id not in params and t.id not in own:
                            if t.id in nested:
                                work.append(nested[t.id])
                            elif t.id in tail_locals:
                                stateful.append(t.id)
        ctx.check(not stateful, 'C11.gate', tl, 'the tail tracer filters successors with a state-free mask only (a mask that remembers visited nodes is applied before the Cyclic membership test and hides back edges)', c, key='traversal:tail-mask-pure', closes_over=sorted(set(stateful)))
    tn = prog.func(f'{SPAN}:Traversal.__new__')
    ctx.check('frozenset(members | {pivot})' in core.src(tn.node), 'C11.gate', tn, 'the traversal path accumulates every visited pivot', tn.node, key='traversal:members')


def run(ctx) -> None:
    from . import C03 as _c03

    _c03.copy_ports(ctx)  # a copied segment has the topology of the original: output i -> the subscriber's own port
    owners(ctx)
    chains_and_guards(ctx)
    r_txn(ctx)
    gate(ctx)
    shared.argname_scope(ctx, ('forml.flow._graph', 'forml.flow._suite'), floor=2)
