"""C15 - served entries reach the pipeline in the query's schema (DESIGN.md section 4/C15)."""
from __future__ import annotations

import ast

from .. import cfg, core
from . import shared

EXPLANATION = (
    'Static decision of the structural clauses of C15 by order-space typing: sequences carry a tag Q (query order) or E '
    '(entry order). statement.schema:Q, entry.schema:E, entry.data:E. (1) _match_entry builds a map from entry names to their '
    'enumerate position and returns a list appended while iterating the query names (a Q-indexed list of E positions); a query '
    'name absent from the entry returns (False, None) on every path; (2) __call__ refuses an incomplete entry with '
    'MissingError before any use of the data, re-orders the data with take_columns(indices) and casts with (query schema, '
    'entry schema, re-ordered data); (3) every positional zip in _cast pairs sequences of one order space only (Q with Q); the '
    'entry field is looked up by name; values are cast with the expected kind unless the kinds match; (4) Slicer.from_columns '
    'returns features ++ labels with index ranges [0,|f|) and [|f|,|f|+|l|) and Feed.load selects exactly those columns for '
    'the statement it pairs with that slicer; (5) R-ABSTRACT - Dense and Frame implement all four Tabular members. Matrix '
    'semantics of numpy/pandas take/views are not decided.'
)
ASSUMPTIONS = ['take_columns(indices) returns the columns in the order of indices; schemas iterate in field order']
MANIFEST = {
    'level': 'Static order-space typing of the three functions that align entry columns with the query: a permutation bug is '
             'a positional pairing of sequences from different order spaces, which is decidable from the expressions zipped '
             'together - for every permutation at once - while tests cover the identity and one reordering.',
    'note': 'Trusted: stdlib ast; pandas/numpy take semantics. Not decided: matrix semantics of take_*/views, cast results.',
    'technique': 'static analysis: order-space tag propagation over zip/enumerate/append (def-use), refusal path rule (CFG), '
                 'affine range check of the label slicer, abstract-member resolution (R-ABSTRACT)',
}

PRODUCER = 'forml.io._input._producer'
EXTRACT = 'forml.io._input.extract'
INTERNAL = 'forml.io.layout._internal'


def call_site(ctx) -> None:
    prog = ctx.prog
    fn = prog.func(f'{PRODUCER}:Reader.__call__')
    graph = cfg.CFG(fn.node)
    m = [c for c in core.calls_in(fn.node) if isinstance(c.func, ast.Attribute) and c.func.attr == '_match_entry']
    if len(m) != 1:
        raise core.AnalysisError('Reader.__call__: single _match_entry call not found')
    args = [core.src(a) for a in m[0].args]
    ctx.check(args == ['statement.schema', 'entry.schema'], 'C15.order', fn, f'_match_entry(query schema, entry schema) in declaration order (got {args})', m[0], key='match:args')
    mst = core.enclosing_stmt(m[0])
    tgt = mst.targets[0] if isinstance(mst, ast.Assign) else None
    names = [core.src(e) for e in tgt.elts] if isinstance(tgt, ast.Tuple) else []
    ctx.check(len(names) == 2, 'C15.order', fn, 'the match result is unpacked as (complete, indices)', mst, key='match:unpack')
    complete, indices = (names + ['complete', 'indices'])[:2]
    # refusal
    raises = [r for r in core.walk_local(fn.node) if isinstance(r, ast.Raise)]
    refusing = [r for r in raises if (complete, False) in cfg.cguards(r, fn.node)]
    ctx.check(bool(refusing) and all('MissingError' in core.src(r) for r in refusing), 'C15.refusal', fn, 'an entry lacking a required column is refused (MissingError under `not complete`)', fn.node, key='refusal')
    uses = [s for s in graph.statements() if any(isinstance(n, ast.Attribute) and core.src(n) == 'entry.data' for e in cfg.header_exprs(s) for n in ast.walk(e))]
    if refusing:
        gate = next(a for a in core.ancestors(refusing[0]) if isinstance(a, ast.If))
        ctx.check(bool(uses) and all(graph.dominates(gate, u) for u in uses), 'C15.refusal', fn, 'the completeness test dominates every use of the entry data', uses[0] if uses else fn.node, key='refusal:dominates')
    # re-ordering and cast arguments
    data_defs = [s for s in core.walk_local(fn.node) if isinstance(s, ast.Assign) and core.src(s.targets[0]) == 'data']
    okd = len(data_defs) == 1 and core.src(data_defs[0].value) in (f'entry.data.take_columns({indices}) if {indices} else entry.data', f'entry.data.take_columns({indices}) if {indices} is not None else entry.data')
    if not okd and len(data_defs) == 2:
        # statement form: data = entry.data ; if indices: data = data.take_columns(indices)
        first, second = sorted(data_defs, key=lambda s: s.lineno)
        gs = [core.src(t) for t, pol in cfg.guards(second, fn.node, siblings=False) if pol]
        okd = core.src(first.value) == 'entry.data' and core.src(second.value) == f'data.take_columns({indices})' and any(g in (indices, f'{indices} is not None') for g in gs)
    ctx.check(okd, 'C15.order', fn, 'the entry data is re-ordered into query order with take_columns(indices) (identity when indices is None)', data_defs[0] if data_defs else fn.node, key='reorder')
    casts = [c for c in core.calls_in(fn.node) if isinstance(c.func, ast.Attribute) and c.func.attr == '_cast']
    ctx.check(len(casts) == 1 and [core.src(a) for a in casts[0].args] == ['statement.schema', 'entry.schema', 'data'], 'C15.order', fn, '_cast(expected=query schema, actual=entry schema, data=re-ordered data)', casts[0] if casts else fn.node, key='cast:args')
    rets = [r for r in core.walk_local(fn.node) if isinstance(r, ast.Return) and any(cfg.guards(r, fn.node, siblings=False))]
    ctx.check(any(casts and casts[0] in list(ast.walk(r)) for r in rets), 'C15.order', fn, 'the served entry is returned through the cast', fn.node, key='cast:returned')


def match_entry(ctx) -> None:
    prog = ctx.prog
    fn = prog.func(f'{PRODUCER}:Reader._match_entry')
    params = [p for p in fn.param_names if p != 'self']
    if params != ['statement', 'entry']:
        raise core.AnalysisError(f'_match_entry signature changed: {params}')
    graph = cfg.CFG(fn.node)
    # order-space tags of the local sequences
    qn = [s for s in core.walk_local(fn.node) if isinstance(s, ast.Assign) and core.src(s.targets[0]) == 'query_names']
    ctx.check(len(qn) == 1 and 'names(statement)' in core.src(qn[0].value), 'C15.order', fn, 'query_names:Q derives from the query schema', qn[0] if qn else fn.node, key='query_names')
    loops = [n for n in core.walk_local(fn.node) if isinstance(n, ast.For)]
    # map filled with the enumerate position of the entry names
    fill_ok = False
    for lp in loops:
        it = core.src(lp.iter)
        if it.startswith('enumerate(') and 'names(entry)' in it:
            t = lp.target
            if isinstance(t, ast.Tuple) and isinstance(t.elts[0], ast.Name) and isinstance(t.elts[1], ast.Tuple):
                idx = t.elts[0].id
                # zip_longest(query_names, names(entry)) -> (demand, supply): supply is the entry name
                inner = [core.src(e) for e in t.elts[1].elts]
                zargs = []
                for c in ast.walk(lp.iter):
                    if isinstance(c, ast.Call) and (core.call_name(c) or '').endswith('zip_longest'):
                        zargs = [core.src(a) for a in c.args]
                if len(inner) == 2 and len(zargs) == 2:
                    supply = inner[zargs.index('names(entry)')] if 'names(entry)' in zargs else None
                    stores = [s for s in lp.body if isinstance(s, ast.Assign) and isinstance(s.targets[0], ast.Subscript) and core.src(s.targets[0].value) == 'source']
                    fill_ok = bool(stores) and all(core.src(s.targets[0].slice) == supply and core.src(s.value) == idx for s in stores)
    ctx.check(fill_ok, 'C15.order', fn, 'source: entry name -> its E position (enumerate index of the entry names)', fn.node, key='source-map')
    app_ok = False
    absent_ok = False
    for lp in loops:
        if core.src(lp.iter) == 'query_names':
            col = core.src(lp.target)
            apps = [c for c in core.calls_in(lp) if isinstance(c.func, ast.Attribute) and c.func.attr == 'append' and core.src(c.func.value) == 'indices']
            app_ok = len(apps) == 1 and core.src(apps[0].args[0]) == f'source[{col}]'
            for r in [r for r in ast.walk(lp) if isinstance(r, ast.Return)]:
                gs = cfg.cguards(r, fn.node)
                if cfg.cg((f'{col} not in source', True))[0] in gs and core.src(r.value) in ('(False, None)',):
                    absent_ok = True
                    if apps:
                        ast_if = next(a for a in core.ancestors(r) if isinstance(a, ast.If))
                        absent_ok = graph.dominates(ast_if, core.enclosing_stmt(apps[0]))
    ctx.check(app_ok, 'C15.order', fn, 'indices: appended while iterating the query names (Q-indexed) with the E position of the same name', fn.node, key='indices')
    ctx.check(absent_ok, 'C15.refusal', fn, 'a query name absent from the entry returns (False, None) before it is indexed', fn.node, key='absent')
    final = [r for r in core.walk_local(fn.node) if isinstance(r, ast.Return) and core.src(r.value) in ('(True, tuple(indices))', '(True, indices)')]
    ctx.check(len(final) == 1, 'C15.order', fn, 'the complete case returns the full index list', fn.node, key='final-return')
    ident = [r for r in core.walk_local(fn.node) if isinstance(r, ast.Return) and core.src(r.value) == '(True, None)']
    ctx.check(all(any(core.src(t) == 'identical' and pol for t, pol in cfg.guards(r, fn.node, siblings=False)) for r in ident), 'C15.order', fn, 'indices are omitted only for identical schemas', fn.node, key='identical')
    ids = [s for s in ast.walk(fn.node) if isinstance(s, ast.Assign) and core.src(s.targets[0]) == 'identical' and core.is_const(s.value, False)]
    ctx.check(all(cfg.cg(('supply != demand', True))[0] in cfg.cguards(s, fn.node) for s in ids) and bool(ids), 'C15.order', fn, 'identical is dropped as soon as one position differs', fn.node, key='identical:cond')


def names_exact(ctx) -> None:
    """Entry columns are matched to query columns by their *exact* names: nothing on the way normalises a name (case folding,
    stripping, slicing) - ``Age`` and ``age`` are two columns, and folding them lets an unrelated surplus column of the entry
    stand in for a query column."""
    prog = ctx.prog
    fn = prog.func(f'{PRODUCER}:Reader._match_entry')
    folds = [c for c in ast.walk(fn.node) if isinstance(c, ast.Call) and isinstance(c.func, ast.Attribute) and c.func.attr in ('lower', 'upper', 'casefold', 'strip', 'lstrip', 'rstrip', 'title', 'capitalize', 'replace', 'translate')]
    ctx.check(not folds, 'C15.order', fn, f'column names are compared as they are (no normalisation: {[core.src(c)[:40] for c in folds]})', folds[0] if folds else fn.node, key='match:names-exact')
    gens = [g for g in ast.walk(fn.node) if isinstance(g, (ast.GeneratorExp, ast.ListComp)) and core.src(g.elt).endswith('.name')]
    ctx.check(bool(gens), 'C15.order', fn, 'the compared names are the fields\' own `.name` values', fn.node, key='match:names-source')


def cast(ctx) -> None:
    prog = ctx.prog
    fn = prog.func(f'{PRODUCER}:Reader._cast')
    params = [p for p in fn.param_names if p not in ('self', 'cls')]
    if params != ['expected', 'actual', 'data']:
        raise core.AnalysisError(f'_cast signature changed: {params}')
    # the cast itself is a function of (kind, value *including its python type*): a value-keyed memo conflates
    # 1 == 1.0 == True (equal and hash-equal), so the first one cast decides the result served for the others
    ncast = 0
    for kfn in prog.functions([m for m in prog.modules if m == 'forml.io.dsl._struct.kind']):
        if kfn.name != 'cast':
            continue
        ncast += 1
        memo = [d for d in core.decorator_names(kfn.node) if d.split('.')[-1] in ('lru_cache', 'cache')]
        ctx.check(not memo, 'C15.order', kfn, 'kind.cast is not memoised by the value (equal values of different python types - 1, 1.0, True - must each be cast on their own)', kfn.node, key=f'cast:memo:{kfn.qual}')
    ctx.floor('C15.order/kind-cast', ncast, 1)
    tags = {'expected': 'Q', 'data': 'Q', 'actual': 'E'}
    zips = [c for c in core.calls_in(fn.node) if core.call_name(c) in ('zip', 'itertools.zip_longest')]
    ctx.check(bool(zips), 'C15.order', fn, 'columns are paired with their expected field', fn.node, key='cast:zip')
    for z in zips:
        ztags = []
        for a in z.args:
            root = a
            while isinstance(root, (ast.Attribute, ast.Call, ast.Subscript)):
                root = root.func if isinstance(root, ast.Call) else root.value
            ztags.append(tags.get(root.id) if isinstance(root, ast.Name) else None)
        ctx.sample({'zip': core.src(z), 'order_spaces': ztags})
        ctx.check(len(set(ztags)) == 1 and None not in ztags, 'C15.order', fn, f'positional pairing `{core.src(z)}` stays within one order space {ztags} (the entry schema is in entry order, the data was re-ordered into query order)', z)
    text = core.src(fn.node)
    dc = next((n for n in ast.walk(fn.node) if isinstance(n, ast.DictComp) and len(n.generators) == 1 and isinstance(n.generators[0].target, ast.Tuple)), None)
    e = core.src(dc.generators[0].target.elts[0]) if dc is not None else 'e'
    text = text.replace(' ', '')
    ctx.check(f'actual[{e}.name]' in text, 'C15.order', fn, 'the actual entry field is looked up by name', fn.node, key='cast:by-name')
    ctx.check(f'{e}.kind.match(actual[{e}.name].kind)' in text and f'{e}.kind.cast(' in text, 'C15.order', fn, 'values are cast with the expected kind unless the entry kind already matches', fn.node, key='cast:kind')
    ctx.check(dc is not None and core.src(dc.key) == f'{e}.name', 'C15.order', fn, 'the result columns carry the query names', fn.node, key='cast:names')
    first = fn.body[0] if not isinstance(fn.body[0], ast.Expr) else fn.body[1]
    ctx.check(isinstance(first, ast.If) and core.src(first.test) in ('actual == expected', 'expected == actual'), 'C15.order', fn, 'data is returned unchanged only for equal schemas', first, key='cast:identity')
    # every value of a column whose kind does not match is cast - unconditionally (0, 0.0, False and '' are values, not "nulls")
    casts = [c for c in core.calls_in(fn.node) if isinstance(c.func, ast.Attribute) and c.func.attr == 'cast' and core.src(c.func.value) == f'{e}.kind']
    okc = len(casts) == 1
    if okc:
        comp = next((a for a in core.ancestors(casts[0]) if isinstance(a, (ast.ListComp, ast.GeneratorExp))), None)
        okc = comp is not None and comp.elt is casts[0] and len(comp.generators) == 1 and not comp.generators[0].ifs and core.src(casts[0].args[0]) == core.src(comp.generators[0].target)
    ctx.check(okc, 'C15.order', fn, 'each value of a non-matching column goes through the expected kind\'s cast - no per-value condition or filter', casts[0] if casts else fn.node, key='cast:every-value')
    # ... and the cast column is the plain positional sequence: wrapped into an index-carrying container (pandas.Series,
    # DataFrame) it would be *aligned by label* with the uncast columns of a frame entry instead of by position
    if okc:
        par = core.parent(comp)
        wrapped = isinstance(par, ast.Call) and not (isinstance(par.func, ast.Name) and par.func.id in ('list', 'tuple'))
        ctx.check(not wrapped, 'C15.order', fn, f'the cast values form a plain list next to the uncast columns (position-aligned), not `{core.src(par)[:60]}`', par, key='cast:plain-list')


def slicer(ctx) -> None:
    prog = ctx.prog
    fn = prog.func(f'{EXTRACT}:Slicer.from_columns')
    text = core.src(fn.node)
    ctx.check('fstop = len(features)' in text, 'C15.slicer', fn, 'fstop = |features|', fn.node, key='fstop')
    ctx.check('lslice = range(fstop, fstop + len(labels))' in text, 'C15.slicer', fn, 'label vector range = [|f|, |f|+|l|)', fn.node, key='lslice:vector')
    ctx.check('lslice = fstop' in text and 'lseq = [labels]' in text, 'C15.slicer', fn, 'a single label is column |f|', fn.node, key='lslice:scalar')
    ret = next((r for r in core.walk_local(fn.node) if isinstance(r, ast.Return)), None)
    ctx.check(ret is not None and core.src(ret.value) == '((*features, *lseq), cls.builder(range(fstop), lslice))', 'C15.slicer', fn, 'columns = features ++ labels; feature range = [0, |f|)', ret or fn.node, key='return')
    ap = prog.func(f'{EXTRACT}:Slicer.apply')
    ctx.check(core.src(ap.body[-1]) == 'return (dataset.take_columns(self._features).to_rows(), self._labels(dataset))', 'C15.slicer', ap, 'apply() yields (features, labels) in that order', ap.node, key='apply')
    ld = prog.func('forml.io._input:Feed.load')
    text = core.src(ld.node)
    ctx.check('columns, label_actor = extmod.Slicer.from_columns(train_statement.features, extract.labels)' in text and 'train_statement = train_statement.select(*columns)' in text, 'C15.slicer', ld, 'the train statement selects exactly the columns of the slicer built in the same call', ld.node, key='load:pairing')


def tabular(ctx) -> None:
    prog = ctx.prog
    base = prog.cls(f'{INTERNAL}:Tabular')
    members = sorted(base.abstract_names())
    ctx.floor('C15.tabular-members', len(members), 4)
    for name in ('Dense', 'Frame'):
        ci = prog.cls(f'{INTERNAL}:{name}')
        left = ci.abstract_names()
        ctx.check(not left, 'R-ABSTRACT', ci.ref, f'{name} implements {members} (unresolved: {sorted(left)})', key=f'{name}:abstract', loc=ci.module.relpath)
    # a selection always goes through the given indices: no early return that hands back the receiver (a full-width index list
    # may still permute or repeat columns) and no alternative path for some index types
    for name in ('Dense', 'Frame'):
        for mname in ('take_rows', 'take_columns'):
            fn = prog.func(f'{INTERNAL}:{name}.{mname}')
            idx = fn.param_names[1]
            rets = [r for r in core.walk_local(fn.node) if isinstance(r, ast.Return)]
            ctx.check(len(rets) == 1 and rets[0].value is not None and idx in core.names_in(rets[0].value) and not cfg.cguards(rets[0], fn.node), 'C15.take', fn, f'{name}.{mname} has one unconditional result, computed from `{idx}`', fn.node, key=f'{name}.{mname}:single-path')
    dense = prog.cls(f'{INTERNAL}:Dense')
    # Dense keeps a row-major ndarray: the effective axis of a take is (axis XOR receiver-transposed) and the
    # constructor must interpret the result in the orientation it has (from_columns iff transposed)
    for mname, want_axis in (('take_rows', 0), ('take_columns', 1)):
        fn = prog.func(f'{dense.ref}.{mname}')
        ret = next((r for r in core.walk_local(fn.node) if isinstance(r, ast.Return)), None)
        ok, facts = False, {}
        if ret is not None and isinstance(ret.value, ast.Call) and isinstance(ret.value.func, ast.Attribute) and ret.value.args:
            ctor = ret.value.func.attr
            inner = ret.value.args[0]
            if isinstance(inner, ast.Call) and isinstance(inner.func, ast.Attribute) and inner.func.attr == 'take':
                recv = core.src(inner.func.value)
                transposed = recv.endswith('.T')
                axis = next((k.value.value for k in inner.keywords if k.arg == 'axis' and isinstance(k.value, ast.Constant)), None)
                if axis is None and len(inner.args) > 1 and isinstance(inner.args[1], ast.Constant):
                    axis = inner.args[1].value
                takes = core.src(inner.args[0]) if inner.args else None
                facts = {'receiver': recv, 'axis': axis, 'constructor': ctor}
                extra = sorted(k.arg for k in inner.keywords if k.arg not in ('axis',)) + (['positional>2'] if len(inner.args) > 2 else [])
                ctx.check(not extra, 'C15.take', fn, f'Dense.{mname} uses numpy take with its default out-of-range behaviour (raise) - like the pandas based Frame and plain matrix indexing (extra arguments: {extra})', inner, key=f'Dense.{mname}:take-mode')
                if axis in (0, 1) and recv.replace('.T', '') == 'self._rows' and takes == 'indices':
                    effective = axis ^ (1 if transposed else 0)
                    ok = effective == want_axis and ctor == ('from_columns' if transposed else 'from_rows')
        ctx.sample({'dense': mname, **facts})
        ctx.check(ok, 'C15.tabular', fn, f'Dense.{mname} takes along matrix axis {want_axis} and rebuilds in the matching orientation ({facts})', fn.node, key=f'dense:{mname}')
    tcol = prog.func(f'{dense.ref}.to_columns')
    trow = prog.func(f'{dense.ref}.to_rows')
    ctx.check(core.src(tcol.body[-1]) == 'return self._rows.T' and core.src(trow.body[-1]) == 'return self._rows', 'C15.tabular', dense.ref, 'Dense views: rows = stored matrix, columns = its transpose', key='dense:views', loc=dense.module.relpath)
    frame = prog.cls(f'{INTERNAL}:Frame')
    for mname, want_axis in (('take_rows', 0), ('take_columns', 1)):
        fn = prog.func(f'{frame.ref}.{mname}')
        subs = [n for n in core.walk_local(fn.node) if isinstance(n, ast.Subscript) and core.src(n.value).endswith('.iloc')]
        ok = False
        if len(subs) == 1:
            sl = subs[0].slice
            if isinstance(sl, ast.Tuple) and len(sl.elts) == 2:
                full0 = isinstance(sl.elts[0], ast.Slice) and sl.elts[0].lower is None and sl.elts[0].upper is None
                full1 = isinstance(sl.elts[1], ast.Slice) and sl.elts[1].lower is None and sl.elts[1].upper is None
                axis = 1 if full0 and 'indices' in core.src(sl.elts[1]) else (0 if full1 and 'indices' in core.src(sl.elts[0]) else None)
            else:
                axis = 0 if 'indices' in core.src(sl) else None
            ok = axis == want_axis
        ctx.check(ok, 'C15.tabular', fn, f'Frame.{mname} selects positions along axis {want_axis} with iloc', fn.node, key=f'frame:{mname}')
    gi = prog.func(f'{frame.ref}.Major.__getitem__')
    text = core.src(gi.node)
    ctx.check('axis = 1 - self.axis' in text and 'iloc[axis] = range(len(self.frame.axes[axis]))' in text, 'C15.tabular', gi, 'a view index selects along its own axis and spans the other one', gi.node, key='frame:getitem')
    rows, cols = prog.cls(f'{frame.ref}.Rows'), prog.cls(f'{frame.ref}.Columns')
    ra, ca = core.src(rows.methods['axis']), core.src(cols.methods['axis'])
    ctx.check('return 0' in ra and 'return 1' in ca, 'C15.tabular', frame.ref, 'row view iterates axis 0, column view axis 1', key='frame:axis', loc=frame.module.relpath)


KIND = 'forml.io.dsl._struct.kind'
INSTANTIABLE = {'bool', 'str', 'int', 'float', 'bytes'}  # native types whose constructor converts a value into the type
LOSSY_TEMPORAL = {'timetuple', 'utctimetuple', 'date', 'floor', 'round', 'ceil', 'normalize', 'strftime', 'toordinal', 'fromordinal', 'mktime', 'replace', 'to_period', 'combine'}
NATIVE_CTOR = {'numbers.Integral': {'int'}, 'numbers.Real': {'float'}, 'decimal.Decimal': {'decimal.Decimal'}}


def kind_cast(ctx) -> None:
    """"each value cast to the declared kind": the conversion a concrete primitive kind uses (its resolved ``_cast``) is the
    kind's own - defined by the class itself (or an ancestor declaring the same native type), or the generic
    ``cls.__type__(value)`` with an instantiable native type.  A kind that silently inherits the conversion of a *wider* kind
    (Integer through Numeric's to_numeric) returns values that are not of its declared native type."""
    prog = ctx.prog
    anyk = prog.cls(f'{KIND}:Any')
    prim = prog.cls(f'{KIND}:Primitive')
    generic = prog.func(f'{anyk.ref}._cast')
    rets = [r for r in core.walk_local(generic.node) if isinstance(r, ast.Return)]
    ctx.check(len(rets) == 1 and core.src(rets[0].value) == f'cls.__type__({generic.param_names[1]})', 'C15.kind-cast', generic, 'the generic conversion constructs the kind\'s own native type', generic.node, key='Any._cast')
    n = 0
    for ci in sorted(prog.subclasses(prim), key=lambda c: c.ref):
        if '__rank__' not in ci.assigns:  # abstract intermediate (Numeric)
            continue
        ty = None
        for c in ci.mro_classes():
            if '__type__' in c.assigns:
                ty, ty_owner = core.src(c.assigns['__type__']), c
                break
        found = ci.lookup('_cast')
        if ty is None or found is None:
            ctx.fail('C15.kind-cast', ci.ref, f'{ci.qual}: native type or conversion not found', key=f'{ci.qual}:resolve', loc=ci.module.relpath)
            continue
        n += 1
        owner, node = found
        if owner is anyk:
            ok, why = ty in INSTANTIABLE, f'generic conversion {ty}(value)'
        else:
            oty = next((core.src(c.assigns['__type__']) for c in owner.mro_classes() if '__type__' in c.assigns), None)
            ok, why = oty == ty, f'conversion of {owner.qual} (native type {oty})'
            if ok and ty in NATIVE_CTOR:
                r = [x for x in core.walk_local(node) if isinstance(x, ast.Return)]
                vparam = node.args.args[1].arg if len(node.args.args) > 1 else 'value'
                body = [x for x in node.body if not (isinstance(x, ast.Expr) and isinstance(x.value, ast.Constant))]
                # the native constructor is applied to the value as given - no intermediate conversion (through float: precision
                # loss above 2**53 and silent truncation of '3.9') and nothing else happens in the conversion
                ok = len(r) == 1 and len(body) == 1 and isinstance(r[0].value, ast.Call) and (core.dotted(r[0].value.func) or '') in NATIVE_CTOR[ty] and [core.src(a) for a in r[0].value.args] == [vparam] and not r[0].value.keywords
                why += f' returning `{core.src(r[0].value) if r else None}`'
        ctx.check(ok, 'C15.kind-cast', ci.ref, f'{ci.qual} (native type {ty}) converts through the {why}: the result is of the declared kind', key=f'{ci.qual}:cast', loc=f'{ci.module.relpath}:{node.lineno}')
        if ty == 'datetime.datetime' and owner is not anyk:
            # a timestamp keeps its full resolution: nothing in the conversion narrows it to whole seconds / days or
            # rebuilds it from a field tuple (a bound given as text would then differ from the same bound given natively)
            lossy = [c for c in ast.walk(node) if isinstance(c, ast.Call) and core.call_tail(c) in LOSSY_TEMPORAL]
            lossy += [x for x in ast.walk(node) if isinstance(x, ast.Subscript) and isinstance(x.slice, ast.Slice)]
            ctx.check(not lossy, 'C15.kind-cast', ci.ref, f'{ci.qual} converts without narrowing the resolution (no {sorted(LOSSY_TEMPORAL)[:4]}.. / field-tuple slice)', lossy[0] if lossy else node, key=f'{ci.qual}:cast-resolution', loc=f'{ci.module.relpath}:{node.lineno}')
    ctx.floor('C15.kind-cast', n, 6)
    pc = prog.func(f'{prim.ref}.cast')
    ok = shared.stmt_under(ctx, 'C15.kind-cast', pc, f'return {pc.param_names[1]}', [(f'isinstance({pc.param_names[1]}, cls.__type__)', True)], 'a value already of the declared native type is passed through untouched', 'Primitive.cast:identity')
    ac = prog.func(f'{anyk.ref}.cast')
    tr = next((x for x in ac.body if isinstance(x, ast.Try)), None)
    okh = tr is not None and len(tr.handlers) == 1 and core.src(tr.handlers[0].type) in ('(ValueError, TypeError)', '(TypeError, ValueError)') and any(isinstance(x, ast.Raise) and 'CastError' in core.src(x) for x in tr.handlers[0].body) and core.src(tr.body[0]) == f'return cls._cast({ac.param_names[1]})'
    ctx.check(okh, 'C15.kind-cast', ac, 'cast() = the kind\'s own conversion; an impossible conversion is refused with CastError', ac.node, key='Any.cast')


def run(ctx) -> None:
    names_exact(ctx)
    kind_cast(ctx)
    call_site(ctx)
    match_entry(ctx)
    cast(ctx)
    slicer(ctx)
    tabular(ctx)
    shared.argname_scope(ctx, ('forml.io._input', 'forml.io.layout._internal'), floor=2)
    # every size or position a Major accessor reports is taken along *its* axis (len of the frame itself is the row count
    # whatever the orientation)
    ln = ctx.prog.func('forml.io.layout._internal:Frame.Major.__len__')
    lret = next((r for r in core.walk_local(ln.node) if isinstance(r, ast.Return)), None)
    ctx.check(lret is not None and core.src(lret.value).replace(' ', '') in ('len(self.frame.axes[self.axis])', 'self.frame.shape[self.axis]'), 'C15.tabular', ln, 'the length of a row/column accessor is the extent of the frame along its own axis', lret or ln.node, key='major:len-axis')
    # _match_entry is memoised on the (query schema, entry schema) pair and _cast skips on schema equality: both rely on
    # permuted schemas being *different* schemas
    from . import C08

    memo = [d for d in ctx.prog.func(f'{PRODUCER}:Reader._match_entry').node.decorator_list if 'cache' in core.src(d)]
    if memo or 'actual == expected' in core.src(ctx.prog.func(f'{PRODUCER}:Reader._cast').node) or 'expected == actual' in core.src(ctx.prog.func(f'{PRODUCER}:Reader._cast').node):
        C08.schema_positional(ctx, 'C15.order')
