"""C19 - content negotiation picks the client's most preferred supported encoding (DESIGN.md section 4/C19)."""
from __future__ import annotations

import ast

from .. import cfg, core
from . import shared

EXPLANATION = (
    'Static decision of the structural clauses of C19: (1) get_encoder iterates the caller\'s patterns in the outer loop and '
    'the encoder table in the inner loop, returns at the first match and raises Unsupported only after both loops; '
    'get_decoder returns the first table entry whose encoding matches the declared source, Unsupported after the loop; '
    '(2) Encoding.parse orders by descending quality through a stable construction (sorted with reverse=True or a negated '
    'key - never reversed()/[::-1] which would invert ties), removes q from the options and defaults the quality to 1; (3) '
    'Encoding.match is the conjunction of "no wildcard in the concrete kind", fnmatch(concrete, pattern) in that argument '
    'order, and "every pattern option present with an equal value"; (4) table agreement - every encoder/decoder of the '
    'default tables uses the pandas orient named by the format option of the encoding constant it is registered under, csv '
    'pairs with csv; (5) the generic application uses exactly these lookups and answers with the chosen encoder\'s encoding. '
    'Codec round trips on data and header grammar corner cases of cgi.parse_header are not decided.'
)
ASSUMPTIONS = ['sorted() is stable; fnmatch.fnmatch(name, pattern); cgi.parse_header splits media type and options']
MANIFEST = {
    'level': 'Static structural decision of the lookup order (loop nesting, first-match return, raise-after-loop by CFG), of '
             'the stability idiom of the quality ordering and of the agreement of every codec table entry with its encoding '
             'constant. Preference order and matching are relations over all headers; they follow from these shapes.',
    'note': 'Trusted: stdlib ast; stability of sorted; fnmatch semantics. Not decided: codec round trip on data, cgi header '
            'grammar corner cases.',
    'technique': 'static analysis: loop-nesting / first-match / raise-after-loop CFG rules, stable-sort idiom check, '
                 'conjunction structure check, table agreement between codec constructors and encoding constants',
}

CODEC = 'forml.io.layout._codec'
DESCRIPTOR = 'forml.application._descriptor'


def _loops(fn: core.FuncInfo) -> list[ast.For]:
    return [n for n in core.walk_local(fn.node) if isinstance(n, ast.For)]


def lookups(ctx) -> None:
    prog = ctx.prog
    enc = prog.func(f'{CODEC}:get_encoder')
    loops = _loops(enc)
    vararg = enc.node.args.vararg.arg if enc.node.args.vararg else None
    outer = [l for l in loops if core.src(l.iter) == vararg]
    inner = [l for l in loops if core.src(l.iter) == 'ENCODERS']
    nested = bool(outer) and bool(inner) and any(inner[0] is n for n in ast.walk(outer[0])) and not any(outer[0] is n for n in ast.walk(inner[0]))
    ctx.check(nested, 'C19.encoder', enc, f'client preference order decides: outer loop over `{vararg}`, inner loop over ENCODERS', enc.node, key='encoder:nesting')
    rets = [r for r in core.walk_local(enc.node) if isinstance(r, ast.Return)]
    good_ret = False
    for r in rets:
        gs = [core.src(t) for t, pol in cfg.guards(r, enc.node, siblings=False) if pol]
        if inner and outer and any(r is n for n in ast.walk(inner[0])):
            pat, cod = core.src(outer[0].target), core.src(inner[0].target)
            good_ret = core.src(r.value) == cod and gs == [f'{pat}.match({cod}.encoding)']
    ctx.check(good_ret, 'C19.encoder', enc, 'returns the first encoder whose concrete encoding matches the pattern (pattern.match(codec.encoding))', enc.node, key='encoder:first-match')
    if inner and outer:
        pat, cod = core.src(outer[0].target), core.src(inner[0].target)
        for r in rets:
            g = cfg.cguards(r, enc.node)
            ctx.check(core.src(r.value) == cod and g == [(f'{pat}.match({cod}.encoding)', True)], 'C19.encoder', enc, f'every encoder handed out was admitted by Encoding.match against the client pattern - kind *and* options (return `{core.src(r.value)}` under {g})', r, key='encoder:only-by-match')
    graph = cfg.CFG(enc.node)
    raises = [r for r in core.walk_local(enc.node) if isinstance(r, ast.Raise)]
    after = bool(raises) and all('Unsupported' in core.src(r) and not any(r is n for l in loops for n in ast.walk(l)) for r in raises)
    ctx.check(after, 'C19.encoder', enc, 'Unsupported is raised only after every pattern and encoder was tried', enc.node, key='encoder:raise-after')
    dec = prog.func(f'{CODEC}:get_decoder')
    dloops = [l for l in _loops(dec) if core.src(l.iter) == 'DECODERS']
    good = False
    if len(dloops) == 1 and isinstance(dloops[0].target, ast.Tuple) and len(dloops[0].target.elts) == 2:
        cod, encv = [core.src(e) for e in dloops[0].target.elts]
        src = [p for p in dec.param_names][0]
        for r in [r for r in core.walk_local(dec.node) if isinstance(r, ast.Return)]:
            gs = [core.src(t) for t, pol in cfg.guards(r, dec.node, siblings=False) if pol]
            if core.src(r.value) == cod and gs == [f'{encv}.match({src})']:
                good = True
    if len(dloops) == 1 and isinstance(dloops[0].target, ast.Tuple) and len(dloops[0].target.elts) == 2:
        for r in [r for r in core.walk_local(dec.node) if isinstance(r, ast.Return)]:
            g = cfg.cguards(r, dec.node)
            ctx.check(core.src(r.value) == cod and g == [(f'{encv}.match({src})', True)], 'C19.decoder', dec, f'every decoder handed out was admitted by Encoding.match against the declared content type (return `{core.src(r.value)}` under {g})', r, key='decoder:only-by-match')
    ctx.check(good, 'C19.decoder', dec, 'returns the decoder of the first table entry whose encoding matches the declared content type (entry.match(source))', dec.node, key='decoder:first-match')
    draises = [r for r in core.walk_local(dec.node) if isinstance(r, ast.Raise)]
    ctx.check(bool(draises) and all('Unsupported' in core.src(r) and not any(r is n for l in dloops for n in ast.walk(l)) for r in draises), 'C19.decoder', dec, 'Unsupported is raised only after the whole table was tried', dec.node, key='decoder:raise-after')


def parse_rule(ctx) -> None:
    prog = ctx.prog
    fn = prog.func(f'{CODEC}:Encoding.parse')
    sorts = [c for c in core.calls_in(fn.node) if core.call_name(c) == 'sorted']
    if len(sorts) != 1:
        ctx.fail('C19.parse', fn, 'quality ordering through a single sorted() not found', fn.node, key='parse:sorted')
        return
    s = sorts[0]
    kws = {k.arg: k.value for k in s.keywords}
    key = kws.get('key')
    rev = 'reverse' in kws and core.is_const(kws['reverse'], True)
    neg = isinstance(key, ast.Lambda) and isinstance(key.body, ast.UnaryOp) and isinstance(key.body.op, ast.USub)
    text = core.src(fn.node)
    inverted = 'reversed(' in text or '[::-1]' in text
    ctx.check((rev != neg) and not inverted, 'C19.parse', fn, 'descending quality with ties kept in header order: sorted(reverse=True) or a negated key, never reversed()/[::-1]', s, key='parse:stable')
    ktext = core.src(key) if key is not None else ''
    ctx.check("get('q', 1)" in ktext and 'float(' in ktext, 'C19.parse', fn, 'quality is float(q) with default 1', s, key='parse:q-default')
    # ... and nothing but the quality: a secondary sort key (a tuple, specificity, length ...) re-orders what the client listed
    # with equal weight - ties stay in header order
    body = key.body if isinstance(key, ast.Lambda) else None
    if isinstance(body, ast.UnaryOp) and isinstance(body.op, ast.USub):
        body = body.operand
    only_q = isinstance(body, ast.Call) and isinstance(body.func, ast.Name) and body.func.id == 'float' and len(body.args) == 1 and "get('q', 1)" in core.src(body.args[0])
    ctx.check(only_q, 'C19.parse', fn, f'the sort key is the quality alone (`{ktext[:70]}`)', s, key='parse:key-only-q')
    ctx.check("if k != 'q'" in text, 'C19.parse', fn, 'q is not an option of the parsed encoding', fn.node, key='parse:q-removed')
    ctx.check('cgi.parse_header(h) for h in _CSV.split(value)' in text, 'C19.parse', fn, 'one media range per comma separated item', fn.node, key='parse:split')
    new = prog.func(f'{CODEC}:Encoding.__new__')
    ctx.check('kind.strip().lower()' in core.src(new.node), 'C19.parse', new, 'the kind is normalised (trimmed, lower case)', new.node, key='new:normalise')


def match_rule(ctx) -> None:
    prog = ctx.prog
    fn = prog.func(f'{CODEC}:Encoding.match')
    other = [p for p in fn.param_names if p != 'self'][0]
    ret = next((r for r in core.walk_local(fn.node) if isinstance(r, ast.Return)), None)
    if ret is None or not isinstance(ret.value, ast.BoolOp) or not isinstance(ret.value.op, ast.And):
        ctx.fail('C19.match', fn, 'match is not a conjunction', fn.node, key='match:conjunction')
        return
    terms = [core.src(v) for v in ret.value.values]
    ctx.check(f"'*' not in {other}.kind" in terms, 'C19.match', fn, 'the concrete encoding must not contain wildcards', ret, key='match:no-wildcard')
    ctx.check(f'fnmatch.fnmatch({other}.kind, self.kind)' in terms, 'C19.match', fn, 'the concrete kind is matched against our kind as the pattern: fnmatch(name=other.kind, pattern=self.kind)', ret, key='match:fnmatch')
    ctx.check(f'all(({other}.options.get(k) == v for k, v in self.options.items()))' in terms, 'C19.match', fn, 'every pattern option is present in the concrete encoding with an equal value', ret, key='match:options')
    ctx.check(len(terms) == 3, 'C19.match', fn, 'exactly these three conditions', ret, key='match:exact')


def tables(ctx) -> None:
    prog = ctx.prog
    mod = prog.module(CODEC)
    consts = {}
    for name, val in mod.assigns.items():
        if name.startswith('ENCODING_') and isinstance(val, ast.Call) and core.call_name(val) == 'Encoding':
            fmt = next((k.value.value for k in val.keywords if k.arg == 'format' and isinstance(k.value, ast.Constant)), None)
            kind = core.src(val.args[0]) if val.args else ''
            consts[name] = (kind, fmt)
    ctx.floor('C19.encodings', len(consts), 8)

    def codec_entry(call: ast.Call):
        """(function name, orient) of the converter given to a Pandas.Encoder/Decoder."""
        conv = call.args[0]
        fn_name, orient = core.src(conv), None
        if isinstance(conv, ast.Call) and (core.call_name(conv) or '').endswith('partial'):
            fn_name = core.src(conv.args[0])
            orient = next((k.value.value for k in conv.keywords if k.arg == 'orient' and isinstance(k.value, ast.Constant)), None)
        return fn_name, orient

    seen = {}
    for tname in ('ENCODERS', 'DECODERS'):
        tab = mod.assigns.get(tname)
        if not isinstance(tab, ast.Tuple):
            raise core.AnalysisError(f'{tname} is not a tuple literal')
        for item in tab.elts:
            if tname == 'ENCODERS':
                call, encname = item, core.src(item.args[1]) if isinstance(item, ast.Call) and len(item.args) > 1 else None
            else:
                call, encname = (item.elts[0], core.src(item.elts[1])) if isinstance(item, ast.Tuple) and len(item.elts) == 2 else (None, None)
            if call is None or encname not in consts:
                ctx.fail('C19.tables', CODEC, f'{tname} entry `{core.src(item)[:70]}` not recognised', key=f'{tname}:{core.src(item)[:40]}', loc=f'{mod.relpath}:{item.lineno}')
                continue
            fn_name, orient = codec_entry(call)
            kind, fmt = consts[encname]
            seen.setdefault(encname, {})[tname] = (fn_name, orient)
            if fmt and fmt.startswith('pandas-'):
                want = fmt.split('-', 1)[1]
                okfn = ('to_json' in fn_name) if tname == 'ENCODERS' else ('read_json' in fn_name)
                ctx.check(orient == want and okfn, 'C19.tables', CODEC, f'{tname}: {encname} (format={fmt}) uses {fn_name}(orient={orient!r})', key=f'{tname}:{encname}', loc=f'{mod.relpath}:{item.lineno}')
            elif 'csv' in encname.lower():
                ctx.check('csv' in fn_name, 'C19.tables', CODEC, f'{tname}: {encname} uses {fn_name}', key=f'{tname}:{encname}', loc=f'{mod.relpath}:{item.lineno}')
            else:
                ctx.ok('C19.tables', CODEC, f'{tname}: {encname} uses {fn_name}')
    pairs = 0
    for encname, sides in seen.items():
        if len(sides) == 2:
            pairs += 1
            ctx.check(sides['ENCODERS'][1] == sides['DECODERS'][1], 'C19.tables', CODEC, f'{encname}: encoder and decoder agree on the orient ({sides})', key=f'pair:{encname}', loc=mod.relpath)
    ctx.floor('C19.codec-pairs', pairs, 7)
    # the generic application
    rcv = prog.func(f'{DESCRIPTOR}:Generic.receive')
    ctx.check('get_decoder(request.payload.encoding).loads(request.payload.data)' in core.src(rcv.node), 'C19.generic', rcv, 'the request is decoded with the decoder of its declared content type', rcv.node, key='receive')
    rsp = prog.func(f'{DESCRIPTOR}:Generic.respond')
    text = core.src(rsp.node)
    ctx.check('get_encoder(*encoding)' in text and 'Payload(encoder.dumps(outcome), encoder.encoding)' in text, 'C19.generic', rsp, 'the response uses the first supported encoder in the accepted order and declares that encoder\'s encoding', rsp.node, key='respond')


REST = 'forml.provider.gateway.rest'


def gateway(ctx) -> None:
    """The REST gateway hands the application the client's preferences as stated: the request encoding comes from the
    Content-Type header alone, the accepted encodings from the Accept header alone (header provenance by def-use over the
    endpoint; mixing the two would rank the unweighted content type above every Accept entry with q < 1)."""
    prog = ctx.prog
    ep = next((f for f in prog.functions([REST]) if f.qual.startswith('Apply.') and f.name.endswith('__endpoint')), None)
    if ep is None:
        raise core.AnalysisError('anchor vanished: rest.Apply endpoint')
    defs: dict[str, list[ast.AST]] = {}
    for a in core.walk_local(ep.node):
        if isinstance(a, ast.Assign) and isinstance(a.targets[0], ast.Name):
            defs.setdefault(a.targets[0].id, []).append(a.value)

    def headers(e: ast.AST, seen=()) -> set[str]:
        out = set()
        for n in ast.walk(e):
            if isinstance(n, ast.Call) and isinstance(n.func, ast.Attribute) and n.func.attr in ('get', '__getitem__') and core.src(n.func.value).endswith('.headers') and n.args and isinstance(n.args[0], ast.Constant):
                out.add(str(n.args[0].value).lower())
            elif isinstance(n, ast.Subscript) and core.src(n.value).endswith('.headers') and isinstance(n.slice, ast.Constant):
                out.add(str(n.slice.value).lower())
            elif isinstance(n, ast.Name) and n.id in defs and n.id not in seen:
                for d in defs[n.id]:
                    out |= headers(d, seen + (n.id,))
        return out

    reqs = [c for c in core.calls_in(ep.node) if core.call_tail(c) == 'Request' and len(c.args) + len(c.keywords) >= 4]
    ctx.floor('C19.gateway', len(reqs), 1)
    for c in reqs:
        enc_h, acc_h = headers(c.args[1]), headers(c.args[3])
        ctx.check(enc_h == {'content-type'}, 'C19.gateway', ep, f'the request encoding derives from the Content-Type header only (found {sorted(enc_h)})', c, key='endpoint:content-type')
        ctx.check(acc_h == {'accept'}, 'C19.gateway', ep, f'the accepted encodings derive from the Accept header only (found {sorted(acc_h)})', c, key='endpoint:accept')
    parses = [c for c in core.calls_in(ep.node) if core.call_tail(c) == 'parse']
    ctx.check(len(parses) == 2 and all(len(headers(c)) == 1 for c in parses), 'C19.gateway', ep, 'each header is parsed on its own (one Encoding.parse per header)', ep.node, key='endpoint:parse-per-header')
    # ... and is parsed as the client wrote it: the value reaching Encoding.parse is the header value itself (through
    # temporaries, defaults and conditionals), not something computed from it (lower-casing folds the case-sensitive option
    # values, stripping/splitting re-tokenises what cgi.parse_header is there to tokenise)
    def as_stated(e: ast.AST, seen=()) -> bool:
        if isinstance(e, ast.Name):
            if e.id in seen:
                return True
            return e.id in defs and all(as_stated(d, seen + (e.id,)) for d in defs[e.id] if not (isinstance(d, ast.Call) and core.call_tail(d) == 'parse'))
        if isinstance(e, ast.Call) and isinstance(e.func, ast.Attribute) and e.func.attr == 'get' and core.src(e.func.value).endswith('.headers'):
            return all(isinstance(a, (ast.Constant, ast.Attribute, ast.Name)) for a in e.args)
        if isinstance(e, ast.Subscript) and core.src(e.value).endswith('.headers'):
            return True
        if isinstance(e, ast.IfExp):
            return as_stated(e.body, seen) and as_stated(e.orelse, seen)
        if isinstance(e, ast.BoolOp):
            return all(as_stated(v, seen) for v in e.values)
        return isinstance(e, (ast.Constant, ast.Attribute))

    for c in parses:
        ctx.check(len(c.args) == 1 and as_stated(c.args[0]), 'C19.gateway', ep, f'the header value is parsed as the client stated it, not a transformation of it (`{core.src(c.args[0])[:80]}`)', c, key='endpoint:as-stated')
    un = [h for h in ast.walk(ep.node) if isinstance(h, ast.ExceptHandler) and h.type is not None and 'Unsupported' in core.src(h.type)]
    ctx.check(len(un) == 1 and any('415' in core.src(x) for x in un[0].body), 'C19.gateway', ep, 'the unsupported-encoding error reaches the client as 415', ep.node, key='endpoint:415')


MEMOKEY_OK = {
    f'{CODEC}:Pandas.Schema.from_frame': 'keyed by the hash of the ordered (column name, dtype) pairs - plain strings and dtypes, order-sensitive (rule above); no DSL object whose hash is order-insensitive is involved',
}


def codec_memos(ctx) -> None:
    """No long-lived memo of the codecs is keyed by ``hash(x)``/``id(x)`` of a DSL object: the schema hash is an order-insensitive
    xor of its fields, so two permuted schemas collide and the second one is encoded under the first one's column order."""
    from . import C08

    prog = ctx.prog
    n = 0
    for fn in prog.functions([m for m in prog.modules if m.startswith('forml.io.layout')]):
        n += 1
        sites = C08.memo_keys(fn.node)
        if not sites:
            continue
        if fn.ref in MEMOKEY_OK:
            ctx.ok('R-MEMOKEY', fn, f'hash-keyed memo accepted: {MEMOKEY_OK[fn.ref]}', sites[0][0])
            continue
        ctx.fail('R-MEMOKEY', fn, f'a long-lived mapping is keyed by {sites[0][1]}(...) of an object: `{core.src(sites[0][0])[:70]}` (permuted schemas have equal hashes)', core.enclosing_stmt(sites[0][0]))
    ctx.floor('R-MEMOKEY.functions', n, 40)
    col = prog.func(f'{CODEC}:Pandas.Encoder._columns')
    ctx.check(any(d.split('.')[-1] in ('lru_cache', 'cache') for d in core.decorator_names(col.node)) or not any(isinstance(x, ast.Subscript) and isinstance(x.ctx, ast.Store) for x in core.walk_local(col.node)), 'R-MEMOKEY', col, 'the column order of an outcome is memoised by the schema object itself (structural equality) or not at all', col.node, key='_columns:memo')


def schema_cache(ctx) -> None:
    """Decoding infers the table schema from the frame and memoises it by the frame layout: the memo key must distinguish what
    the schema depends on - the (name, dtype) pairs *in column order* (a permuted frame has a different schema; an unordered key
    serves the stale field order, so decode(encode(table)) mislabels the columns)."""
    prog = ctx.prog
    ff = prog.func(f'{CODEC}:Pandas.Schema.from_frame')
    frame = ff.param_names[1]
    keys = [a for a in core.walk_local(ff.node) if isinstance(a, ast.Assign) and core.src(a.targets[0]) == 'key']
    ctx.floor('C19.schema-cache', len(keys), 1)
    for a in keys:
        ok, why = shared.order_preserving(a.value, f'{frame}.dtypes.items()')
        ctx.check(ok, 'C19.schema-cache', ff, f'the schema memo key is an order-preserving image of `{frame}.dtypes.items()` (`{core.src(a.value)}`: {why or "ok"})', a, key='from_frame:key')
    stores = [x for x in core.walk_local(ff.node) if isinstance(x, ast.Assign) and core.src(x.targets[0]) == 'cls._CACHE[key]']
    ctx.check(len(stores) == 1 and f'*{frame}.columns' in core.src(stores[0].value), 'C19.schema-cache', ff, 'the inferred fields are named by the frame columns in their order', stores[0] if stores else ff.node, key='from_frame:columns')


def run(ctx) -> None:
    gateway(ctx)
    codec_memos(ctx)
    schema_cache(ctx)
    lookups(ctx)
    parse_rule(ctx)
    match_rule(ctx)
    tables(ctx)
    shared.argname_scope(ctx, ('forml.io.layout', 'forml.application._descriptor'), floor=2)
    # a request crosses process boundaries pickled: what comes out has the accept list it went in with
    ctx.floor('R-PICKLE.newargs', shared.r_newargs(ctx, [c for c in ctx.prog.classes.values() if c.module.name.startswith(('forml.io.layout', 'forml.application'))]), 1)
