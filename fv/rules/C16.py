"""C16 - concurrent serving never crosses, loses or duplicates responses (DESIGN.md section 4/C16)."""
from __future__ import annotations

import ast
import copy

from .. import cfg, core
from . import shared

EXPLANATION = (
    'Static decision of the structural clauses of C16: (1) R-EXACTLY-ONE - in the pool worker loop, on every path from a '
    'successfully fetched task to the end of the iteration (normal or raising) exactly one result is put and it is built '
    'from that very task (task.success / task.failure carry the task id); (2) failure isolation - the handler of platform '
    'errors (forml.AnyError) neither sets the stop event nor re-raises, only the generic handler does; (3) id correlation - '
    'Executor.apply keys the pending future and the task with the same unmodified index, registers the future before the '
    'task is queued and advances the index only afterwards; Executor.run resolves and removes exactly pending[result.id]; '
    'Result objects are built only by Task.success/failure with the task id first; (4) per-instance executors - the dealer '
    'looks up / inserts / submits with the same instance key; (5) R-LOCKSET - bound methods dispatched to the thread pool '
    'access shared mutable instance containers only under the instance lock; (6) the engine uses one query object for '
    'extract -> predict -> respond and reports its instance. Queue and process interleavings are not decided.'
)
ASSUMPTIONS = [
    'multiprocessing queues deliver each item once; the asyncio event loop calls Dealer.__call__ from a single thread',
]
MANIFEST = {
    'level': 'Static path counting over the CFG of the worker loop (with exceptional edges), dominance/ordering rules for '
             'the id bookkeeping and a lockset rule for code dispatched to the thread pool. Lost/duplicated/crossed responses '
             'under any interleaving need either a path with != 1 results per task, a key mismatch, or unsynchronised '
             'check-then-act on shared state; each is visible in the code shape for every schedule.',
    'note': 'Trusted: stdlib ast; queue semantics; single-threaded event loop for the dealer. Not decided: manager queue / '
            'process interleavings, shutdown with pending futures.',
    'technique': 'static analysis: CFG path counting with exceptional edges (R-EXACTLY-ONE), handler effect rule, def-use '
                 'and dominance ordering of the id bookkeeping, who-constructs census, lockset analysis of thread-pool '
                 'dispatched methods (R-LOCKSET)',
}

PRED = 'forml.runtime._service.prediction'
DISPATCH = 'forml.runtime._service.dispatch'
SERVICE = 'forml.runtime._service'


def runner_passthrough(ctx) -> None:
    """The serving entry point of the runner lets a pipeline error through as it is: the worker decides by the *class* of the
    error whether one request failed (platform errors: answered to that caller) or the sandbox is broken (anything else: the
    pool stops).  Wrapping every error into another class turns a missing-feature request into a dead executor."""
    prog = ctx.prog
    fn = prog.func('forml.provider.runner.pyfunc:Runner.call')
    conv = [h for t in core.walk_local(fn.node) if isinstance(t, ast.Try) for h in t.handlers if any(isinstance(r, ast.Raise) and r.exc is not None and not (isinstance(r.exc, ast.Name) and r.exc.id == (h.name or '')) for r in ast.walk(h))]
    ctx.check(not conv, 'C16.isolation', fn, 'Runner.call re-raises nothing under another class (the worker classifies errors by class)', conv[0] if conv else fn.node, key='runner:passthrough')


def pool_size(ctx) -> None:
    """Every configured pool size serves: ``Pool.run`` forks exactly ``self._processes`` workers - the count of the range that
    drives the worker construction is the configured number (``range(n)`` or ``range(a, n + a)``), so a pool of one has its
    one worker (``while all(alive for w in [])`` is vacuously true: a pool without workers hangs every caller silently)."""
    prog = ctx.prog
    fn = prog.func(f'{PRED}:Pool.run')
    inl = fn
    makers = [c for c in core.walk_local(inl.node) if isinstance(c, ast.Call) and (core.call_tail(c) == 'Worker')]
    ranges = []
    for c in makers:
        for a in core.ancestors(c):
            if isinstance(a, (ast.ListComp, ast.GeneratorExp, ast.SetComp)):
                ranges += [g.iter for g in a.generators]
            elif isinstance(a, (ast.For,)):
                ranges.append(a.iter)
            if a is inl.node:
                break
    ctx.floor('C16.pool-size', len(makers), 1)

    def count_ok(r: ast.AST) -> bool:
        if not (isinstance(r, ast.Call) and isinstance(r.func, ast.Name) and r.func.id == 'range' and not r.keywords):
            return False
        n = 'self._processes'
        if len(r.args) == 1:
            return core.src(r.args[0]) == n
        if len(r.args) == 2 and isinstance(r.args[0], ast.Constant) and isinstance(r.args[0].value, int):
            a = r.args[0].value
            return core.src(r.args[1]) in (f'{n} + {a}', f'{a} + {n}') or (a == 0 and core.src(r.args[1]) == n)
        return False

    ctx.check(len(ranges) == 1 and count_ok(ranges[0]), 'C16.pool-size', fn, f'the pool forks exactly self._processes workers (driven by `{core.src(ranges[0]) if ranges else "?"}`)', ranges[0] if ranges else fn.node, key='pool:size')


def worker_loop(ctx) -> None:
    prog = ctx.prog
    fn = prog.func(f'{PRED}:Pool.Worker.run')
    loops = [s for s in fn.body if isinstance(s, ast.While)]
    if len(loops) != 1:
        raise core.AnalysisError('Pool.Worker.run: single worker loop not found')
    loop = loops[0]
    # the fetch: task = self._tasks.get(...) inside a try whose Empty handler continues
    fetch_try = next((s for s in loop.body if isinstance(s, ast.Try) and any(isinstance(b, (ast.Assign, ast.AnnAssign)) and '_tasks.get' in core.src(b) for b in s.body)), None)
    if fetch_try is None:
        raise core.AnalysisError('Pool.Worker.run: task fetch idiom not found')
    fetch = next(b for b in fetch_try.body if '_tasks.get' in core.src(b))
    tvar = core.src(fetch.target if isinstance(fetch, ast.AnnAssign) else fetch.targets[0])
    ctx.check(all(isinstance(h.body[-1], ast.Continue) for h in fetch_try.handlers) and all('Empty' in core.src(h.type) for h in fetch_try.handlers), 'R-EXACTLY-ONE', fn, 'an empty queue only re-polls (no result without a task)', fetch_try, key='fetch:empty')
    after = loop.body[loop.body.index(fetch_try) + 1:]
    # analyse the remainder of the iteration as a pseudo function
    pseudo = ast.FunctionDef(name='iteration', args=ast.arguments(posonlyargs=[], args=[], kwonlyargs=[], kw_defaults=[], defaults=[]), body=after, decorator_list=[], lineno=after[0].lineno, col_offset=0)
    graph = cfg.CFG(pseudo)

    def puts(st):
        return [c for c in cfg.header_calls(st) if isinstance(c.func, ast.Attribute) and c.func.attr in ('put', 'put_nowait') and '_results' in core.src(c.func.value)]

    for end, label in ((cfg.EXIT, 'normal end of the iteration'), (cfg.RAISE, 'raising exit')):
        cnt = cfg.count_events(graph, cfg.ENTRY, end, lambda st: len(puts(st)), normal_only=False)
        if cnt is None:
            ctx.ok('R-EXACTLY-ONE', fn, f'{label}: unreachable', loop)
            continue
        ctx.check(cnt == (1, 1), 'R-EXACTLY-ONE', fn, f'results put per fetched task on every path to the {label}: (min, max) = {cnt}; expected exactly one', loop, key=f'worker:{label}')
    allputs = [c for st in graph.statements() for c in puts(st)]
    ctx.floor('C16.worker-puts', len(allputs), 2)
    for c in allputs:
        arg = c.args[0] if c.args else None
        ok = isinstance(arg, ast.Call) and isinstance(arg.func, ast.Attribute) and arg.func.attr in ('success', 'failure') and core.src(arg.func.value) == tvar
        ctx.check(ok, 'R-EXACTLY-ONE', fn, f'the result is built from the fetched task itself ({tvar}.success/failure): `{core.src(arg)[:60]}`', c)
    work_try = next((s for s in after if isinstance(s, ast.Try)), None)
    if work_try is None:
        raise core.AnalysisError('Pool.Worker.run: work try block not found')
    # the outcome is computed from the entry of the same task
    succ = [c for c in allputs if isinstance(c.args[0], ast.Call) and getattr(c.args[0].func, 'attr', None) == 'success']
    inl = core.src(fn.inlined().node)
    ctx.check(len(succ) == 1 and (f'{tvar}.entry' in core.src(succ[0]) or f'{tvar}.success(self._runner.call({tvar}.entry))' in inl or (lambda x: f'{x}.success(self._runner.call({x}.entry))' in inl)(core.src(fetch.value))), 'R-EXACTLY-ONE', fn, 'the outcome is computed from the entry of the same task', succ[0] if succ else loop, key='worker:entry')
    # failure isolation
    for h in work_try.handlers:
        tname = core.src(h.type) if h.type is not None else 'bare'
        stops = any(isinstance(c.func, ast.Attribute) and c.func.attr == 'set' and '_stopped' in core.src(c.func.value) for s in h.body for c in core.calls_in(s) + ([s.value] if isinstance(s, ast.Expr) and isinstance(s.value, ast.Call) else []))
        reraises = any(isinstance(s, ast.Raise) for s in ast.walk(h))
        if 'AnyError' in tname:
            ctx.check(not stops and not reraises, 'C16.isolation', fn, 'a platform-level error fails its own request only: the handler neither stops the pool nor re-raises', h, key='isolation:anyerror')
        else:
            ctx.ok('C16.isolation', fn, f'handler {tname}: stops={stops} reraises={reraises}', h)
    order = [core.src(h.type) for h in work_try.handlers if h.type is not None]
    ctx.check(any('AnyError' in o for o in order) and order.index(next(o for o in order if 'AnyError' in o)) == 0, 'C16.isolation', fn, f'the platform-error handler comes before the generic one ({order})', work_try, key='isolation:order')


def id_correlation(ctx) -> None:
    prog = ctx.prog
    ap = prog.func(f'{PRED}:Executor.apply')
    graph = cfg.CFG(ap.node)
    reg = [s for s in graph.statements() if isinstance(s, ast.Assign) and isinstance(s.targets[0], ast.Subscript) and core.src(s.targets[0].value) == 'self._pending']
    put = [s for s in graph.statements() if any(isinstance(c.func, ast.Attribute) and c.func.attr in ('put', 'put_nowait') and '_tasks' in core.src(c.func.value) for c in cfg.header_calls(s))]
    # single-assignment locals of apply(): the task may be built first and its id read back (`task.id` of a Task(K, ..) is K)
    local: dict = {}
    for st in core.walk_local(ap.node):
        if isinstance(st, ast.Assign) and len(st.targets) == 1 and isinstance(st.targets[0], ast.Name):
            local.setdefault(st.targets[0].id, []).append(st.value)

    def task_call(e):
        if isinstance(e, ast.Name) and len(local.get(e.id, [])) == 1:
            e = local[e.id][0]
        return e if isinstance(e, ast.Call) and core.call_name(e) == 'Task' else None

    def id_of(task):
        if task is None:
            return None
        if task.args:
            return task.args[0]
        return next((k.value for k in task.keywords if k.arg == 'id'), None)

    def key_expr(e):
        if isinstance(e, ast.Attribute) and e.attr == 'id' and task_call(e.value) is not None and id_of(task_call(e.value)) is not None:
            return core.src(id_of(task_call(e.value)))
        return core.src(e)

    key_attr = key_expr(reg[0].targets[0].slice) if reg else 'self._index'
    inc = [s for s in graph.statements() if isinstance(s, (ast.AugAssign, ast.Assign)) and core.src(s.target if isinstance(s, ast.AugAssign) else s.targets[0]) == key_attr]
    if len(reg) != 1 or len(put) != 1 or len(inc) != 1:
        ctx.fail('C16.id', ap, f'id bookkeeping idiom not recognised (register={len(reg)} put={len(put)} advance={len(inc)})', ap.node, key='apply:idiom')
        return
    key = key_attr
    task = next((c for c in core.calls_in(put[0]) if core.call_name(c) == 'Task'), None)
    if task is None:
        task = next((task_call(a) for c in cfg.header_calls(put[0]) for a in c.args if task_call(a) is not None), None)
    if task is None:
        ctx.fail('C16.id', ap, 'the queued object is not a Task built in apply()', put[0], key='apply:idiom')
        return
    def targ(pos: int, name: str) -> str:
        if len(task.args) > pos:
            return core.src(task.args[pos])
        return next((core.src(k.value) for k in task.keywords if k.arg == name), '')

    ctx.check(targ(0, 'id') == key, 'C16.id', ap, f"the pending future and the task carry the same id expression ({key} / {targ(0, 'id')})", put[0], key='apply:same-id')
    ctx.check(graph.dominates(reg[0], put[0]) and not graph.reaches(put[0], reg[0]), 'C16.id', ap, 'the future is registered before the task is queued (a fast worker cannot answer an unknown id)', put[0], key='apply:register-first')
    ctx.check(graph.dominates(put[0], inc[0]) and graph.dominates(reg[0], inc[0]) and not graph.reaches(inc[0], reg[0]) and not graph.reaches(inc[0], put[0]), 'C16.id', ap, 'the index advances only after both uses', inc[0], key='apply:advance-last')
    ctx.check(isinstance(inc[0], ast.AugAssign) and isinstance(inc[0].op, ast.Add) and core.is_const(inc[0].value, 1), 'C16.id', ap, 'ids are consecutive (index += 1): never reused while pending', inc[0], key='apply:increment')
    ret = next((r for r in core.walk_local(ap.node) if isinstance(r, ast.Return)), None)
    ctx.check(ret is not None and core.src(ret.value) == core.src(reg[0].value), 'C16.id', ap, 'the caller receives the very future that was registered', ret or ap.node, key='apply:return')
    ctx.check(targ(1, 'entry') == 'entry', 'C16.id', ap, "the task carries the caller's entry", put[0], key='apply:entry')
    run = prog.func(f'{PRED}:Executor.run')
    keys = [core.src(n.slice) for n in core.walk_local(run.node) if isinstance(n, ast.Subscript) and core.src(n.value) == 'self._pending']
    keys += [core.src(c.args[0]) for c in core.calls_in(run.node) if isinstance(c.func, ast.Attribute) and c.func.attr in ('pop', 'get') and core.src(c.func.value) == 'self._pending' and c.args]
    ctx.floor('C16.run-uses', len(keys), 1)
    ctx.check(bool(keys) and all(k == 'result.id' for k in keys), 'C16.id', run, f'results are correlated by result.id only ({keys})', run.node, key='run:key')
    # per received result: exactly one resolution of its future and exactly one removal, on every path of the iteration
    rloops = [s for s in run.body if isinstance(s, ast.While)]
    if len(rloops) != 1:
        raise core.AnalysisError('Executor.run: single loop not found')
    rloop = rloops[0]
    ftry = next((s for s in rloop.body if isinstance(s, ast.Try) and any('_results.get' in core.src(b) for b in s.body)), None)
    if ftry is None:
        raise core.AnalysisError('Executor.run: result fetch idiom not found')
    rest = rloop.body[rloop.body.index(ftry) + 1:]
    pseudo = ast.FunctionDef(name='iteration', args=ast.arguments(posonlyargs=[], args=[], kwonlyargs=[], kw_defaults=[], defaults=[]), body=rest, decorator_list=[], lineno=rest[0].lineno if rest else rloop.lineno, col_offset=0)
    g2 = cfg.CFG(pseudo)

    def resolves(st):
        return sum(1 for c in cfg.header_calls(st) if isinstance(c.func, ast.Attribute) and c.func.attr in ('set_result', 'set_exception'))

    def removes(st):
        n = sum(1 for c in cfg.header_calls(st) if isinstance(c.func, ast.Attribute) and c.func.attr == 'pop' and core.src(c.func.value) == 'self._pending')
        if isinstance(st, ast.Delete) and any(isinstance(tg, ast.Subscript) and core.src(tg.value) == 'self._pending' for tg in st.targets):
            n += 1
        return n

    rc = cfg.count_events(g2, cfg.ENTRY, cfg.EXIT, resolves)
    rm = cfg.count_events(g2, cfg.ENTRY, cfg.EXIT, removes)
    ctx.check(rc == (1, 1), 'R-EXACTLY-ONE', run, f'a received result resolves its future exactly once per iteration: (min, max) = {rc} (resolving twice raises InvalidStateError in the executor thread and strands every other in-flight request)', rloop, key='run:resolve-once')
    ctx.check(rm == (1, 1), 'R-EXACTLY-ONE', run, f'and its pending entry is removed exactly once: (min, max) = {rm}', rloop, key='run:remove-once')
    for st in g2.statements():
        for c in cfg.header_calls(st):
            if isinstance(c.func, ast.Attribute) and c.func.attr in ('set_result', 'set_exception'):
                want = 'result.outcome' if c.func.attr == 'set_result' else 'result.exception'
                ctx.check(core.src(c.args[0]) == want, 'C16.id', run, f'{c.func.attr} receives {want}', st)
                if c.func.attr == 'set_exception':
                    gs = [core.src(t) for t, pol in cfg.guards(c, run.node, siblings=False) if pol]
                    ctx.check(any(g in ('result.exception', 'result.exception is not None') for g in gs), 'C16.id', run, 'the exception slot decides between failure and success', st, key='run:exception-guard')
    # who constructs Result
    n = 0
    for fn in prog.functions([m for m in prog.modules if m.startswith('forml.runtime')]):
        for c in core.calls_in(fn.node):
            if core.call_name(c) == 'Result' and fn.module.name == PRED:
                n += 1
                ok = fn.ref in (f'{PRED}:Task.success', f'{PRED}:Task.failure') and core.src(c.args[0]) == 'self.id'
                ctx.check(ok, 'C16.id', fn, 'Result is built only by Task.success/failure with the task id first', c)
    ctx.floor('C16.result-constructors', n, 2)
    res = prog.cls(f'{PRED}:Result')
    ctx.check(list(res.annotations)[:3] == ['id', 'outcome', 'exception'], 'C16.id', res.ref, 'Result fields are (id, outcome, exception)', key='result:fields', loc=res.module.relpath)
    s, f = prog.func(f'{PRED}:Task.success'), prog.func(f'{PRED}:Task.failure')
    ctx.check(core.src(s.body[-1]) == 'return Result(self.id, outcome, None)' and core.src(f.body[-1]) == 'return Result(self.id, None, exception)', 'C16.id', s, 'success fills the outcome slot, failure the exception slot', s.node, key='task:slots')


def dealer(ctx) -> None:
    prog = ctx.prog
    fn = prog.func(f'{DISPATCH}:Dealer.__call__')
    inst = [p for p in fn.param_names if p != 'self'][0]
    graph = cfg.CFG(fn.node)
    subs = [n for n in core.walk_local(fn.node) if isinstance(n, ast.Subscript) and core.src(n.value) == 'self._cache']
    ctx.check(bool(subs) and all(core.src(s.slice) == inst for s in subs), 'C16.dealer', fn, f'the executor cache is keyed by the requested instance only ({[core.src(s.slice) for s in subs]})', fn.node, key='dealer:key')
    gate = next((s for s in fn.body if isinstance(s, ast.If) and core.src(s.test) == f'{inst} not in self._cache'), None)
    looked = None  # the local holding self._cache.get(instance), when the lookup is done once up front
    if gate is None:
        for k, s_ in enumerate(fn.body):
            if isinstance(s_, ast.Assign) and len(s_.targets) == 1 and isinstance(s_.targets[0], ast.Name) and core.src(s_.value) in (f'self._cache.get({inst})', f'self._cache.get({inst}, None)'):
                nxt = next((x for x in fn.body[k + 1:] if isinstance(x, ast.If)), None)
                if nxt is not None and core.src(nxt.test) == f'{s_.targets[0].id} is None' and not any(isinstance(y, ast.Name) and y.id == s_.targets[0].id and isinstance(y.ctx, ast.Store) for x in fn.body[k + 1:fn.body.index(nxt)] for y in ast.walk(x)):
                    gate, looked = nxt, s_.targets[0].id
    ctx.check(gate is not None, 'C16.dealer', fn, 'a new executor is spawned only for an unseen instance', fn.node, key='dealer:gate')
    if gate is not None:
        ctor = next((c for c in core.calls_in(gate) if (core.call_name(c) or '').endswith('Executor')), None)
        ctx.check(ctor is not None and core.src(ctor.args[0]) == inst, 'C16.dealer', fn, 'the executor is built for that instance', gate, key='dealer:ctor')
        store = [s for s in gate.body if isinstance(s, ast.Assign) and isinstance(s.targets[0], ast.Subscript) and core.src(s.targets[0].value) == 'self._cache']
        ctx.check(len(store) == 1 and core.src(store[0].targets[0].slice) == inst, 'C16.dealer', fn, 'and cached under it', gate, key='dealer:store')
    sub = [c for c in core.calls_in(fn.node) if isinstance(c.func, ast.Attribute) and c.func.attr == 'apply']
    own = len(sub) == 1 and core.src(sub[0].func.value) == f'self._cache[{inst}]'
    if len(sub) == 1 and looked is not None and core.src(sub[0].func.value) == looked and gate is not None:
        # the looked-up local: outside the gate it is the cached executor, inside it is re-bound to the one that is cached
        rebinds = [a for a in ast.walk(fn.node) if isinstance(a, ast.Assign) and any(isinstance(t, ast.Name) and t.id == looked for t in a.targets) and core.src(a.value) != f'self._cache.get({inst})' and core.src(a.value) != f'self._cache.get({inst}, None)']
        stored = [a for a in gate.body if isinstance(a, ast.Assign) and isinstance(a.targets[0], ast.Subscript) and core.src(a.targets[0].value) == 'self._cache' and core.src(a.value) == looked]
        own = len(rebinds) == 1 and any(rebinds[0] is x for x in gate.body) and (core.call_name(rebinds[0].value) or '').endswith('Executor') and len(stored) == 1 and not gate.orelse
    ctx.check(own and [core.src(a) for a in sub[0].args] == ['entry'], 'C16.dealer', fn, "the caller's entry is submitted to the executor of its own instance", fn.node, key='dealer:submit')
    eng = prog.func(f'{SERVICE}:Engine.apply')
    text = [core.src(s) for s in eng.body if not isinstance(s, ast.Expr)]
    want = [
        'query = await self._wrapper.extract(application, request, _perf.Stats())',
        'outcome = await self._dealer(query.instance, query.decoded.entry)',
        'payload = await self._wrapper.respond(query, outcome)',
        'return layout.Response(payload, query.instance)',
    ]
    ctx.check(text == want, 'C16.engine', eng, 'one query object flows through extract -> predict -> respond and the response reports its instance', eng.node, key='engine:sequence')
    # instance identity (executor cache key)
    instance = prog.cls('forml.io.asset._access:Instance')
    if '__eq__' in instance.methods or '__hash__' in instance.methods:
        h, e = instance.methods.get('__hash__'), instance.methods.get('__eq__')
        ha = {n.attr for n in ast.walk(h) if isinstance(n, ast.Attribute) and isinstance(n.value, ast.Name) and n.value.id == 'self'} if h else set()
        ea = {n.attr for n in ast.walk(e) if isinstance(n, ast.Attribute) and isinstance(n.value, ast.Name) and n.value.id == 'self'} if e else set()
        ctx.check(h is not None and e is not None and ha <= ea | {'__class__'}, 'R-EQHASH', instance.ref, f'Instance hash fields {sorted(ha)} are compared by equality {sorted(ea)}', key='instance:eqhash', loc=instance.module.relpath)


LOCK_CTORS = {'threading.Lock', 'threading.RLock', 'Lock', 'RLock'}
MUTATORS = {'update', 'add', 'append', 'pop', 'setdefault', 'clear', 'extend', 'remove', 'popitem', 'insert', 'discard'}


def lockset(ctx) -> None:
    prog = ctx.prog
    n = 0
    for ci in prog.classes.values():
        if not ci.module.name.startswith('forml.runtime._service') and not ci.module.name.startswith('forml.application'):
            continue
        init = ci.methods.get('__init__')
        if init is None:
            continue
        attrs: dict[str, ast.AST] = {}
        for s in ast.walk(init):
            tgt = None
            if isinstance(s, ast.Assign) and len(s.targets) == 1:
                tgt, val = s.targets[0], s.value
            elif isinstance(s, ast.AnnAssign) and s.value is not None:
                tgt, val = s.target, s.value
            if tgt is not None and isinstance(tgt, ast.Attribute) and isinstance(tgt.value, ast.Name) and tgt.value.id == 'self':
                attrs[tgt.attr] = val
        locks = {a for a, v in attrs.items() if isinstance(v, ast.Call) and (core.call_name(v) or '') in LOCK_CTORS}
        thread_pools = {a for a, v in attrs.items() if 'ThreadPoolExecutor' in core.src(v)}
        if not thread_pools:
            continue
        # methods handed to the thread pool: self.<pool>(self.<method>, ...)
        dispatched = set()
        for mname, m in ci.methods.items():
            for c in core.calls_in(m):
                if isinstance(c.func, ast.Attribute) and isinstance(c.func.value, ast.Name) and c.func.value.id == 'self' and c.func.attr in thread_pools and c.args:
                    tgt = c.args[0]
                    if isinstance(tgt, ast.Attribute) and isinstance(tgt.value, ast.Name) and tgt.value.id == 'self' and tgt.attr in ci.methods:
                        dispatched.add(tgt.attr)
        for mname in sorted(dispatched):
            m = ci.methods[mname]
            if 'staticmethod' in core.decorator_names(m):
                ctx.ok('R-LOCKSET', f'{ci.ref}.{mname}', 'dispatched static method touches no instance state')
                n += 1
                continue
            fn = prog.func(f'{ci.ref}.{mname}')
            written = set()
            for x in core.walk_local(m):
                if isinstance(x, (ast.Assign, ast.AugAssign, ast.Delete)):
                    for t in (x.targets if isinstance(x, (ast.Assign, ast.Delete)) else [x.target]):
                        base = t.value if isinstance(t, ast.Subscript) else t
                        if isinstance(base, ast.Attribute) and isinstance(base.value, ast.Name) and base.value.id == 'self':
                            written.add(base.attr)
                if isinstance(x, ast.Call) and isinstance(x.func, ast.Attribute) and x.func.attr in MUTATORS:
                    base = x.func.value
                    if isinstance(base, ast.Attribute) and isinstance(base.value, ast.Name) and base.value.id == 'self':
                        written.add(base.attr)
            shared_attrs = {a for a in written if a in attrs and not a in locks}
            for x in core.walk_local(m):
                if isinstance(x, ast.Attribute) and isinstance(x.value, ast.Name) and x.value.id == 'self' and x.attr in shared_attrs:
                    n += 1
                    held = [core.src(i.context_expr) for a in core.ancestors(x) if isinstance(a, ast.With) for i in a.items]
                    ok = any(h.startswith('self.') and h[5:] in locks for h in held)
                    ctx.check(ok, 'R-LOCKSET', fn, f'`self.{x.attr}` is read/written from the thread pool in a method that also updates it: must be inside `with self.<lock>` (locks: {sorted(locks)}; held: {held})', x, key=f'{mname}:{x.attr}:{core.stmt_key(core.enclosing_stmt(x))}')
    ctx.floor('R-LOCKSET', n, 5)


def per_instance(ctx) -> None:
    """Correlation state (pending futures, task counters, executor caches, queues) belongs to one executor / dealer / wrapper:
    nothing mutated through self may be a container bound once in the class body (shared by every instance)."""
    prog = ctx.prog
    shared.perinstance_selfcheck()
    scope = [c for c in prog.classes.values() if c.module.name.startswith(('forml.runtime._service', 'forml.provider.runner.pyfunc', 'forml.provider.gateway', 'forml.runtime._agent'))]
    ctx.floor('R-PERINSTANCE.classes', len(scope), 10)
    n = shared.r_perinstance(ctx, scope)
    # every attribute the executor mutates is (re)bound in its own __init__
    ex = prog.cls(f'{PRED}:Executor')
    init = ex.methods.get('__init__')
    bound = {t.attr for x in core.walk_local(init) if isinstance(x, (ast.Assign, ast.AnnAssign)) for t in (x.targets if isinstance(x, ast.Assign) else [x.target]) if isinstance(t, ast.Attribute) and core.src(t.value) == 'self'} if init is not None else set()
    used = set()
    for mname, m in ex.methods.items():
        if mname == '__init__':
            continue
        for x in core.walk_local(m):
            if isinstance(x, ast.Attribute) and core.src(x.value) == 'self' and x.attr.startswith('_') and not x.attr.startswith('__') and isinstance(x.ctx, ast.Store):
                used.add(x.attr)
        for site, a in shared.container_writes(m, {a.attr for a in core.walk_local(m) if isinstance(a, ast.Attribute) and core.src(a.value) == 'self'}):
            if a.startswith('_') and not a.startswith('__'):
                used.add(a)
    inherited = {'_target', '_args', '_kwargs', '_started', '_is_stopped', '_tstate_lock'}  # threading.Thread internals
    missing = sorted(a for a in used - bound - inherited if a not in ex.methods)
    ctx.check(not missing, 'R-PERINSTANCE', ex.ref, f'every attribute the executor mutates is bound per instance in __init__ (not bound there: {missing}; examined {n} class-level containers in the serving scope)', key='Executor:init-bound', loc=ex.module.relpath)


REQUEST_PATH = (f'{DISPATCH}:Wrapper.extract', f'{DISPATCH}:Wrapper.respond', f'{DISPATCH}:Wrapper._dispatch', f'{DISPATCH}:Wrapper._pack', f'{SERVICE}:Engine.apply')


def request_state(ctx) -> None:
    """Whatever belongs to one request lives in that request's own locals: the coroutines and helpers on the request path
    never (re)bind an attribute of the shared wrapper/engine ("current application", "last descriptor", a selection cache) -
    between an ``await`` and its resumption another request would read or overwrite it.  Each request resolves its own
    descriptor through _get_descriptor(application) and its own instance through descriptor.select(...)."""
    prog = ctx.prog
    n = 0
    for ref in REQUEST_PATH:
        fn = prog.func(ref)
        n += 1
        first = fn.param_names[0] if fn.param_names else None
        stores = []
        for x in core.walk_local(fn.node):
            if isinstance(x, (ast.Assign, ast.AugAssign, ast.AnnAssign)):
                for t in (x.targets if isinstance(x, ast.Assign) else [x.target]):
                    base = t
                    while isinstance(base, ast.Subscript):
                        base = base.value
                    if isinstance(base, ast.Attribute) and isinstance(base.value, ast.Name) and base.value.id in ('self', 'cls'):
                        stores.append(x)
        ctx.check(not stores, 'C16.request-state', fn, f'{fn.qual} keeps its request in locals (no write to shared `self` state: {[core.src(x)[:50] for x in stores]})', stores[0] if stores else fn.node, key=f'{fn.qual}:no-shared-writes')
    ctx.floor('C16.request-path', n, 5)
    ex = prog.func(f'{DISPATCH}:Wrapper.extract')
    app = ex.param_names[1]
    shared.stmt_under(ctx, 'C16.request-state', ex, f'descriptor = await self._threads(self._get_descriptor, {app})', [], 'every request resolves the descriptor of its own application', 'extract:descriptor', inlined=False, siblings=False)
    dp = prog.func(f'{DISPATCH}:Wrapper._dispatch')
    sel = [c for c in core.calls_in(dp.node) if isinstance(c.func, ast.Attribute) and c.func.attr == 'select']
    ctx.check(len(sel) == 1 and core.src(sel[0].func.value) == 'descriptor' and not cfg.cguards(core.enclosing_stmt(sel[0]), dp.node), 'C16.request-state', dp, 'every request asks its own descriptor to select the model instance (no selection reused across requests)', sel[0] if sel else dp.node, key='dispatch:select')


def descriptor_cache(ctx) -> None:
    """Every request is served by the descriptor of *its own* application: the cache is read and written under the key
    `application` only, an unknown application is refused (MissingError) after one refresh of the inventory listing, a known
    one is loaded on first use, and what is returned is the cache entry of that same key."""
    prog = ctx.prog
    fn = prog.func(f'{DISPATCH}:Wrapper._get_descriptor')
    app = fn.param_names[1]
    U = shared.stmt_under
    miss = (f'{app} not in self._descriptors', True)
    U(ctx, 'C16.descriptor', fn, 'self._descriptors.update({a: None for a in updates})', [miss], 'newly listed applications are registered (unloaded) when an unknown name arrives', 'descriptor:register', inlined=False, siblings=False)
    rs = [r for r in core.walk_local(fn.node) if isinstance(r, ast.Raise)]
    ctx.check(len(rs) == 1 and 'MissingError' in core.src(rs[0]) and sorted(cfg.cguards(rs[0], fn.node)) == cfg.cg(miss, (f'{app} not in updates', True)), 'C16.descriptor', fn, 'an application absent from the refreshed listing is refused - alone', rs[0] if rs else fn.node, key='descriptor:unknown')
    U(ctx, 'C16.descriptor', fn, f'self._descriptors[{app}] = self._inventory.get({app})', [(f'self._descriptors[{app}]', False)], 'a registered but unloaded descriptor is loaded on first use, under its own key', 'descriptor:load', inlined=False, siblings=False)
    U(ctx, 'C16.descriptor', fn, f'return self._descriptors[{app}]', [], 'the caller gets the cache entry of its own application', 'descriptor:return', inlined=False, siblings=False)
    up = [a for a in core.walk_local(fn.node) if isinstance(a, ast.Assign) and core.src(a.targets[0]) == 'updates']
    ctx.check(len(up) == 1 and core.src(up[0].value) == 'set(self._inventory.list()).difference(self._descriptors)', 'C16.descriptor', fn, 'updates = listed applications not cached yet', up[0] if up else fn.node, key='descriptor:updates')


def run(ctx) -> None:
    pool_size(ctx)
    runner_passthrough(ctx)
    # nothing is computed from a loop variable after its loop ran to completion (it would be the last element's value)
    shared.r_staleloop(ctx, ctx.prog.functions([m for m in ctx.prog.modules if m.startswith(('forml.runtime._service',))]))
    request_state(ctx)
    descriptor_cache(ctx)
    per_instance(ctx)
    worker_loop(ctx)
    id_correlation(ctx)
    dealer(ctx)
    lockset(ctx)
    shared.argname_scope(ctx, ('forml.runtime._service',), floor=2)
