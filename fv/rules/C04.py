"""C04 - persisted states are bound to the actors that produced them in every mode (DESIGN.md section 4/C04)."""
from __future__ import annotations

import ast

from .. import cfg, core
from . import shared
from . import C01, C13

EXPLANATION = (
    'Static decision of the structural clauses of C04: (1) same-composition pairing - in every mode driver (Runner.train / '
    'apply / eval_perftrack, pyfunc.Runner.__init__) the node list given to instance.state(...) is <c>.persistent and the '
    'executed/compiled segment is <c>.<mode> of the same composition <c>; eval_traintest passes no assets; (2) '
    'Composition.persistent derives from the apply segment through clean.Stateful, which appends a group id once, in '
    'visiting order, only for derived workers; (3) positional chain - State(generation, nodes, tag) keeps the node order, '
    'State.load -> generation.get(offset(gid)), Generation.get(int) indexes the ordered tag.states, the committer position is '
    'offset(gid) (C01), State.commit -> tag.replace(states=states) in committer order; (4) the perftrack composition keeps a '
    'copy of the pipeline apply segment subscribed to the head apply segment, and the segments whose subscriptions make '
    'workers "trained" stay referenced (trained-ness is derived from live subscriptions: worker groups hold their forks '
    'strongly, a dropped train segment un-trains its first trainer); (5) state import keeps current hyper-parameters '
    '(bracket rule shared with C13). Binding across processes and histories beyond these structural facts is not decided.'
)
ASSUMPTIONS = ['segment traversal order is deterministic for equal expansions of one expression']
MANIFEST = {
    'level': 'Static agreement rules along the positional binding chain (persistent list -> state accessor -> offsets -> tag '
             'states) and ownership/keep-alive rules for the subscriptions that define trained-ness. A mis-binding needs two '
             'sites of the chain to disagree or a segment to be dropped; both are visible statically for every pipeline.',
    'note': 'Trusted: stdlib ast. Known finding K10: PerfTrackScore.compose drops the pipeline train segment, so the first '
            'trainer loses trained-ness after GC and the persistent list shifts. Not decided: cross-process histories.',
    'technique': 'static analysis: same-receiver agreement at call sites, order-preservation check, def-use keep-alive '
                 '(expanded-trunk segments must flow into the result), class-table check of strong group ownership',
}

AGENT = 'forml.runtime._agent'
PYFUNC = 'forml.provider.runner.pyfunc'
ASSEMBLY = 'forml.flow._suite.assembly'
CLEAN = 'forml.flow._suite.clean'
ACCESS = 'forml.io.asset._access'
MINOR = 'forml.io.asset._directory.level.minor'
STAGE = 'forml.evaluation._stage'
ATOMIC = 'forml.flow._graph.atomic'
PORT = 'forml.flow._graph.port'


def drivers(ctx) -> None:
    prog = ctx.prog
    n = 0
    for ref, mode in ((f'{AGENT}:Runner.train', 'train'), (f'{AGENT}:Runner.apply', 'apply'), (f'{AGENT}:Runner.eval_perftrack', 'train'), (f'{PYFUNC}:Runner.__init__', 'apply')):
        fn = prog.func(ref)
        states = [c for c in core.calls_in(fn.node) if isinstance(c.func, ast.Attribute) and c.func.attr == 'state' and '_instance' in core.src(c.func.value)]
        if len(states) != 1:
            ctx.fail('C04.pairing', fn, f'state accessor construction not found exactly once ({len(states)})', fn.node, key='state-call')
            continue
        n += 1
        st = states[0]
        nodes = core.src(st.args[0]) if st.args else ''
        comp = nodes.rsplit('.', 1)[0]
        ctx.check(nodes.endswith('.persistent'), 'C04.pairing', fn, f'the state accessor is built over `{nodes}`', st, key='nodes')
        # the segment handed to the same exec/compile call
        outer = next((a for a in core.ancestors(st) if isinstance(a, ast.Call) and a is not st), None)
        seg = core.src(outer.args[0]) if outer is not None and outer.args else ''
        ctx.check(seg == f'{comp}.{mode}', 'C04.pairing', fn, f'the executed segment `{seg}` and the persistent list `{nodes}` come from the same composition ({mode} segment)', st, key='same-composition')
    ctx.floor('C04.drivers', n, 4)
    tt = prog.func(f'{AGENT}:Runner.eval_traintest')
    ex = [c for c in core.calls_in(tt.node) if core.src(c.func) == 'self._exec']
    ctx.check(len(ex) == 1 and len(ex[0].args) == 1 and not ex[0].keywords, 'C04.pairing', tt, 'train-test evaluation trains from scratch: no assets', tt.node, key='traintest')
    ex = prog.func(f'{AGENT}:Runner._exec')
    ctx.check('flowmod.compile(segment, assets)' in core.src(ex.node), 'C04.pairing', ex, '_exec compiles the segment with the given assets', ex.node, key='_exec')
    tr = prog.func(f'{AGENT}:Runner.train')
    ctx.check('self._instance.tag.training.trigger()' in core.src(tr.node), 'C04.pairing', tr, 'training commits under a freshly triggered training tag', tr.node, key='train:tag')


def persistent(ctx) -> None:
    prog = ctx.prog
    fn = prog.func(f'{ASSEMBLY}:Composition.persistent')
    body = [core.src(s) for s in fn.body if not (isinstance(s, ast.Expr) and isinstance(s.value, ast.Constant))]
    v = body[0].split(' = ')[0] if body else ''
    ctx.check(body == [f'{v} = clean.Stateful()', f'self.apply.accept({v})', f'return tuple({v})'], 'C04.persistent', fn, 'the persistent list is what one Stateful visitor collects over the apply segment, in visiting order', fn.node, key='persistent')
    vn = prog.func(f'{CLEAN}:Stateful.visit_node')
    apps = [c for c in core.calls_in(vn.node) if core.src(c.func) == 'self._gids.append']
    ok = len(apps) == 1 and core.src(apps[0].args[0]) == 'node.gid'
    gs = [core.src(t) for t, pol in cfg.guards(apps[0], vn.node, siblings=False) if pol] if apps else []
    ctx.check(ok and len(gs) == 1 and 'isinstance(node, atomic.Worker)' in gs[0] and 'node.derived' in gs[0] and 'node.gid not in self._gids' in gs[0], 'C04.persistent', vn, f'a group id is appended once, in visiting order, only for derived workers ({gs})', vn.node, key='stateful:append')
    init = prog.func(f'{CLEAN}:Stateful.__init__')
    ctx.check('self._gids: list[uuid.UUID] = []' in core.src(init.node) or 'self._gids = []' in core.src(init.node), 'C04.persistent', init, 'the collection is an ordered list', init.node, key='stateful:list')
    gi = prog.func(f'{CLEAN}:Stateful.__getitem__')
    ctx.check('return self._gids[index]' in core.src(gi.node), 'C04.persistent', gi, 'positions are list positions', gi.node, key='stateful:getitem')
    der = prog.func(f'{ATOMIC}:Worker.derived')
    ctx.check('self.stateful and any((n.trained for n in self.group if n is not self))' in core.src(der.node), 'C04.persistent', der, 'derived = stateful with a trained sibling in the group', der.node, key='derived')
    trd = prog.func(f'{ATOMIC}:Worker.trained')
    ctx.check('isinstance(p, (port.Train, port.Label)) for p in self.input' in core.src(trd.node), 'C04.persistent', trd, 'trained = subscribed on a Train/Label port', trd.node, key='trained')


def chain(ctx) -> None:
    prog = ctx.prog
    st = prog.func(f'{ACCESS}:Instance.state')
    ctx.check('return State(self._generation, nodes, tag)' in core.src(st.node), 'C04.chain', st, 'the accessor is bound to the instance generation and gets the node list unchanged', st.node, key='Instance.state')
    init = prog.func(f'{ACCESS}:State.__init__')
    nd = next((s for s in init.body if isinstance(s, (ast.Assign, ast.AnnAssign)) and core.src(s.target if isinstance(s, ast.AnnAssign) else s.targets[0]) == 'self._nodes'), None)
    okp, why = shared.order_preserving(nd.value, 'nodes') if nd is not None else (False, 'not found')
    ctx.check(okp, 'C04.chain', init, f'the node list is kept in order ({why})', nd or init.node, key='State.nodes')
    get = prog.func(f'{MINOR}:Generation.get')
    idx = [s for s in core.walk_local(get.node) if isinstance(s, ast.Assign) and core.src(s.targets[0]) == 'key']
    ok = len(idx) == 1 and core.src(idx[0].value) == 'self.tag.states[key]' and any(core.src(t) == 'isinstance(key, int)' and pol for t, pol in cfg.guards(idx[0], get.node, siblings=False))
    ctx.check(ok, 'C04.chain', get, 'a positional key indexes the ordered state list of the tag (never a sorted listing)', idx[0] if idx else get.node, key='Generation.get:positional')
    ctx.check('return STATES(self.registry, self.project.key, self.release.key, self.key, key)' in core.src(get.node), 'C04.chain', get, 'the state is read from this very project/release/generation', get.node, key='Generation.get:read')
    k = get.param_names[1]
    shared.stmt_under(ctx, 'C04.chain', get, "return b''", [('self.tag.training', False)], 'a generation that was never trained hands out the empty state (the actor stays untrained)', 'Generation.get:untrained', inlined=False, siblings=False)
    shared.stmt_under(ctx, 'C04.chain', get, f'{k} = self.tag.states[{k}]', [(f'isinstance({k}, int)', True)], 'a position is translated through the ordered state list', 'Generation.get:index', inlined=False, siblings=False)
    rs = [r for r in core.walk_local(get.node) if isinstance(r, ast.Raise)]
    ctx.check(len(rs) == 1 and cfg.cguards(rs[0], get.node) == cfg.cg((f'{k} not in self.tag.states', True)), 'C04.chain', get, 'a state id that the tag does not list is refused', rs[0] if rs else get.node, key='Generation.get:unknown')
    sc = prog.func(f'{ACCESS}:State.commit')
    shared.stmt_under(ctx, 'C04.chain', sc, 'self._generation = self._generation.release.put((self._tag or self._generation.tag).replace(states=states))', [], 'the committed tag is the given one (else the generation\'s) with exactly the committed state ids, in order', 'State.commit:tag', siblings=False)
    si = prog.func(f'{ACCESS}:State.__init__')
    for want in ("self._generation: 'asset.Generation' = generation", "self._nodes: tuple[uuid.UUID] = tuple(nodes)", "self._tag: typing.Optional['asset.Tag'] = tag"):
        ctx.check(any(core.src(x) == want for x in si.body), 'C04.chain', si, f'State keeps `{want.split(":")[0]}` as given', si.node, key=f'State.__init__:{want.split(":")[0]}')
    C01.persistence(ctx)
    C01.port_order(ctx)  # the committer receives each dumped state at the argument position State.offset(gid) names
    C01.refusals(ctx)
    # an implicit ("latest") level key is resolved once and pinned: all state loads of one run see one generation
    lk = prog.func('forml.io.asset._directory:Level.key')
    pins = [s for s in core.walk_local(lk.node) if isinstance(s, ast.Assign) and core.src(s.targets[0]) == 'self._key' and core.src(s.value) == 'self._parent.list().last']
    okpin = len(pins) == 1 and ('self._key is None', True) in cfg.cguards(pins[0], lk.node)
    rets = [r for r in core.walk_local(lk.node) if isinstance(r, ast.Return)]
    ctx.check(okpin and bool(rets) and all(core.src(r.value) == 'self._key' for r in rets), 'C04.chain', lk, 'the lazily resolved latest key is stored on the level (pinned) and that stored key is what every access returns: a generation committed meanwhile cannot split one run over two generations', pins[0] if pins else lk.node, key='Level.key:pinned')
    from . import C05

    C05.close_order(ctx)  # a listed generation always holds all its states (no actor silently receives "no state")
    # tag order (shared with C05/C18)
    dumps = prog.func(f'{MINOR}:Tag.dumps')
    d = next((n for n in ast.walk(dumps.node) if isinstance(n, ast.Dict) and any(isinstance(k, ast.Constant) and k.value == 'states' for k in n.keys)), None)
    if d is not None:
        val = next(v for k, v in zip(d.keys, d.values) if isinstance(k, ast.Constant) and k.value == 'states')
        okp, why = shared.order_preserving(val, 'self.states')
        ctx.check(okp, 'C04.chain', dumps, f'the tag persists the states in committed order ({why})', val, key='Tag.dumps:order')
    # lifetime: groups own their forks strongly, a subscription going away un-registers only its own port
    grp = prog.cls(f'{ATOMIC}:Worker.Group')
    ctx.check('set' in grp.external_bases() and not any('Weak' in b for b in grp.external_bases()), 'C04.lifetime', grp.ref, f'a worker group holds its forks strongly (bases {grp.external_bases()}): trained members stay alive as long as any fork does', key='group:strong', loc=grp.module.relpath)
    wi = prog.func(f'{ATOMIC}:Worker.__init__')
    ctx.check('self._group.add(self)' in core.src(wi.node), 'C04.lifetime', wi, 'every fork joins its group', wi.node, key='group:add')
    fk = prog.func(f'{ATOMIC}:Worker.fork')
    ctx.check('return Worker(self._group, self.szin, self.szout)' in core.src(fk.node), 'C04.lifetime', fk, 'a fork shares the group (and so the state identity) of its origin', fk.node, key='fork')
    dl = prog.func(f'{PORT}:Subscription.__del__')
    body = [core.src(s) for s in dl.body]
    ctx.check(body == ['self._PORTS.get(self.node, {}).discard(self.port)'], 'C04.lifetime', dl, 'a dying subscription un-registers exactly its own port', dl.node, key='del')


def perftrack(ctx) -> None:
    prog = ctx.prog
    fn = prog.func(f'{STAGE}:PerfTrackScore.compose')
    exp = [s for s in fn.body if isinstance(s, (ast.Assign, ast.AnnAssign)) and core.src(s.value) == 'scope.expand()']
    if len(exp) != 1:
        ctx.fail('C04.perftrack', fn, 'scope expansion not found exactly once', fn.node, key='expand')
        return
    pv = core.src(exp[0].target if isinstance(exp[0], ast.AnnAssign) else exp[0].targets[0])
    hd = [s for s in fn.body if isinstance(s, (ast.Assign, ast.AnnAssign)) and core.src(s.value) == 'flow.Trunk()']
    hv = core.src(hd[0].target if isinstance(hd[0], ast.AnnAssign) else hd[0].targets[0]) if hd else 'head'
    stmts = [core.src(s) for s in fn.body]
    ctx.check(any(s.startswith(f'{pv}.apply.copy().subscribe({hv}.apply)') for s in stmts), 'C04.perftrack', fn, 'a copy of the pipeline apply segment is subscribed to the head apply segment (the persistent actors stay reachable from the composition apply segment)', fn.node, key='apply-copy')
    ctx.check(any(s.startswith(f'{pv}.apply.subscribe({hv}.train)') for s in stmts), 'C04.perftrack', fn, 'the pipeline apply path runs on the evaluation (train-mode) data', fn.node, key='apply-on-train')
    # keep-alive: every segment of the expanded trunk whose subscriptions define trained-ness must flow somewhere
    used = {n.attr for n in ast.walk(fn.node) if isinstance(n, ast.Attribute) and isinstance(n.value, ast.Name) and n.value.id == pv}
    whole = any(isinstance(n, ast.Name) and n.id == pv and not isinstance(core.parent(n), ast.Attribute) and isinstance(n.ctx, ast.Load) for n in ast.walk(fn.node))
    ctx.check(
        'train' in used or whole, 'C04.perftrack', fn,
        f'the train segment of the expanded pipeline (`{pv}.train`) is dropped: its head placeholder is the only holder of the first trainer\'s subscriptions, so after garbage collection that group is no longer trained, its apply fork not derived, and Composition.persistent loses/shifts positions',
        exp[0], key='train-segment-dropped',
    )
    # evaluation of a trained generation never (re)trains it: the pipeline's train and label segments are not fed, so no
    # trainer joins the executed segment (with them fed the compiler emits Loader -> Train -> Dumper -> Committer: the score
    # is computed by actors re-trained on the evaluation window and a new generation is committed as a side effect)
    fed = [core.src(s)[:70] for s in core.walk_local(fn.node) if isinstance(s, ast.Expr) and isinstance(s.value, ast.Call) and isinstance(s.value.func, ast.Attribute) and s.value.func.attr == 'subscribe' and core.src(s.value.func.value) in (f'{pv}.train', f'{pv}.label')]
    ctx.check(not fed, 'C04.perftrack', fn, f'performance tracking applies the persisted states only: the pipeline train/label segments are never subscribed ({fed})', fn.node, key='no-training')
    ret = next((r for r in core.walk_local(fn.node) if isinstance(r, ast.Return)), None)
    ctx.check(ret is not None and core.src(ret.value) == f'{hv}.use(train={hv}.train.extend(tail=value))', 'C04.perftrack', fn, 'only the train segment of the head is replaced by the scoring flow', ret or fn.node, key='return')


def loader_tolerance(ctx) -> None:
    """The loader defaults to "no state" only when there is *nothing to load yet* (MissingError: no previous generation); any
    other failure - an invalid/unknown generation, a broken registry - must surface, otherwise actors silently run untrained."""
    prog = ctx.prog
    le = prog.func('forml.flow._code.target.system:Loader.execute')
    hs = [h for h in ast.walk(le.node) if isinstance(h, ast.ExceptHandler)]
    ctx.floor('C04.loader', len(hs), 1)
    for h in hs:
        ctx.check(h.type is not None and core.src(h.type) == 'forml.MissingError', 'C04.loader', le, f'a failed state load is tolerated for MissingError only (handler: {core.src(h.type) if h.type is not None else "bare"})', h, key='Loader.execute:handler')
    tr = next((x for x in le.body if isinstance(x, ast.Try)), None)
    ctx.check(tr is not None and len(tr.body) == 1 and core.src(tr.body[0]) == 'return self._assets.load(self._key)', 'C04.loader', le, 'the loader returns the state stored under its own key', le.node, key='Loader.execute:load')
    # one fresh actor per functor instruction in the serving expression (no sharing between worker groups built from one builder)
    bd = prog.func(f'{PYFUNC}:Expression._build')
    acts = [a for a in core.walk_local(bd.node) if isinstance(a, ast.Assign) and core.src(a.targets[0]) == 'actor']
    ctx.check(len(acts) == 1 and core.src(acts[0].value) == 'builder()' and any(isinstance(x, ast.For) for x in core.ancestors(acts[0])), 'C04.loader', bd, 'pyfunc instantiates a fresh actor for every functor instruction (its state is preset per instruction)', acts[0] if acts else bd.node, key='pyfunc:fresh-actor')


def instance_identity(ctx) -> None:
    """Two asset instances are the same only if they are the same *generation*: the serving dealer keeps one executor (with
    the states loaded) per instance key - an identity that stops at the release answers a request for generation 2 from the
    executor holding generation 1's states.  ``Instance.__eq__`` / ``__hash__`` go by ``self._generation`` as a whole."""
    prog = ctx.prog
    ci = prog.cls('forml.io.asset._access:Instance')
    eq, hs = prog.func(f'{ci.ref}.__eq__'), prog.func(f'{ci.ref}.__hash__')
    rh = [r for r in core.walk_local(hs.node) if isinstance(r, ast.Return)]
    ctx.check(len(rh) == 1 and core.src(rh[0].value) == 'hash(self._generation)', 'C04.instance-identity', hs, 'hash(Instance) = hash of its generation level', rh[0] if rh else hs.node, key='instance:hash')
    re_ = [r for r in core.walk_local(eq.node) if isinstance(r, ast.Return)]
    text = core.src(re_[0].value) if len(re_) == 1 else ''
    ctx.check('other._generation == self._generation' in text or 'self._generation == other._generation' in text, 'C04.instance-identity', eq, f'Instance equality compares the generation levels themselves (`{text[:80]}`)', re_[0] if re_ else eq.node, key='instance:eq')


def run(ctx) -> None:
    instance_identity(ctx)
    # the order in which a walk meets sibling branches is what positions are derived from (persistent states, copied wiring)
    shared.r_lifo(ctx, ctx.prog.functions([m for m in ctx.prog.modules if m.startswith(('forml.flow._graph', 'forml.flow._suite', 'forml.flow._code'))]))
    from . import C08
    loader_tolerance(ctx)
    from . import C05 as _C05

    _C05.key_paths(ctx)
    _C05.r_cache(ctx)  # the generation a run commits follows the one listed *now*: no memoised listing anywhere on the way

    C08.eqhash_agreement(ctx, ('forml.io.asset',), floor=3)
    drivers(ctx)
    persistent(ctx)
    chain(ctx)
    perftrack(ctx)
    C13.bracket(ctx)
    # 'or no state': a trained but falsy state (0.0, {}, False) exported as the empty state is skipped at load - the applied
    # actor gets no state and an incremental re-train starts from None (seed C04-r11)
    C13.trained_marker(ctx)
    shared.argname_scope(ctx, ('forml.runtime._agent', 'forml.runtime._pad', 'forml.io.asset', 'forml.flow._suite', 'forml.evaluation._stage', 'forml.provider.runner'), floor=2)
