"""Statement-level control-flow graph for the statement kinds the repository uses (no ``match``).

Nodes are AST statements (plus synthetic ENTRY / EXIT / RAISE).  Compound statements are represented by their header
(the ``if``/``while`` test, the ``for`` iterator step, the ``with`` enter, the ``try`` entry).  Exceptional edges: an
explicit ``raise`` goes to the innermost matching-agnostic handler set (all handlers of the innermost enclosing
``try``; and, conservatively, also outwards) or to RAISE; every statement lexically inside a ``try`` body gets an
edge to each of its handlers (any statement may raise).  With ``call_raises=True`` every statement containing a call
additionally gets an edge to the innermost handlers or RAISE.
"""
from __future__ import annotations

import ast
import typing

import networkx as nx

from . import core

ENTRY, EXIT, RAISE = 'ENTRY', 'EXIT', 'RAISE'


class CFG:
    def __init__(self, fn: ast.AST, call_raises: bool = False):
        self.fn = fn
        self.call_raises = call_raises
        self.g = nx.DiGraph()
        self.g.add_nodes_from([ENTRY, EXIT, RAISE])
        self._ids: dict[int, ast.AST] = {}
        self._loop_stack: list[tuple[typing.Any, list]] = []  # (header, break_targets collector)
        self._try_stack: list[dict] = []
        first, outs = self._block(fn.body, [])  # type: ignore[attr-defined]
        self._normal(ENTRY, first if first is not None else EXIT)
        for o in outs:
            self._normal(o, EXIT)
        self._idom = None
        self._ipdom = None

    # ---- construction -----------------------------------------------------------------------
    def _normal(self, u, v, **attrs) -> None:
        """Add a normal-flow edge (an exceptional edge between the same nodes does not make it exceptional)."""
        self.g.add_edge(u, v, **attrs)
        self.g.edges[u, v]['exc'] = False

    def _nid(self, stmt: ast.AST):
        self._ids[id(stmt)] = stmt
        self.g.add_node(id(stmt))
        return id(stmt)

    def stmt(self, nid) -> typing.Optional[ast.AST]:
        return self._ids.get(nid)

    def node(self, stmt: ast.AST):
        if id(stmt) not in self._ids:
            raise core.AnalysisError(f'statement not in CFG: {core.stmt_key(stmt)}')
        return id(stmt)

    def has(self, stmt: ast.AST) -> bool:
        return id(stmt) in self._ids

    def _exc_targets(self) -> list:
        """Where an exception raised here may land (innermost try first; propagate outward conservatively)."""
        if not self._try_stack:
            return [RAISE]
        out = []
        for frame in reversed(self._try_stack):
            if frame['phase'] == 'body':
                out.extend(frame['handlers'])
                if frame['final'] is not None:
                    out.append(frame['final'])
                if frame['catch_all']:
                    return out
            elif frame['phase'] in ('handler', 'else'):
                if frame['final'] is not None:
                    out.append(frame['final'])
        out.append(RAISE)
        return out

    def _raise_edges(self, nid) -> None:
        for t in self._exc_targets():
            self.g.add_edge(nid, t, exc=True)

    def _block(self, body: list[ast.stmt], _unused) -> tuple[typing.Any, list]:
        """Build a sequence; returns (first node id or None, list of dangling out nodes)."""
        first = None
        outs: list = []
        started = False
        for stmt in body:
            f, o = self._stmt(stmt)
            if f is None:
                continue
            if not started:
                first = f
                started = True
            else:
                for p in outs:
                    self._normal(p, f)
            outs = o
            if not outs:
                # following statements are unreachable; still build them so lookups work
                pass
        return first, outs

    def _stmt(self, stmt: ast.stmt) -> tuple[typing.Any, list]:
        nid = self._nid(stmt)
        in_try = any(fr['phase'] == 'body' for fr in self._try_stack)
        if isinstance(stmt, ast.If):
            self._maybe_raise(nid, stmt.test, in_try)
            bf, bo = self._block(stmt.body, [])
            self._normal(nid, bf if bf is not None else nid, cond=True)
            outs = list(bo)
            if stmt.orelse:
                of, oo = self._block(stmt.orelse, [])
                self._normal(nid, of, cond=False)
                outs += oo
            else:
                outs.append(nid)
            return nid, outs
        if isinstance(stmt, (ast.While, ast.For, ast.AsyncFor)):
            self._maybe_raise(nid, stmt.test if isinstance(stmt, ast.While) else stmt.iter, in_try)
            breaks: list = []
            self._loop_stack.append((nid, breaks))
            bf, bo = self._block(stmt.body, [])
            self._loop_stack.pop()
            if bf is not None:
                self._normal(nid, bf, cond=True)
            for o in bo:
                self._normal(o, nid, back=True)
            outs = list(breaks)
            infinite = isinstance(stmt, ast.While) and core.is_const(stmt.test, True)
            if stmt.orelse:
                of, oo = self._block(stmt.orelse, [])
                if not infinite:
                    self._normal(nid, of, cond=False)
                    outs += oo
            elif not infinite:
                outs.append(nid)
            return nid, outs
        if isinstance(stmt, (ast.With, ast.AsyncWith)):
            self._maybe_raise(nid, stmt, in_try, header_only=True)
            bf, bo = self._block(stmt.body, [])
            if bf is not None:
                self._normal(nid, bf)
                return nid, bo
            return nid, [nid]
        if isinstance(stmt, ast.Try):
            return self._try(stmt, nid)
        if isinstance(stmt, ast.Return):
            self._maybe_raise(nid, stmt, in_try)
            fin = self._pending_finally()
            if fin is not None:
                for frame in reversed(self._try_stack):
                    if frame['final'] is not None and frame['phase'] != 'final':
                        frame['has_return'] = True
                        break
            self._normal(nid, fin if fin is not None else EXIT, ret=True)
            return nid, []
        if isinstance(stmt, ast.Raise):
            self._raise_edges(nid)
            return nid, []
        if isinstance(stmt, ast.Break):
            if self._loop_stack:
                self._loop_stack[-1][1].append(nid)
            return nid, []
        if isinstance(stmt, ast.Continue):
            if self._loop_stack:
                self._normal(nid, self._loop_stack[-1][0], back=True)
            return nid, []
        if isinstance(stmt, core.FUNC + (ast.ClassDef,)):
            return nid, [nid]
        if isinstance(stmt, ast.Assert):
            self._raise_edges(nid)
            return nid, [nid]
        # simple statement
        self._maybe_raise(nid, stmt, in_try)
        return nid, [nid]

    def _pending_finally(self):
        for frame in reversed(self._try_stack):
            if frame['final'] is not None and frame['phase'] != 'final':
                return frame['final']
        return None

    def _maybe_raise(self, nid, node: ast.AST, in_try: bool, header_only: bool = False) -> None:
        if in_try:
            self._raise_edges(nid)
        elif self.call_raises:
            scan = node.items if header_only and hasattr(node, 'items') else [node]  # type: ignore[attr-defined]
            if any(isinstance(n, ast.Call) for s in scan for n in ast.walk(s)):
                self._raise_edges(nid)

    def _try(self, stmt: ast.Try, nid) -> tuple[typing.Any, list]:
        handler_ids = [self._nid(h) for h in stmt.handlers]
        final_first = None
        final_outs: list = []
        frame = {
            'phase': 'final',
            'handlers': handler_ids,
            'final': None,
            'catch_all': any(
                h.type is None or core.dotted(h.type) in ('Exception', 'BaseException') for h in stmt.handlers
            ),
        }
        if stmt.finalbody:
            # build finally once (shared by normal and exceptional continuation)
            self._try_stack.append(frame)
            final_first, final_outs = self._block(stmt.finalbody, [])
            self._try_stack.pop()
        frame['final'] = final_first
        self._try_stack.append(frame)
        frame['phase'] = 'body'
        bf, bo = self._block(stmt.body, [])
        self._normal(nid, bf if bf is not None else nid)
        outs: list = []
        frame['phase'] = 'else'
        if stmt.orelse:
            ef, eo = self._block(stmt.orelse, [])
            for o in bo:
                self._normal(o, ef)
            outs += eo
        else:
            outs += bo
        frame['phase'] = 'handler'
        for h, hid in zip(stmt.handlers, handler_ids):
            hf, ho = self._block(h.body, [])
            if hf is not None:
                self._normal(hid, hf)
                outs += ho
            else:
                outs.append(hid)
        self._try_stack.pop()
        if final_first is not None:
            for o in outs:
                self._normal(o, final_first)
            # the finally block may continue normally, re-raise or complete a pending return
            for o in final_outs:
                self.g.add_edge(o, RAISE, exc=True)
                if frame.get('has_return'):  # completing a return that was pending while the finally block ran
                    self._normal(o, EXIT, ret=True)
            return nid, final_outs
        return nid, outs

    # ---- queries -------------------------------------------------------------------------------
    def normal_graph(self) -> nx.DiGraph:
        """Graph without exceptional edges."""
        h = nx.DiGraph()
        h.add_nodes_from(self.g.nodes)
        h.add_edges_from((u, v, d) for u, v, d in self.g.edges(data=True) if not d.get('exc'))
        return h

    def idom(self):
        if self._idom is None:
            self._idom = nx.immediate_dominators(self.g, ENTRY)
        return self._idom

    def dominates(self, a: ast.AST, b: ast.AST) -> bool:
        """Every path ENTRY -> b passes through a."""
        idom = self.idom()
        na, cur = self.node(a), self.node(b)
        if cur not in idom:
            return True  # b unreachable
        while True:
            if cur == na:
                return True
            nxt = idom.get(cur)
            if nxt is None or nxt == cur:
                return False
            cur = nxt

    def reaches(self, a, b, avoid: typing.Iterable = (), normal_only: bool = False, no_back: bool = False) -> bool:
        """Is there a path a -> b (node ids or statements) that avoids ``avoid``?"""
        na = a if isinstance(a, (str, int)) else self.node(a)
        nb = b if isinstance(b, (str, int)) else self.node(b)
        av = {x if isinstance(x, (str, int)) else self.node(x) for x in avoid}
        g = self.normal_graph() if normal_only else self.g
        if no_back:
            h = nx.DiGraph()
            h.add_nodes_from(g.nodes)
            h.add_edges_from((u, v) for u, v, d in g.edges(data=True) if not d.get('back'))
            g = h
        if na in av:
            return False
        seen = {na}
        stack = [na]
        first = True
        while stack:
            cur = stack.pop()
            for nxt in g.successors(cur):
                if nxt == nb:
                    return True
                if nxt in seen or nxt in av:
                    continue
                seen.add(nxt)
                stack.append(nxt)
            first = False
        return False

    def must_pass(self, a, b, via: typing.Iterable, normal_only: bool = False) -> bool:
        """Every path a -> b passes through one of ``via`` (vacuously true when b is unreachable from a)."""
        return not self.reaches(a, b, avoid=via, normal_only=normal_only)

    def path(self, a, b, avoid: typing.Iterable = (), normal_only: bool = False) -> list[str]:
        """One witness path (as statement keys) for reports."""
        na = a if isinstance(a, (str, int)) else self.node(a)
        nb = b if isinstance(b, (str, int)) else self.node(b)
        av = {x if isinstance(x, (str, int)) else self.node(x) for x in avoid}
        g = self.normal_graph() if normal_only else self.g
        h = g.subgraph([n for n in g.nodes if n not in av or n in (na, nb)])
        try:
            p = nx.shortest_path(h, na, nb)
        except (nx.NetworkXNoPath, nx.NodeNotFound):
            return []
        return [n if isinstance(n, str) else f'L{getattr(self._ids[n], "lineno", "?")}: {core.stmt_key(self._ids[n])}' for n in p]

    def statements(self) -> list[ast.AST]:
        return list(self._ids.values())


# --------------------------------------------------------------------------------------------------
# lexical guards (cheap control dependence)
# --------------------------------------------------------------------------------------------------
def _terminates(body: list[ast.stmt]) -> bool:
    if not body:
        return False
    last = body[-1]
    if isinstance(last, (ast.Return, ast.Raise, ast.Continue, ast.Break)):
        return True
    if isinstance(last, ast.If) and last.orelse:
        return _terminates(last.body) and _terminates(last.orelse)
    return False


def guards(node: ast.AST, stop: typing.Optional[ast.AST] = None, siblings: bool = True) -> list[tuple[ast.AST, bool]]:
    """Conditions known to hold when ``node`` executes: enclosing ``if``/``while`` arms (test, polarity), conditional
    expressions, and earlier sibling early-exits ``if c: return/raise/continue`` (=> not c).  ``stop``: outermost node
    (usually the function) at which the walk ends."""
    out: list[tuple[ast.AST, bool]] = []
    cur = node
    while True:
        par = core.parent(cur)
        if par is None or cur is stop:
            break
        if isinstance(par, ast.If) or isinstance(par, ast.While):
            if cur in par.body:
                out.append((par.test, True))
            elif cur in par.orelse:
                out.append((par.test, False))
        elif isinstance(par, ast.IfExp):
            if cur is par.body:
                out.append((par.test, True))
            elif cur is par.orelse:
                out.append((par.test, False))
        elif isinstance(par, ast.BoolOp) and cur in par.values:
            idx = par.values.index(cur)
            for prev in par.values[:idx]:
                out.append((prev, isinstance(par.op, ast.And)))
        elif isinstance(par, (ast.ListComp, ast.SetComp, ast.GeneratorExp, ast.DictComp)):
            for gen in par.generators:
                for cond in gen.ifs:
                    if cur is not cond and not any(cur is x for x in ast.walk(gen)):
                        out.append((cond, True))
        # earlier siblings that exit early
        for field in ('body', 'orelse', 'finalbody') if siblings else ():
            seq = getattr(par, field, None)
            if isinstance(seq, list) and cur in seq:
                for prev in seq[: seq.index(cur)]:
                    if isinstance(prev, ast.If) and _terminates(prev.body) and not prev.orelse:
                        out.append((prev.test, False))
                    elif isinstance(prev, ast.If) and prev.orelse and _terminates(prev.orelse) and not _terminates(prev.body):
                        out.append((prev.test, True))
                    elif isinstance(prev, ast.Assert):
                        out.append((prev.test, True))
        if isinstance(par, core.FUNC):
            break
        cur = par
    return out


# --------------------------------------------------------------------------------------------------
# path counting (R-EXACTLY-ONE)
# --------------------------------------------------------------------------------------------------
def header_exprs(stmt: ast.AST) -> list[ast.AST]:
    """The expressions evaluated by the CFG node of ``stmt`` itself (bodies of compound statements are own nodes)."""
    if isinstance(stmt, (ast.If, ast.While)):
        return [stmt.test]
    if isinstance(stmt, (ast.For, ast.AsyncFor)):
        return [stmt.iter]
    if isinstance(stmt, (ast.With, ast.AsyncWith)):
        return [i.context_expr for i in stmt.items]
    if isinstance(stmt, (ast.Try, ast.ExceptHandler)) or isinstance(stmt, core.FUNC + (ast.ClassDef,)):
        return []
    return [stmt]


def header_calls(stmt: ast.AST) -> list[ast.Call]:
    out = []
    for e in header_exprs(stmt):
        for n in ast.walk(e):
            if isinstance(n, ast.Call):
                out.append(n)
    return out


def count_events(graph: 'CFG', start, end, weight: typing.Callable[[ast.AST], int], normal_only: bool = True,
                 region: typing.Optional[set] = None, exc_weight_zero: bool = True) -> typing.Optional[tuple[int, int]]:
    """(min, max) number of events over all paths start -> end, ignoring loop back edges (each loop body is counted
    once per entry); None when ``end`` is unreachable.  ``weight(stmt)`` = events performed by that CFG node.
    ``start``'s own weight is included, ``end``'s is not (unless end is a statement and start == end)."""
    na = start if isinstance(start, (str, int)) else graph.node(start)
    nb = end if isinstance(end, (str, int)) else graph.node(end)
    g = nx.DiGraph()
    for u, v, d in graph.g.edges(data=True):
        if d.get('back') or (normal_only and d.get('exc')):
            continue
        if region is not None and (u not in region or (v not in region and v != nb)):
            continue
        g.add_edge(u, v, exc=bool(d.get('exc')))
    if na not in g or nb not in g:
        return None
    try:
        order = list(nx.topological_sort(g))
    except nx.NetworkXUnfeasible as err:  # pragma: no cover - would need irreducible flow
        raise core.AnalysisError('control flow not reducible to a DAG after removing back edges') from err
    best: dict = {na: (0, 0)}
    for n in order:
        if n not in best:
            continue
        lo, hi = best[n]
        w = 0
        if n != nb:
            st = graph.stmt(n)
            w = weight(st) if st is not None else 0
        for s in g.successors(n):
            # a statement left through an exceptional edge did not complete: its own events are not counted
            ww = 0 if (exc_weight_zero and g.edges[n, s].get('exc')) else w
            cand = (lo + ww, hi + ww)
            if s in best:
                best[s] = (min(best[s][0], cand[0]), max(best[s][1], cand[1]))
            else:
                best[s] = cand
    return best.get(nb)


_POSITIVE = {ast.NotIn: ast.In, ast.IsNot: ast.Is, ast.NotEq: ast.Eq}


def _nnf(test: ast.AST, pol: bool) -> ast.AST:
    """Negation normal form of ``test`` (``pol`` True) or of ``not test`` (False): ``not`` pushed through and/or (De Morgan)
    and folded into ``in``/``is``/``==``; literals are rendered positive or as ``not <positive>``."""
    import copy

    if isinstance(test, ast.UnaryOp) and isinstance(test.op, ast.Not):
        return _nnf(test.operand, not pol)
    if isinstance(test, ast.Call) and isinstance(test.func, ast.Name) and test.func.id == 'bool' and len(test.args) == 1 and not test.keywords and not isinstance(test.args[0], ast.Starred):
        return _nnf(test.args[0], pol)
    if isinstance(test, ast.BoolOp):
        op = test.op if pol else (ast.Or() if isinstance(test.op, ast.And) else ast.And())
        values = []
        for v in test.values:
            w = _nnf(v, pol)
            if isinstance(w, ast.BoolOp) and type(w.op) is type(op):
                values.extend(w.values)
            else:
                values.append(w)
        return ast.BoolOp(op=op, values=values)
    if isinstance(test, ast.Compare) and len(test.ops) == 1 and type(test.ops[0]) in _POSITIVE:
        pos = copy.copy(test)
        pos.ops = [_POSITIVE[type(test.ops[0])]()]
        return _nnf(pos, not pol)
    return test if pol else ast.UnaryOp(op=ast.Not(), operand=test)


def canon_guard(test: ast.AST, pol: bool) -> list[tuple[str, bool]]:
    """Canonical conjuncts of one guard: NNF, a top-level conjunction split into its members, each literal as
    (positive text, polarity)."""
    e = _nnf(test, pol)
    out = []
    for v in e.values if isinstance(e, ast.BoolOp) and isinstance(e.op, ast.And) else [e]:
        if isinstance(v, ast.UnaryOp) and isinstance(v.op, ast.Not):
            out.append((core.src(ast.fix_missing_locations(v.operand)), False))
        else:
            out.append((core.src(ast.fix_missing_locations(v)), True))
    return out


def cg(*want: tuple[str, bool]) -> list[tuple[str, bool]]:
    """Canonicalise guards written as (source text, polarity) - for comparison with ``cguards`` results."""
    out = []
    for text, pol in want:
        out.extend(canon_guard(ast.parse(text, mode='eval').body, pol))
    return sorted(set(out))


def cguards(node: ast.AST, stop: typing.Optional[ast.AST] = None, siblings: bool = False) -> list[tuple[str, bool]]:
    """Canonical guards: like ``guards`` but each condition is brought into negation normal form and returned as its
    conjuncts (text, polarity), so that ``if not c`` / ``if c: ... else``, De Morgan duals, ``not a in b`` / ``a not in b``,
    nested ``if a: if b:`` / ``if a and b:`` differ in nothing."""
    out = []
    for test, pol in guards(node, stop, siblings=siblings):
        for g in canon_guard(test, pol):
            if g not in out:
                out.append(g)
    return out
