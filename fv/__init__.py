"""fv - static verification engine for formlio/forml (stdlib ast + networkx). See /verif/DESIGN.md."""
