"""Callee resolution and argument binding (the static call graph is built from these resolutions)."""
from __future__ import annotations

import ast
import typing

from . import core, types


class Callee:
    def __init__(self, kind: str, ref: str, params: list[str], node: typing.Optional[ast.AST], func: typing.Optional[core.FuncInfo]):
        self.kind = kind  # 'function' | 'method' | 'constructor' | 'namedtuple'
        self.ref = ref
        self.params = params  # parameter names the call's arguments bind to (self/cls removed)
        self.node = node
        self.func = func
        self.vararg: typing.Optional[str] = None
        self.kwarg: typing.Optional[str] = None

    def __repr__(self) -> str:
        return f'<callee {self.kind} {self.ref}({", ".join(self.params)})>'


def _fn_params(node: ast.AST, drop_first: bool) -> tuple[list[str], typing.Optional[str], typing.Optional[str]]:
    a = node.args  # type: ignore[attr-defined]
    names = [p.arg for p in list(a.posonlyargs) + list(a.args)]
    if drop_first and names:
        names = names[1:]
    names += [p.arg for p in a.kwonlyargs]
    return names, (a.vararg.arg if a.vararg else None), (a.kwarg.arg if a.kwarg else None)


def namedtuple_fields(ci: core.ClassInfo) -> typing.Optional[list[str]]:
    """Field order of a NamedTuple / collections.namedtuple based class (None when not one)."""
    for c in ci.mro_classes():
        for b in c.node.bases:
            if isinstance(b, ast.Call) and (core.call_name(b) or '').endswith('namedtuple') and len(b.args) >= 2:
                spec = b.args[1]
                if isinstance(spec, ast.Constant) and isinstance(spec.value, str):
                    return [f for f in spec.value.replace(',', ' ').split()]
                if isinstance(spec, (ast.List, ast.Tuple)):
                    return [e.value for e in spec.elts if isinstance(e, ast.Constant)]
            name = core.dotted(b)
            if name and name.split('.')[-1] == 'NamedTuple':
                return [
                    s.target.id
                    for s in c.node.body
                    if isinstance(s, ast.AnnAssign) and isinstance(s.target, ast.Name)
                ]
    return None


class Resolver:
    def __init__(self, prog: core.Program, tenv: typing.Optional[types.TypeEnv] = None):
        self.prog = prog
        self.tenv = tenv or types.TypeEnv(prog)

    def constructor(self, ci: core.ClassInfo) -> typing.Optional[Callee]:
        for name in ('__new__', '__init__'):
            found = ci.lookup(name)
            if found and isinstance(found[1], core.FUNC):
                owner, node = found
                params, va, kw = _fn_params(node, drop_first=True)
                c = Callee('constructor', f'{owner.ref}.{name}', params, node, self.prog.func(f'{owner.ref}.{name}'))
                c.vararg, c.kwarg = va, kw
                c.cls = ci  # type: ignore[attr-defined]
                return c
        fields = namedtuple_fields(ci)
        if fields is not None:
            c = Callee('namedtuple', ci.ref, fields, ci.node, None)
            c.cls = ci  # type: ignore[attr-defined]
            return c
        return None

    def _from_func(self, fi: core.FuncInfo, bound: bool) -> Callee:
        decos = core.decorator_names(fi.node)
        is_method = fi.cls is not None and fi.qual.rsplit('.', 1)[0] == fi.cls.qual
        drop = False
        if is_method:
            if 'staticmethod' in decos:
                drop = False
            elif 'classmethod' in decos:
                drop = True
            else:
                drop = bound
        params, va, kw = _fn_params(fi.node, drop_first=drop)
        c = Callee('method' if is_method else 'function', fi.ref, params, fi.node, fi)
        c.vararg, c.kwarg = va, kw
        return c

    def resolve(self, fn: core.FuncInfo, call: ast.Call) -> typing.Optional[Callee]:
        tgt = call.func
        # super().m(...)
        if isinstance(tgt, ast.Attribute) and isinstance(tgt.value, ast.Call) and core.call_name(tgt.value) == 'super':
            cls = fn.cls
            if cls is not None:
                # resolve against the defining class's own MRO (sound for the class itself)
                found = cls.lookup_after(cls, tgt.attr)
                if found and isinstance(found[1], core.FUNC):
                    owner, _ = found
                    return self._from_func(self.prog.func(f'{owner.ref}.{tgt.attr}'), bound=True)
            return None
        if isinstance(tgt, ast.Attribute):
            base_t = self.tenv.expr_type(fn, tgt.value)
            if base_t is not None:
                at = self.tenv.attr_type(base_t, tgt.attr)
                if at and at[0] == 'method':
                    fi = self.prog.func(f'{at[1]}.{at[2]}')
                    bound = types.strip_opt(base_t)[0] == 'cls' or 'classmethod' in core.decorator_names(fi.node)
                    return self._from_func(fi, bound=bound)
                if at and at[0] == 'type' and at[1] in self.prog.classes:
                    return self.constructor(self.prog.classes[at[1]])
        res = self.prog.resolve_expr(fn, tgt)
        if isinstance(res, core.ClassInfo):
            return self.constructor(res)
        if isinstance(res, core.FuncInfo):
            # Class.method(...) accessed through the class: classmethods are bound, plain methods are not
            return self._from_func(res, bound=False)
        if isinstance(tgt, ast.Name):
            t = self.tenv.expr_type(fn, tgt)
            if t and t[0] == 'type' and t[1] in self.prog.classes:
                return self.constructor(self.prog.classes[t[1]])
            # local closure
            inner = f'{fn.ref}.{tgt.id}'
            if self.prog.has_func(inner):
                return self._from_func(self.prog.func(inner), bound=False)
            outer = fn.ref.rsplit('.', 1)[0] + f'.{tgt.id}'
            if self.prog.has_func(outer):
                return self._from_func(self.prog.func(outer), bound=False)
        return None

    @staticmethod
    def bind(callee: Callee, call: ast.Call) -> dict[str, ast.AST]:
        """Map parameter name -> argument expression (Starred / ** stop positional binding)."""
        out: dict[str, ast.AST] = {}
        for i, a in enumerate(call.args):
            if isinstance(a, ast.Starred):
                break
            if i < len(callee.params):
                out[callee.params[i]] = a
        for kw in call.keywords:
            if kw.arg is not None and (kw.arg in callee.params or callee.kwarg):
                out[kw.arg] = kw.value
        return out
