"""Source model: loader, symbol/import resolution, class table with static C3 MRO.

Nothing from /repo is imported or executed: every fact comes from ``ast.parse`` of the working tree.
"""
from __future__ import annotations

import ast
import json
import hashlib
import os
import typing


class AnalysisError(Exception):
    """The analysis cannot decide (anchor vanished, unparsable file, floor not reached): exit 2."""


# --------------------------------------------------------------------------------------------------
# small AST utilities
# --------------------------------------------------------------------------------------------------
FUNC = (ast.FunctionDef, ast.AsyncFunctionDef)


def attr_chain(node: ast.AST) -> typing.Optional[list[str]]:
    """``a.b.c`` -> ['a','b','c']; anything else -> None. Calls/subscripts in the chain are not followed."""
    parts: list[str] = []
    while isinstance(node, ast.Attribute):
        parts.append(node.attr)
        node = node.value
    if isinstance(node, ast.Name):
        parts.append(node.id)
        return parts[::-1]
    return None


def dotted(node: ast.AST) -> typing.Optional[str]:
    chain = attr_chain(node)
    return '.'.join(chain) if chain else None


def call_name(call: ast.Call) -> typing.Optional[str]:
    return dotted(call.func)


def call_tail(call: ast.Call) -> str:
    """Last identifier of the callee expression (``super().m()`` -> 'm', ``a.b.c()`` -> 'c', ``f()`` -> 'f')."""
    f = call.func
    if isinstance(f, ast.Attribute):
        return f.attr
    if isinstance(f, ast.Name):
        return f.id
    return ''


def src(node: typing.Optional[ast.AST]) -> str:
    """Normalised source text of a node (ast.unparse: insensitive to layout, quotes, parentheses)."""
    if node is None:
        return ''
    try:
        return ast.unparse(node)
    except Exception:  # pragma: no cover
        return ast.dump(node)


def stmt_key(node: ast.AST) -> str:
    """Finding key text: first line of the normalised statement (docstrings/line numbers play no role)."""
    text = src(node).strip().split('\n')[0]
    return text[:160]


def walk_local(node: ast.AST, include_lambdas: bool = True) -> typing.Iterable[ast.AST]:
    """Walk the body of a function/class without descending into nested defs (and optionally lambdas).
    The (immutable) result is memoised on the node."""
    attr = '_wl' if include_lambdas else '_wl0'
    cached = getattr(node, attr, None)
    if cached is not None:
        return cached
    out = []
    stack = list(ast.iter_child_nodes(node))[::-1]
    while stack:
        cur = stack.pop()
        out.append(cur)
        if isinstance(cur, FUNC + (ast.ClassDef,)):
            continue
        if isinstance(cur, ast.Lambda) and not include_lambdas:
            continue
        stack.extend(list(ast.iter_child_nodes(cur))[::-1])
    try:
        setattr(node, attr, out)
    except AttributeError:
        pass
    return out


def walk_deep(node: ast.AST) -> typing.Iterator[ast.AST]:
    """Walk including nested function bodies (closures), excluding nested classes."""
    stack = list(ast.iter_child_nodes(node))[::-1]
    while stack:
        cur = stack.pop()
        yield cur
        if isinstance(cur, ast.ClassDef):
            continue
        stack.extend(list(ast.iter_child_nodes(cur))[::-1])


def set_parents(tree: ast.AST) -> None:
    for parent in ast.walk(tree):
        for child in ast.iter_child_nodes(parent):
            child._parent = parent  # type: ignore[attr-defined]


def parent(node: ast.AST) -> typing.Optional[ast.AST]:
    return getattr(node, '_parent', None)


def ancestors(node: ast.AST) -> typing.Iterator[ast.AST]:
    cur = parent(node)
    while cur is not None:
        yield cur
        cur = parent(cur)


def enclosing_stmt(node: ast.AST) -> ast.AST:
    cur = node
    while not isinstance(cur, ast.stmt) and parent(cur) is not None:
        cur = parent(cur)
    return cur


def names_in(node: ast.AST) -> set[str]:
    return {n.id for n in ast.walk(node) if isinstance(n, ast.Name)}


def calls_in(node: ast.AST, deep: bool = False) -> list[ast.Call]:
    it = walk_deep(node) if deep else walk_local(node)
    return [n for n in it if isinstance(n, ast.Call)]


def is_const(node: ast.AST, value: typing.Any = ...) -> bool:
    return isinstance(node, ast.Constant) and (value is ... or (node.value == value and type(node.value) is type(value)))


def decorator_names(fn: ast.AST) -> list[str]:
    out = []
    for d in getattr(fn, 'decorator_list', []):
        tgt = d.func if isinstance(d, ast.Call) else d
        out.append(dotted(tgt) or src(tgt))
    return out


# --------------------------------------------------------------------------------------------------
# temporaries
# --------------------------------------------------------------------------------------------------
def inline_temporaries(fn_node: ast.AST, rounds: int = 4, only: typing.Optional[set] = None) -> ast.AST:
    """Copy of a function in which single-assignment local temporaries (``x = <expr>`` with x bound exactly once, not a
    parameter, loop/with/except/comprehension target or augmented) are substituted into their uses and the assignment
    removed.  Used so that "introduce a temporary" refactorings do not change what a rule sees; line numbers survive."""
    import copy

    node = copy.deepcopy(fn_node)
    for _ in range(rounds):
        params = {a.arg for a in list(node.args.posonlyargs) + list(node.args.args) + list(node.args.kwonlyargs)}
        if node.args.vararg:
            params.add(node.args.vararg.arg)
        if node.args.kwarg:
            params.add(node.args.kwarg.arg)
        bound: dict[str, int] = {}
        simple: dict[str, ast.Assign] = {}
        for n in ast.walk(node):
            if n is node:
                continue
            if isinstance(n, FUNC + (ast.Lambda,)):
                for a in ast.walk(n.args):
                    if isinstance(a, ast.arg):
                        bound[a.arg] = bound.get(a.arg, 0) + 2
            if isinstance(n, ast.Name) and isinstance(n.ctx, (ast.Store, ast.Del)):
                bound[n.id] = bound.get(n.id, 0) + 1
            if isinstance(n, (ast.Global, ast.Nonlocal)):
                for x in n.names:
                    bound[x] = bound.get(x, 0) + 2
        for st in ast.walk(node):
            if isinstance(st, ast.Assign) and len(st.targets) == 1 and isinstance(st.targets[0], ast.Name):
                simple[st.targets[0].id] = st
            elif isinstance(st, ast.AnnAssign) and isinstance(st.target, ast.Name) and st.value is not None:
                simple[st.target.id] = st
        cands = {}
        for name, st in simple.items():
            if bound.get(name, 0) != 1 or name in params or (only is not None and name not in only):
                continue
            val = st.value
            # the value must not depend on names that are re-bound later (keep it simple: all its names bound <= 1 time)
            if any(bound.get(x.id, 0) > 1 for x in ast.walk(val) if isinstance(x, ast.Name)):
                continue
            if any(isinstance(x, (ast.Yield, ast.YieldFrom, ast.Await, ast.NamedExpr)) for x in ast.walk(val)):
                continue
            cands[name] = st
        # substitute leaves first: a candidate whose value mentions another candidate waits for the next round
        leaves = {n: st for n, st in cands.items() if not any(isinstance(x, ast.Name) and x.id in cands and x.id != n for x in ast.walk(st.value))}
        cands = leaves or {}
        if not cands:
            break

        class Sub(ast.NodeTransformer):
            def visit_Name(self, n):  # noqa: N802
                if isinstance(n.ctx, ast.Load) and n.id in cands:
                    return copy.deepcopy(cands[n.id].value)
                return n

            def generic_visit(self, n):
                for field in ('body', 'orelse', 'finalbody'):
                    seq = getattr(n, field, None)
                    if isinstance(seq, list):
                        kept = [s for s in seq if not any(s is c for c in cands.values())]
                        if not kept and seq and isinstance(seq[0], ast.stmt):
                            kept = [ast.copy_location(ast.Pass(), seq[0])]
                        setattr(n, field, kept)
                return super().generic_visit(n)

        node = Sub().visit(node)
        ast.fix_missing_locations(node)
    set_parents(node)
    return node


# --------------------------------------------------------------------------------------------------
# alpha-normalisation of locals (refactoring tolerance)
# --------------------------------------------------------------------------------------------------
_PINNED: typing.Optional[dict] = None


def pinned_locals() -> dict:
    """{module:qualname -> local names in binding order} of the tree the rules were written against (fv/pinned_locals.json,
    generated by tools/mkpinned.py).  It only informs the *renaming* below; what is analysed is always the current source."""
    global _PINNED
    if _PINNED is None:
        path = os.path.join(os.path.dirname(os.path.abspath(__file__)), 'pinned_locals.json')
        try:
            with open(path, encoding='utf-8') as fh:
                _PINNED = json.load(fh)
        except OSError:
            _PINNED = {}
    return _PINNED


def _fn_params(fn: ast.AST) -> set:
    a = fn.args
    out = {x.arg for x in list(a.posonlyargs) + list(a.args) + list(a.kwonlyargs)}
    if a.vararg:
        out.add(a.vararg.arg)
    if a.kwarg:
        out.add(a.kwarg.arg)
    return out


def own_locals(fn: ast.AST) -> list:
    """Names bound inside ``fn`` (not in nested functions/classes/lambdas), in order of their first binding in the source;
    parameters and global/nonlocal names excluded; comprehension variables included."""
    params = _fn_params(fn)
    order: list = []
    blocked: set = set()

    def visit(n: ast.AST) -> None:
        for child in ast.iter_child_nodes(n):
            if isinstance(child, FUNC + (ast.ClassDef, ast.Lambda)):
                if isinstance(child, FUNC + (ast.ClassDef,)) and child.name not in order:
                    order.append(child.name)
                continue
            if isinstance(child, (ast.Global, ast.Nonlocal)):
                blocked.update(child.names)
            if isinstance(child, ast.Name) and isinstance(child.ctx, ast.Store) and child.id not in order:
                order.append(child.id)
            if isinstance(child, ast.ExceptHandler) and child.name and child.name not in order:
                order.append(child.name)
            visit(child)

    # ast.iter_child_nodes follows field order == source order for statements; assignment targets precede values in the
    # field order, which is irrelevant for *first binding* purposes
    visit(fn)
    return [n for n in order if n not in params and n not in blocked]


def _rename_local(fn: ast.AST, old: str, new: str) -> None:
    """Rename the local ``old`` of ``fn`` to ``new`` everywhere it denotes that variable (nested scopes that re-bind the
    name are left alone)."""

    def rebinds(scope: ast.AST) -> bool:
        if isinstance(scope, ast.ClassDef):
            return False
        if old in _fn_params(scope):
            return True
        if isinstance(scope, ast.Lambda):
            return False
        return old in own_locals(scope)

    def visit(n: ast.AST) -> None:
        for child in ast.iter_child_nodes(n):
            if isinstance(child, FUNC + (ast.Lambda,)) and rebinds(child):
                # default values / decorators are evaluated in the enclosing scope
                for d in list(child.args.defaults) + [k for k in child.args.kw_defaults if k is not None]:
                    visit_expr(d)
                continue
            if isinstance(child, ast.Name) and child.id == old:
                child.id = new
            elif isinstance(child, ast.ExceptHandler) and child.name == old:
                child.name = new
            elif isinstance(child, FUNC + (ast.ClassDef,)) and child.name == old:
                child.name = new
            visit(child)

    def visit_expr(e: ast.AST) -> None:
        if isinstance(e, ast.Name) and e.id == old:
            e.id = new
        visit(e)

    visit(fn)


def normalise_function(fn: ast.AST, pinned: list) -> None:
    """Make a harmless refactoring invisible: locals that the pinned version of this function does not know are (1) inlined
    when they are plain single-assignment temporaries, (2) renamed to the pinned names that went missing, in binding order.
    Anything else (different number of locals, name capture) leaves the function as it is."""
    cur = own_locals(fn)
    new = [n for n in cur if n not in pinned]
    if not new:
        return
    fold_return_temporaries(fn, set(pinned))
    cur = own_locals(fn)
    new = [n for n in cur if n not in pinned]
    if not new:
        return
    missing = [n for n in pinned if n not in cur]
    if len(new) > len(missing):
        inl = inline_temporaries(fn, only=set(new))
        fn.body = inl.body
        cur = own_locals(fn)
        new = [n for n in cur if n not in pinned]
        missing = [n for n in pinned if n not in cur]
    if new and len(new) == len(missing):
        used = {x.id for x in ast.walk(fn) if isinstance(x, ast.Name)} | _fn_params(fn)
        if not any(m in used for m in missing):
            for a, b in zip(new, missing):
                _rename_local(fn, a, b)


def canonical_ifs(tree: ast.AST) -> bool:
    """``if not c: A else: B`` -> ``if c: B else: A`` (both arms present, no elif chain): one spelling for both orders."""
    changed = False
    for n in ast.walk(tree):
        if isinstance(n, ast.If) and n.orelse and isinstance(n.test, ast.UnaryOp) and isinstance(n.test.op, ast.Not) and not (len(n.orelse) == 1 and isinstance(n.orelse[0], ast.If)) and not (len(n.body) == 1 and isinstance(n.body[0], ast.If)):
            n.test = n.test.operand
            n.body, n.orelse = n.orelse, n.body
            changed = True
    return changed


def fold_return_temporaries(fn: ast.AST, keep: set) -> None:
    """``x = E`` immediately followed by ``return x`` (x not a known local) -> ``return E``."""
    for n in ast.walk(fn):
        for field in ('body', 'orelse', 'finalbody'):
            seq = getattr(n, field, None)
            if not isinstance(seq, list):
                continue
            i = 0
            while i + 1 < len(seq):
                a, b = seq[i], seq[i + 1]
                if isinstance(a, ast.Assign) and len(a.targets) == 1 and isinstance(a.targets[0], ast.Name) and a.targets[0].id not in keep and isinstance(b, ast.Return) and isinstance(b.value, ast.Name) and b.value.id == a.targets[0].id:
                    name = a.targets[0].id
                    others = sum(1 for x in ast.walk(fn) if isinstance(x, ast.Name) and x.id == name)
                    if others == 2:
                        seq[i:i + 2] = [ast.copy_location(ast.Return(value=a.value), b)]
                        continue
                i += 1


def _is_noop(st: ast.AST) -> bool:
    """``pass`` and diagnostic logging calls (``LOGGER.debug(...)`` ...): nothing a property of this code base depends on."""
    if isinstance(st, ast.Pass):
        return True
    if isinstance(st, ast.Expr) and isinstance(st.value, ast.Call):
        name = dotted(st.value.func) or ''
        return name.startswith('LOGGER.') and name.split('.')[-1] in ('debug', 'info', 'warning', 'error', 'critical', 'exception', 'log')
    return False


def strip_noops(tree: ast.AST) -> bool:
    changed = False
    for n in ast.walk(tree):
        for field in ('body', 'orelse', 'finalbody'):
            seq = getattr(n, field, None)
            if isinstance(seq, list) and seq and isinstance(seq[0], ast.stmt) and any(_is_noop(x) for x in seq):
                kept = [x for x in seq if not _is_noop(x)]
                if not kept and field == 'body':
                    kept = [ast.copy_location(ast.Pass(), seq[0])]
                if kept != seq and not (len(seq) == 1 and isinstance(seq[0], ast.Pass)):
                    setattr(n, field, kept)
                    changed = True
    return changed


# --------------------------------------------------------------------------------------------------
# modules
# --------------------------------------------------------------------------------------------------
class Module:
    def __init__(self, name: str, path: str, relpath: str, is_pkg: bool, source: str):
        self.name = name
        self.path = path
        self.relpath = relpath
        self.is_pkg = is_pkg
        self.source = source
        try:
            self.tree = ast.parse(source, filename=path)
        except SyntaxError as err:
            raise AnalysisError(f'unparsable file {relpath}: {err}') from err
        set_parents(self.tree)
        self.imports: dict[str, str] = {}
        self.defs: dict[str, ast.AST] = {}  # qualname -> ClassDef/FunctionDef (nested included)
        self.assigns: dict[str, ast.AST] = {}  # top-level NAME = value
        self._index()
        if not os.environ.get('FV_NO_NORMALISE'):
            self._normalise()

    def _normalise(self) -> None:
        """Refactoring tolerance (DESIGN 2.12): no-op statements dropped, unknown temporaries inlined, renamed locals mapped
        back to the names the rules were written with.  Outer functions first (their renames reach free references of the
        nested ones)."""
        pinned = pinned_locals()
        changed = False
        if strip_noops(self.tree):
            changed = True
        if canonical_ifs(self.tree):
            changed = True
        for qual in sorted(self.defs, key=lambda q: q.count('.')):
            node = self.defs[qual]
            if not isinstance(node, FUNC):
                continue
            want = pinned.get(f'{self.name}:{qual}')
            if want is None:
                continue
            before = ast.dump(node)
            normalise_function(node, want)
            changed = changed or ast.dump(node) != before
        if changed:
            ast.fix_missing_locations(self.tree)
            set_parents(self.tree)
            self.defs.clear()
            self.assigns.clear()
            self._index()

    @property
    def package(self) -> str:
        return self.name if self.is_pkg else self.name.rpartition('.')[0]

    def _abs(self, module: typing.Optional[str], level: int) -> str:
        if not level:
            return module or ''
        base = self.package.split('.')
        if level > 1:
            base = base[: len(base) - (level - 1)]
        return '.'.join(base + ([module] if module else []))

    def record_imports(self, body_owner: ast.AST, table: dict[str, str], local_only: bool) -> None:
        it = walk_local(body_owner) if local_only else ast.walk(body_owner)
        for node in it:
            if isinstance(node, ast.Import):
                for alias in node.names:
                    if alias.asname:
                        table[alias.asname] = alias.name
                    else:
                        table[alias.name.split('.')[0]] = alias.name.split('.')[0]
            elif isinstance(node, ast.ImportFrom):
                base = self._abs(node.module, node.level)
                for alias in node.names:
                    if alias.name == '*':
                        continue
                    table[alias.asname or alias.name] = f'{base}.{alias.name}' if base else alias.name

    def _index(self) -> None:
        # module level imports (including ones under ``if typing.TYPE_CHECKING`` / try blocks)
        self.record_imports(self.tree, self.imports, local_only=True)

        def visit(body: list[ast.stmt], prefix: str, toplevel: bool) -> None:
            for stmt in body:
                if isinstance(stmt, FUNC + (ast.ClassDef,)):
                    qual = f'{prefix}{stmt.name}'
                    # keep the first definition unless overloaded by property setter etc.
                    if qual not in self.defs or not _is_overload_stub(stmt):
                        if qual in self.defs and _is_setter(stmt):
                            pass
                        else:
                            self.defs[qual] = stmt
                    stmt._qual = qual  # type: ignore[attr-defined]
                    stmt._module = self  # type: ignore[attr-defined]
                    visit(stmt.body, qual + '.', False)
                elif isinstance(stmt, (ast.If, ast.Try, ast.With, ast.For, ast.While)):
                    for attr in ('body', 'orelse', 'finalbody'):
                        visit(getattr(stmt, attr, []) or [], prefix, toplevel)
                    for h in getattr(stmt, 'handlers', []) or []:
                        visit(h.body, prefix, toplevel)
                elif toplevel and isinstance(stmt, ast.Assign):
                    for t in stmt.targets:
                        if isinstance(t, ast.Name):
                            self.assigns[t.id] = stmt.value
                elif toplevel and isinstance(stmt, ast.AnnAssign) and isinstance(stmt.target, ast.Name) and stmt.value:
                    self.assigns[stmt.target.id] = stmt.value

        visit(self.tree.body, '', True)


def _is_overload_stub(fn: ast.AST) -> bool:
    return any(d.endswith('overload') for d in decorator_names(fn))


def _is_setter(fn: ast.AST) -> bool:
    return any(d.endswith('.setter') or d.endswith('.deleter') for d in decorator_names(fn))


# --------------------------------------------------------------------------------------------------
# classes / functions
# --------------------------------------------------------------------------------------------------
class ClassInfo:
    def __init__(self, prog: 'Program', module: Module, qual: str, node: ast.ClassDef):
        self.prog = prog
        self.module = module
        self.qual = qual
        self.node = node
        self.name = node.name
        self.ref = f'{module.name}:{qual}'
        self.methods: dict[str, ast.AST] = {}
        self.all_defs: dict[str, list[ast.AST]] = {}
        self.assigns: dict[str, ast.AST] = {}
        self.annotations: dict[str, ast.AST] = {}
        self.nested: dict[str, str] = {}
        for stmt in node.body:
            if isinstance(stmt, FUNC):
                self.all_defs.setdefault(stmt.name, []).append(stmt)
                if stmt.name in self.methods and _is_setter(stmt):
                    continue
                self.methods[stmt.name] = stmt
            elif isinstance(stmt, ast.ClassDef):
                self.nested[stmt.name] = f'{module.name}:{qual}.{stmt.name}'
            elif isinstance(stmt, ast.Assign):
                for t in stmt.targets:
                    if isinstance(t, ast.Name):
                        self.assigns[t.id] = stmt.value
                    elif isinstance(t, ast.Tuple):
                        for e in t.elts:
                            if isinstance(e, ast.Name):
                                self.assigns[e.id] = stmt.value
            elif isinstance(stmt, ast.AnnAssign) and isinstance(stmt.target, ast.Name):
                self.annotations[stmt.target.id] = stmt.annotation
                if stmt.value is not None:
                    self.assigns[stmt.target.id] = stmt.value
        self._bases: typing.Optional[list] = None
        self._mro: typing.Optional[list] = None

    def __repr__(self) -> str:
        return f'<class {self.ref}>'

    @property
    def bases(self) -> list:
        """Resolved bases: ClassInfo for in-repo classes, str for external ones."""
        if self._bases is None:
            out = []
            for b in self.node.bases:
                tgt = b
                while isinstance(tgt, ast.Subscript):  # typing.Generic[...] / Mapping[K, V]
                    tgt = tgt.value
                if isinstance(tgt, ast.Call):  # collections.namedtuple(...)
                    out.append(dotted(tgt.func) or src(tgt.func))
                    continue
                name = dotted(tgt)
                if name is None:
                    out.append(src(tgt))
                    continue
                res = self.prog.resolve(self.module, name, scope=self.qual)
                out.append(res if isinstance(res, ClassInfo) else (res if isinstance(res, str) else name))
            self._bases = out
        return self._bases

    @property
    def metaclass(self) -> typing.Optional[str]:
        for kw in self.node.keywords:
            if kw.arg == 'metaclass':
                return dotted(kw.value) or src(kw.value)
        return None

    def mro(self) -> list:
        """Static C3 linearisation (external bases are opaque leaves)."""
        if self._mro is None:
            self._mro = _c3(self, set())
        return self._mro

    def mro_classes(self) -> list['ClassInfo']:
        return [c for c in self.mro() if isinstance(c, ClassInfo)]

    def external_bases(self) -> list[str]:
        return [c for c in self.mro() if isinstance(c, str)]

    def lookup(self, name: str) -> typing.Optional[tuple['ClassInfo', ast.AST]]:
        """Resolve attribute ``name`` through the MRO to (owner, defining node)."""
        for c in self.mro_classes():
            if name in c.methods:
                return c, c.methods[name]
            if name in c.assigns:
                return c, c.assigns[name]
            if name in c.nested:
                return c, self.prog.classes[c.nested[name]].node
        return None

    def lookup_after(self, owner: 'ClassInfo', name: str) -> typing.Optional[tuple['ClassInfo', ast.AST]]:
        """``super()`` resolution: next definition of ``name`` after ``owner`` in this class's MRO."""
        seen = False
        for c in self.mro_classes():
            if seen:
                if name in c.methods:
                    return c, c.methods[name]
                if name in c.assigns:
                    return c, c.assigns[name]
            elif c is owner:
                seen = True
        return None

    def annotation(self, name: str) -> typing.Optional[tuple['ClassInfo', ast.AST]]:
        for c in self.mro_classes():
            if name in c.annotations:
                return c, c.annotations[name]
        return None

    def is_subclass_of(self, other: typing.Union['ClassInfo', str]) -> bool:
        if isinstance(other, str):
            return any((isinstance(c, ClassInfo) and c.ref == other) or c == other for c in self.mro())
        return other in self.mro()

    def abstract_names(self) -> set[str]:
        """Names whose MRO-resolved definition is decorated abstract."""
        out = set()
        seen = set()
        for c in self.mro_classes():
            for n, fns in c.all_defs.items():
                if n in seen:
                    continue
                seen.add(n)
                if any('abstract' in d for fn in fns for d in decorator_names(fn)):
                    out.add(n)
            for n in c.assigns:
                seen.add(n)
        return out

    def func(self, name: str) -> 'FuncInfo':
        if name not in self.methods:
            raise AnalysisError(f'anchor vanished: method {self.ref}.{name}')
        return self.prog.func(f'{self.ref}.{name}')


def _c3(cls: ClassInfo, guard: set) -> list:
    if cls.ref in guard:
        return [cls]
    guard = guard | {cls.ref}
    seqs = []
    for b in cls.bases:
        seqs.append(_c3(b, guard) if isinstance(b, ClassInfo) else [b])
    seqs.append(list(cls.bases))
    out: list = [cls]
    seqs = [list(s) for s in seqs if s]
    while seqs:
        for s in seqs:
            head = s[0]
            if not any(head in t[1:] for t in seqs):
                break
        else:  # inconsistent hierarchy: fall back to depth-first order without duplicates
            head = seqs[0][0]
        out.append(head)
        seqs = [[x for x in s if x is not head and x != head] for s in seqs]
        seqs = [s for s in seqs if s]
    return out


class FuncInfo:
    def __init__(self, prog: 'Program', module: Module, qual: str, node: ast.AST):
        self.prog = prog
        self.module = module
        self.qual = qual
        self.node = node
        self.name = node.name  # type: ignore[attr-defined]
        self.ref = f'{module.name}:{qual}'
        self.local_imports: dict[str, str] = {}
        module.record_imports(node, self.local_imports, local_only=False)

    def __repr__(self) -> str:
        return f'<func {self.ref}>'

    @property
    def cls(self) -> typing.Optional[ClassInfo]:
        """Innermost enclosing class (also for closures nested in methods)."""
        parts = self.qual.split('.')
        for i in range(len(parts) - 1, 0, -1):
            ref = f'{self.module.name}:{".".join(parts[:i])}'
            if ref in self.prog.classes:
                return self.prog.classes[ref]
        return None

    @property
    def params(self) -> list[ast.arg]:
        a = self.node.args  # type: ignore[attr-defined]
        return list(a.posonlyargs) + list(a.args) + ([a.vararg] if a.vararg else []) + list(a.kwonlyargs) + (
            [a.kwarg] if a.kwarg else []
        )

    @property
    def param_names(self) -> list[str]:
        return [p.arg for p in self.params]

    @property
    def body(self) -> list[ast.stmt]:
        return self.node.body  # type: ignore[attr-defined]

    def loc(self, node: typing.Optional[ast.AST] = None) -> str:
        n = node if node is not None else self.node
        return f'{self.module.relpath}:{getattr(n, "lineno", 0)}'

    def nested(self, name: str) -> 'FuncInfo':
        return self.prog.func(f'{self.ref}.{name}')

    def inlined(self) -> 'FuncInfo':
        """The same function with single-assignment temporaries substituted (see inline_temporaries)."""
        if not hasattr(self, '_inlined'):
            clone = FuncInfo.__new__(FuncInfo)
            clone.__dict__.update(self.__dict__)
            clone.node = inline_temporaries(self.node)
            clone.node._qual = getattr(self.node, '_qual', self.qual)
            clone.node._module = self.module
            self._inlined = clone
        return self._inlined

    def text(self) -> str:
        """Normalised source of the function as written plus the variant with temporaries inlined (for pattern rules)."""
        return src(self.node) + '\n# -- temporaries inlined --\n' + src(self.inlined().node)


# --------------------------------------------------------------------------------------------------
# program
# --------------------------------------------------------------------------------------------------
class Program:
    """All modules under <root>/forml parsed once."""

    def __init__(self, root: str, package: str = 'forml'):
        self.root = os.path.abspath(root)
        self.package = package
        self.modules: dict[str, Module] = {}
        self.classes: dict[str, ClassInfo] = {}
        self._funcs: dict[str, FuncInfo] = {}
        self.consulted: set[str] = set()
        pkgdir = os.path.join(self.root, package)
        if not os.path.isdir(pkgdir):
            raise AnalysisError(f'no package directory {pkgdir}')
        for dirpath, dirnames, filenames in os.walk(pkgdir):
            dirnames[:] = sorted(d for d in dirnames if d != '__pycache__')
            for fn in sorted(filenames):
                if not fn.endswith('.py'):
                    continue
                path = os.path.join(dirpath, fn)
                rel = os.path.relpath(path, self.root)
                parts = rel[:-3].split(os.sep)
                is_pkg = parts[-1] == '__init__'
                if is_pkg:
                    parts = parts[:-1]
                name = '.'.join(parts)
                with open(path, encoding='utf-8') as fh:
                    source = fh.read()
                self.modules[name] = Module(name, path, rel, is_pkg, source)
        for mod in self.modules.values():
            for qual, node in mod.defs.items():
                if isinstance(node, ast.ClassDef):
                    self.classes[f'{mod.name}:{qual}'] = ClassInfo(self, mod, qual, node)
        self._subclasses: typing.Optional[dict[str, list[ClassInfo]]] = None

    # ---- statistics / digests
    def stats(self) -> dict:
        nfunc = sum(1 for m in self.modules.values() for n in m.defs.values() if isinstance(n, FUNC))
        return {'modules_parsed': len(self.modules), 'classes': len(self.classes), 'functions': nfunc}

    def digest(self, modules: typing.Optional[typing.Iterable[str]] = None) -> str:
        h = hashlib.sha256()
        for name in sorted(modules if modules is not None else self.modules):
            if name in self.modules:
                h.update(name.encode())
                h.update(self.modules[name].source.encode())
        return h.hexdigest()[:16]

    # ---- anchors
    def module(self, name: str) -> Module:
        if name not in self.modules:
            raise AnalysisError(f'anchor vanished: module {name}')
        self.consulted.add(name)
        return self.modules[name]

    def cls(self, ref: str) -> ClassInfo:
        if ref not in self.classes:
            raise AnalysisError(f'anchor vanished: class {ref}')
        self.consulted.add(ref.split(':')[0])
        return self.classes[ref]

    def has_cls(self, ref: str) -> bool:
        return ref in self.classes

    def func(self, ref: str) -> FuncInfo:
        if ref not in self._funcs:
            modname, _, qual = ref.partition(':')
            mod = self.module(modname)
            node = mod.defs.get(qual)
            if not isinstance(node, FUNC):
                raise AnalysisError(f'anchor vanished: function {ref}')
            self._funcs[ref] = FuncInfo(self, mod, qual, node)
        self.consulted.add(ref.split(':')[0])
        return self._funcs[ref]

    def has_func(self, ref: str) -> bool:
        modname, _, qual = ref.partition(':')
        return modname in self.modules and isinstance(self.modules[modname].defs.get(qual), FUNC)

    def functions(self, modules: typing.Optional[typing.Iterable[str]] = None) -> typing.Iterator[FuncInfo]:
        for name in sorted(modules if modules is not None else self.modules):
            mod = self.modules.get(name)
            if mod is None:
                continue
            for qual, node in mod.defs.items():
                if isinstance(node, FUNC):
                    yield self.func(f'{name}:{qual}')

    def func_of_node(self, node: ast.AST) -> typing.Optional[FuncInfo]:
        for a in [node] + list(ancestors(node)):
            if isinstance(a, FUNC) and hasattr(a, '_qual'):
                return self.func(f'{a._module.name}:{a._qual}')  # type: ignore[attr-defined]
        return None

    def subclasses(self, base: typing.Union[ClassInfo, str], strict: bool = True) -> list[ClassInfo]:
        ref = base.ref if isinstance(base, ClassInfo) else base
        out = []
        for c in self.classes.values():
            if c.ref == ref:
                if not strict:
                    out.append(c)
                continue
            if any(isinstance(m, ClassInfo) and m.ref == ref for m in c.mro()):
                out.append(c)
        return out

    # ---- name resolution
    def lookup_in_module(self, modname: str, attr: str, _depth: int = 0):
        """Resolve ``modname.attr`` to ClassInfo / FuncInfo / module name (str 'mod:<name>') / ('assign', node) /
        external dotted str."""
        if _depth > 12:
            return f'{modname}.{attr}'
        sub = f'{modname}.{attr}'
        mod = self.modules.get(modname)
        if mod is None:
            return sub  # external
        if attr in mod.defs:
            node = mod.defs[attr]
            ref = f'{modname}:{attr}'
            return self.classes[ref] if isinstance(node, ast.ClassDef) else self.func(ref)
        if attr in mod.imports:
            return self._resolve_abs(mod.imports[attr], _depth + 1)
        if sub in self.modules:
            return f'mod:{sub}'
        if attr in mod.assigns:
            return ('assign', mod, mod.assigns[attr])
        return sub

    def _resolve_abs(self, path: str, _depth: int = 0):
        """Resolve an absolute dotted path (module or module attribute chain)."""
        if path in self.modules:
            return f'mod:{path}'
        parts = path.split('.')
        for i in range(len(parts) - 1, 0, -1):
            head = '.'.join(parts[:i])
            if head in self.modules:
                cur = f'mod:{head}'
                for attr in parts[i:]:
                    cur = self._getattr(cur, attr, _depth)
                return cur
        return path

    def _getattr(self, cur, attr: str, _depth: int = 0):
        if isinstance(cur, str) and cur.startswith('mod:'):
            return self.lookup_in_module(cur[4:], attr, _depth + 1)
        if isinstance(cur, ClassInfo):
            found = cur.lookup(attr)
            if found is None:
                return f'{cur.ref}.{attr}'
            owner, node = found
            if isinstance(node, ast.ClassDef):
                return self.classes[f'{owner.module.name}:{owner.qual}.{attr}']
            if isinstance(node, FUNC):
                return self.func(f'{owner.ref}.{attr}')
            # class-level alias such as ``Kind = SomeEnum``
            if isinstance(node, (ast.Name, ast.Attribute)):
                name = dotted(node)
                if name:
                    res = self.resolve(owner.module, name, scope=owner.qual)
                    if isinstance(res, (ClassInfo, FuncInfo)):
                        return res
            return ('assign', owner.module, node)
        if isinstance(cur, str):
            return f'{cur}.{attr}'
        return f'?.{attr}'

    def resolve(self, module: Module, name: str, scope: str = '', func: typing.Optional[FuncInfo] = None):
        """Resolve the dotted ``name`` as written inside ``module`` (lexical scope ``scope`` = enclosing qualname).

        Returns ClassInfo | FuncInfo | 'mod:<module>' | ('assign', module, node) | external dotted str.
        """
        parts = name.split('.')
        head = parts[0]
        cur = None
        # lexical class scopes (nested classes referencing siblings by bare name inside class bodies)
        scopes = scope.split('.') if scope else []
        for i in range(len(scopes), 0, -1):
            ref = f'{module.name}:{".".join(scopes[:i])}'
            ci = self.classes.get(ref)
            if ci is not None and (head in ci.nested):
                cur = self.classes[ci.nested[head]]
                break
            q = f'{".".join(scopes[:i])}.{head}'
            if q in module.defs and ref not in self.classes:  # function-local def
                node = module.defs[q]
                cur = self.classes[f'{module.name}:{q}'] if isinstance(node, ast.ClassDef) else self.func(
                    f'{module.name}:{q}'
                )
                break
        if cur is None and func is not None and head in func.local_imports:
            cur = self._resolve_abs(func.local_imports[head])
        if cur is None:
            if head in module.defs:
                node = module.defs[head]
                cur = (
                    self.classes[f'{module.name}:{head}']
                    if isinstance(node, ast.ClassDef)
                    else self.func(f'{module.name}:{head}')
                )
            elif head in module.imports:
                cur = self._resolve_abs(module.imports[head])
            elif head in module.assigns:
                cur = ('assign', module, module.assigns[head])
            else:
                cur = head  # builtin / unknown
        for attr in parts[1:]:
            cur = self._getattr(cur, attr)
        return cur

    def resolve_expr(self, fn: FuncInfo, node: ast.AST):
        name = dotted(node)
        if name is None:
            return None
        return self.resolve(fn.module, name, scope=fn.qual, func=fn)

    def resolve_str(self, module: Module, text: str, scope: str = ''):
        """Resolve a string annotation such as 'dsl.Join' or 'flow.Worker'."""
        try:
            node = ast.parse(text.strip(), mode='eval').body
        except SyntaxError:
            return None
        name = dotted(node)
        return self.resolve(module, name, scope=scope) if name else None
